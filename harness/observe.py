"""Reading of vlsir.circuit.Package objects the way the VLSIR netlisters read them.

`target_bits(t, widths)` returns the bits of a ConnectionTarget **LSB first** as
[(signal, index), ...].  The netlisters print MSB first: a signal as w-1 … 0, a slice as
top … bot, a concatenation as its parts in order; reversing that print order gives the
LSB-first list returned here (so for a concat the *last* part holds the low bits).
"""


def target_bits(t, widths):
    kind = t.WhichOneof("stype")
    if kind == "sig":
        return [(t.sig, i) for i in range(widths[t.sig])]
    if kind == "slice":
        return [(t.slice.signal, i) for i in range(t.slice.bot, t.slice.top + 1)]
    if kind == "concat":
        out = []
        for part in reversed(t.concat.parts):
            out.extend(target_bits(part, widths))
        return out
    raise ValueError(f"unset connection target {t}")


def module_widths(pmod):
    return {s.name: s.width for s in pmod.signals}


def find_module(pkg, name):
    for m in pkg.modules:
        if m.name == name or m.name.split(".")[-1] == name:
            return m
    raise KeyError(name)


# --------------------------------------------------------------------------- package -> JSON for the Lean driver

from decimal import Decimal
from fractions import Fraction


def canon_param(pv):
    """Canonical text of a vlsir.ParamValue (exact)."""
    import vlsir

    which = pv.WhichOneof("value")
    if which == "literal":
        return "L:" + pv.literal
    if which == "string_value":
        return "S:" + pv.string_value
    if which == "int64_value":
        return "I:" + str(pv.int64_value)
    if which == "double_value":
        return "F:" + float(pv.double_value).hex()
    if which == "prefixed":
        names = {v.number: n for n, v in vlsir.SIPrefix.DESCRIPTOR.values_by_name.items()}
        from hdl21.prefix import Prefix

        pre = Prefix[names[pv.prefixed.prefix]].value
        w = pv.prefixed.WhichOneof("number")
        num = Fraction(pv.prefixed.int64_value) if w == "int64_value" else (
            Fraction(Decimal(pv.prefixed.string_value)) if w == "string_value" else Fraction(pv.prefixed.double_value))
        return "P:" + str(num * Fraction(10) ** pre)
    return "?:" + str(which)


def target_json(t):
    kind = t.WhichOneof("stype")
    if kind == "sig":
        return {"sig": t.sig}
    if kind == "slice":
        return {"slice": [t.slice.signal, t.slice.top, t.slice.bot]}
    if kind == "concat":
        return {"concat": [target_json(p) for p in t.concat.parts]}
    raise ValueError(f"unset connection target {t}")


def dir_name(d):
    import vlsir.circuit_pb2 as vckt

    return {vckt.Port.Direction.INPUT: "input", vckt.Port.Direction.OUTPUT: "output",
            vckt.Port.Direction.INOUT: "inout", vckt.Port.Direction.NONE: "none"}[d]


def pkg_json(pkg):
    mods = []
    for m in pkg.modules:
        insts = []
        for i in m.instances:
            to = i.module.WhichOneof("to")
            ref = {"local": i.module.local} if to == "local" else {"ext": [i.module.external.domain, i.module.external.name]}
            insts.append({"n": i.name, "ref": ref, "params": [[p.name, canon_param(p.value)] for p in i.parameters],
                          "conns": [[c.portname, target_json(c.target)] for c in i.connections]})
        mods.append({"name": m.name, "signals": [{"n": s.name, "w": s.width} for s in m.signals],
                     "ports": [{"n": p.signal, "dir": dir_name(p.direction)} for p in m.ports], "instances": insts})
    exts = [{"domain": e.name.domain, "name": e.name.name, "signals": [{"n": s.name, "w": s.width} for s in e.signals],
             "ports": [{"n": p.signal, "dir": dir_name(p.direction)} for p in e.ports]} for e in pkg.ext_modules]
    return {"modules": mods, "ext_modules": exts}


# --------------------------------------------------------------------------- second reading: the spice text itself


_VLSIR_IDEAL = {"vdc": "DcVoltageSource", "vpulse": "PulseVoltageSource", "vsin": "SineVoltageSource", "isource": "CurrentSource",
                "resistor": "IdealResistor", "capacitor": "IdealCapacitor", "inductor": "IdealInductor", "vcvs": "VoltageControlledVoltageSource",
                "vccs": "VoltageControlledCurrentSource", "ccvs": "CurrentControlledVoltageSource", "cccs": "CurrentControlledCurrentSource"}


def primitive_ports(domain, name):
    """Port order of a primitive as the netlisters write it (vlsirtools' own primitive definitions = hdl21's port lists)."""
    import importlib

    prims = importlib.import_module("hdl21.primitives")
    pname = _VLSIR_IDEAL[name] if domain == "vlsir.primitives" else name
    return [p.name for p in getattr(prims, pname).port_list]


def parse_spice(text):
    """{subckt: {"ports": [node...], "insts": [{"name", "nodes": [...], "target": str}]}} from vlsirtools' spice output."""
    subckts, cur, lines = {}, None, [l.rstrip() for l in text.splitlines()]
    k = 0
    while k < len(lines):
        l = lines[k]
        if l.startswith(".SUBCKT"):
            name = l.split()[1]
            cur = {"ports": [], "insts": []}
            subckts[name] = cur
            k += 1
            while k < len(lines) and lines[k].startswith("+"):
                cur["ports"] += lines[k][1:].split()
                k += 1
            continue
        if l.startswith(".ENDS"):
            cur = None
        elif cur is not None and l and not l.startswith(("*", "+", ".")):
            head = l.split()[0]
            plus = []
            k += 1
            while k < len(lines) and lines[k].startswith("+"):
                plus.append(lines[k][1:].split())
                k += 1
            nodes = plus[0] if plus else []
            if nodes[:1] == ["*"]:
                nodes = []  # "+ * No ports"
            target = plus[1][0] if len(plus) > 1 and plus[1] else ""
            cur["insts"].append({"prefix": head[0], "name": head[1:], "nodes": nodes, "target": target})
            continue
        k += 1
    return subckts


def spice_partition(text, pj, top):
    """Partition of observable bits read from the netlist text alone (node positions), using the package only for
    port order/widths of modules and external modules (to name the bits). Independent of observe.target_bits / Lean."""
    sub = parse_spice(text)
    mods = {m["name"].split(".")[-1].replace("(", "_").replace(")", "_"): m for m in pj["modules"]}
    by_short = {m["name"]: m for m in pj["modules"]}
    exts = {e["name"]: e for e in pj["ext_modules"]}

    def bits_msb_first(ports, signals):
        w = {s["n"]: s["w"] for s in signals}
        out = []
        for p in ports:
            out += [(p["n"], i) for i in reversed(range(w[p["n"]]))]
        return out

    def solve(mname):
        """-> list of nets, each {"ports": set((port,i)), "terms": set((path, port, i))} for subckt `mname`."""
        m = mods[mname]
        sc = sub[mname]
        parent = {}

        def find(x):
            parent.setdefault(x, x)
            while parent[x] != x:
                parent[x] = parent[parent[x]]
                x = parent[x]
            return x

        def union(a, b):
            parent[find(a)] = find(b)

        terms, portnodes = [], []
        for node, pb in zip(sc["ports"], bits_msb_first(m["ports"], m["signals"])):
            find(node)
            portnodes.append((pb, node))
        inst_by_name = {i["n"]: i for i in m["instances"]}
        floating = []
        for si in sc["insts"]:
            pi = inst_by_name[si["name"]]
            if "local" in pi["ref"]:
                child = pi["ref"]["local"].split(".")[-1].replace("(", "_").replace(")", "_")
                cm = mods[child]
                cbits = bits_msb_first(cm["ports"], cm["signals"])
                assert len(cbits) == len(si["nodes"]), (mname, si, cbits)
                node_of = dict(zip(cbits, si["nodes"]))
                for net in solve(child):
                    nodes = [node_of[pb] for pb in net["ports"]]
                    ts = {((si["name"],) + t[0], t[1], t[2]) for t in net["terms"]}
                    if nodes:
                        for n in nodes:
                            find(n)
                        for n in nodes[1:]:
                            union(nodes[0], n)
                        terms += [(t, nodes[0]) for t in ts]
                    elif ts:
                        floating.append(ts)
            else:
                dom, nm = pi["ref"]["ext"]
                if nm in exts and exts[nm]["domain"] == dom:
                    lbits = bits_msb_first(exts[nm]["ports"], exts[nm]["signals"])
                else:
                    lbits = [(pn, 0) for pn in primitive_ports(dom, nm)]  # primitives: scalar ports, in the primitive's order
                assert len(lbits) == len(si["nodes"]), (mname, si, lbits)
                for (port, i), node in zip(lbits, si["nodes"]):
                    find(node)
                    terms.append((((si["name"],), port, i), node))
        nets = {}
        for pb, node in portnodes:
            nets.setdefault(find(node), {"ports": set(), "terms": set()})["ports"].add(pb)
        for t, node in terms:
            nets.setdefault(find(node), {"ports": set(), "terms": set()})["terms"].add(t)
        return list(nets.values()) + [{"ports": set(), "terms": ts} for ts in floating]

    topname = top.split(".")[-1].replace("(", "_").replace(")", "_")
    classes = []
    for net in solve(topname):
        c = sorted([f"{p}[{i}]" for p, i in net["ports"]] + ["/".join(t[0]) + f":{t[1]}[{t[2]}]" for t in net["terms"]])
        if c:
            classes.append(c)
    return sorted(classes, key=lambda c: c[0])


def pkg_json_full(pkg):
    """Everything in the package, as JSON, for locating the first difference between two packages."""
    from google.protobuf.json_format import MessageToDict

    return MessageToDict(pkg, preserving_proto_field_name=True)
