"""Reading of vlsir.circuit.Package objects the way the VLSIR netlisters read them.

`target_bits(t, widths)` returns the bits of a ConnectionTarget **LSB first** as
[(signal, index), ...].  The netlisters print MSB first: a signal as w-1 … 0, a slice as
top … bot, a concatenation as its parts in order; reversing that print order gives the
LSB-first list returned here (so for a concat the *last* part holds the low bits).
"""


def target_bits(t, widths):
    kind = t.WhichOneof("stype")
    if kind == "sig":
        return [(t.sig, i) for i in range(widths[t.sig])]
    if kind == "slice":
        return [(t.slice.signal, i) for i in range(t.slice.bot, t.slice.top + 1)]
    if kind == "concat":
        out = []
        for part in reversed(t.concat.parts):
            out.extend(target_bits(part, widths))
        return out
    raise ValueError(f"unset connection target {t}")


def module_widths(pmod):
    return {s.name: s.width for s in pmod.signals}


def find_module(pkg, name):
    for m in pkg.modules:
        if m.name == name or m.name.split(".")[-1] == name:
            return m
    raise KeyError(name)
