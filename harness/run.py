"""
Orchestrator:  run.py <PROP> [--tier quick|thorough] [--replay FILE]

 1. regenerate the (G) tables from /repo          (gen_tables.py)
 2. lake build  (driver + the property's theorems)
 3. axiom audit + forbidden-token grep
 4. the property's correspondence / predicate streams against /repo's working tree
 5. verdict, evidence, replay
Exit 0 = held on everything explored, 1 = VIOLATION printed, 2 = infrastructure problem / timeout.
"""
import argparse
import importlib
import json
import os
import random
import subprocess
import sys
import time
import traceback

sys.path.insert(0, os.path.dirname(os.path.abspath(__file__)))
import common
from common import Report, Drv, lake_build, audit, forbidden_tokens, theorems_of, STD_AXIOMS, finish


class Ctx:
    pass


def main():
    ap = argparse.ArgumentParser()
    ap.add_argument("prop")
    ap.add_argument("--tier", default=os.environ.get("VERIF_TIER", "quick"))
    ap.add_argument("--replay", default=None)
    args = ap.parse_args()
    prop = args.prop.upper()
    tier = args.tier if args.tier in ("quick", "thorough") else "quick"
    seed = int(os.environ.get("VERIF_SEED", "0") or 0)
    rep = Report(prop, tier, seed)

    # 1. generated tables
    try:
        import gen_tables

        for f in gen_tables.main():
            rep.proof_broken.append({"table_generation_failed": f["generator"], "error": f["error"]})
    except Exception:
        traceback.print_exc()
        print("gen_tables failed", file=sys.stderr)
        return 2

    # 2. build
    ok_drv, log = lake_build(["drv"])
    if not ok_drv:
        sys.stderr.write(log[-4000:])
        print("driver build failed", file=sys.stderr)
        return 2
    ok_props, log2 = lake_build([f"Hdl21Model.Props.{prop}"])
    if not ok_props:
        errs = [l for l in log2.splitlines() if l.startswith("error:")]
        rep.proof_broken.append({"build_failed": f"Hdl21Model.Props.{prop}", "errors": errs[:10]})

    # 3. audit
    toks = forbidden_tokens()
    if toks:
        rep.proof_broken.append({"forbidden_tokens": toks[:10]})
    if ok_props:
        ax, _ = audit(prop)
    else:
        ax = {n: None for n in theorems_of(prop)}
    obligations = {}
    for n, a in ax.items():
        good = a is not None and set(a) <= STD_AXIOMS
        obligations[n] = good
        if not good:
            rep.proof_broken.append({"theorem": n, "axioms": a})
    rep.extra["axioms"] = {n: a for n, a in ax.items()}
    checker = f"lake build Hdl21Model.Props.{prop} && lake env lean .audit/{prop}.lean (#print axioms)"
    if tier == "thorough" and ok_props:
        # the property's theorems *and* every model / lemma file of this project they rest on (the import closure inside Hdl21Model)
        mods = common.import_closure(f"Hdl21Model.Props.{prop}")
        p = subprocess.run(
            ["lake", "env", "leanchecker"] + mods,
            cwd=common.LEAN, capture_output=True, text=True, timeout=3000,
        )
        rep.extra["leanchecker_modules"] = len(mods)
        rep.extra["leanchecker"] = {"rc": p.returncode, "tail": (p.stdout + p.stderr)[-300:]}
        checker += f" && lake env leanchecker Hdl21Model.Props.{prop} + its {len(mods) - 1} imported Hdl21Model modules"
        if p.returncode != 0:
            rep.proof_broken.append({"leanchecker": (p.stdout + p.stderr)[-500:]})

    # 4. the property's streams
    ctx = Ctx()
    ctx.rep, ctx.tier, ctx.seed, ctx.drv = rep, tier, seed, Drv()
    ctx.rng = random.Random(seed)
    ctx.quick = tier == "quick"
    ctx.broken = bool(rep.proof_broken)
    mod = importlib.import_module(f"props.{prop.lower()}")
    if args.replay:
        case = json.load(open(args.replay))
        case["_path"] = args.replay
        return mod.replay(ctx, case)
    mod.run(ctx)

    trusted = [
        "Lean 4.33 kernel; axioms ⊆ {propext, Classical.choice, Quot.sound} (audited per theorem on every run)",
        "Lean compiler for evaluating the model in the driver",
        "harness/gen_tables.py (table translator) and harness/props/%s.py (builders, canonicalisers)" % prop.lower(),
    ] + getattr(mod, "TRUSTED", [])
    rep.assumptions = getattr(mod, "ASSUMPTIONS", [])
    return finish(rep, obligations, checker, trusted)


if __name__ == "__main__":
    try:
        rc = main()
    except SystemExit:
        raise
    except BaseException:
        # a crash of the harness itself is an infrastructure problem (exit 2), never a verdict about the property
        traceback.print_exc()
        print("harness error (no verdict)", file=sys.stderr)
        rc = 2
    sys.exit(rc)
