"""JSON design IR  ->  real hdl21 objects (procedural, class-body or generator style).

The IR is the one `lean/Hdl21Model/Drv/Sem.lean` parses (DESIGN.md Appendix A).
Leaf targets carry, next to what Lean needs (kind / ports / canonical params), a "py" recipe.
"""
import itertools
from enum import Enum, auto

import common

h = common.repo_env()
import importlib

hbundle = importlib.import_module("hdl21.bundle")


class _R(Enum):
    HOST = auto()
    DEVICE = auto()


ROLES = h.RoleSet.from_enum(_R)
ROLE = {"HOST": ROLES.HOST, "DEVICE": ROLES.DEVICE, None: None}


def idx_py(j):
    if "i" in j:
        return j["i"]
    return slice(j.get("s"), j.get("e"), j.get("st"))


def build_bundle_def(name, tree, defs):
    """Bundle definition from a (possibly nested, inline) tree. Sub-trees become their own definitions."""
    b = h.Bundle(name=name)
    b.roles = ROLES
    for s in tree["sigs"]:
        kind, w = s.get("kind", "plain"), s["w"]
        if kind == "input":
            sig = h.Input(width=w)
        elif kind == "output":
            sig = h.Output(width=w)
        elif kind == "inout":
            sig = h.Inout(width=w)
        elif kind == "port":
            sig = h.Port(width=w)
        else:
            sig = h.Signal(width=w, src=ROLE[s.get("src")], dest=ROLE[s.get("dest")])
        setattr(b, s["n"], sig)
    for sub in tree["subs"]:
        sb = build_bundle_def(f"{name}_{sub['n']}", sub["of"], defs)
        setattr(b, sub["n"], sb(role=ROLE[sub.get("role")], flipped=sub.get("flip", False)))
    defs[name] = b
    return b


def leaf_target(of):
    py = of["py"]
    if py["k"] == "ext":
        em = h.ExternalModule(name=py["name"], domain=py.get("domain"), port_list=[h.Port(name=p["n"], width=p["w"]) for p in of["ports"]], paramtype=dict)
        return em(dict(py.get("params", {})))
    if py["k"] == "prim":
        prim = getattr(h.primitives, py["name"])
        return prim(**py.get("params", {}))
    raise ValueError(py)


class Built:
    pass


def build(design, style="proc", hist=None):
    """Returns Built with .top (Module), .modules {name: Module}, .insts {(module, inst): object}."""
    inc = Incremental(design, style, hist)
    while inc.remaining():
        inc.next_module()
    return inc.result()


class Incremental:
    """Builds the modules of a design one at a time (children first), so that histories can elaborate or export
    some modules before their parents even exist."""

    def __init__(self, design, style="proc", hist=None):
        """`hist`: optional object that makes the connections itself (C04 operation histories):
        hist.pre(mj, insts, attrs, ns, mk) before the module object exists, hist.post(mj, insts, mk) after,
        hist.getref(mj, inst, port) whenever `inst.port` is evaluated."""
        self.design, self.style, self.hist = design, style, hist
        self.defs = {}
        for b in design["bundles"]:
            if b["name"] == "Diff":
                self.defs["Diff"] = h.Diff  # `Pair` requires this very bundle type
            else:
                build_bundle_def(b["name"], b["tree"], self.defs)
        self.mods, self.insts_all, self.ext_cache = {}, {}, {}
        self.k = 0

    def remaining(self):
        return len(self.design["modules"]) - self.k

    def result(self):
        out = Built()
        out.modules, out.insts, out.bundles = self.mods, self.insts_all, self.defs
        out.top = self.mods.get(self.design["top"])
        return out

    def next_module(self):
        design, style = self.design, self.style
        defs, mods, insts_all, ext_cache = self.defs, self.mods, self.insts_all, self.ext_cache
        mj = design["modules"][self.k]
        self.k += 1
        attrs = []  # (name, object) in declaration order
        ns = {}
        for s in mj["sigs"]:
            if s["port"]:
                ctor = {"input": h.Input, "output": h.Output, "inout": h.Inout}.get(s.get("dir", "none"), h.Port)
                obj = ctor(width=s["w"])
            else:
                obj = h.Signal(width=s["w"])
            attrs.append((s["n"], obj))
            ns[s["n"]] = obj
        # bundle instances made together by multiplication (`b1, b2 = 2 * B()`)
        twins = {}
        for b in mj["bundles"]:
            if "mult" in b:
                twins.setdefault(b["mult"], []).append(b)
        made = {}
        for bs in twins.values():
            b0 = bs[0]
            for b, o in zip(bs, len(bs) * defs[b0["of"]](port=b0["port"], role=ROLE[b0.get("role")], flipped=b0.get("flip", False))):
                made[b["n"]] = o
        for b in mj["bundles"]:
            obj = made[b["n"]] if b["n"] in made else defs[b["of"]](port=b["port"], role=ROLE[b.get("role")], flipped=b.get("flip", False))
            attrs.append((b["n"], obj))
            ns[b["n"]] = obj
        insts = {}
        for ij in mj["insts"]:
            of = ij["of"]
            if of["k"] == "module" and of["name"] == mj["name"]:
                target = None  # self-instantiation: patched below, once the module exists
            elif of["k"] == "module":
                target = mods[of["name"]]
            else:
                key = repr(of["py"])
                target = ext_cache.get(key) or leaf_target(of)
                ext_cache[key] = target
            placeholder = target is None
            if placeholder:
                target = h.Module(name="placeholder")
            if "array" in ij:
                obj = h.InstanceArray(target, ij["array"])
            elif "pair" in ij:
                if ij.get("pair_of", "Diff") == "Diff":
                    obj = h.Pair(target)
                else:
                    key = "ibtype:" + ij["pair_of"]
                    if key not in ext_cache:
                        ext_cache[key] = h.InstanceBundleType(name="Ib_" + ij["pair_of"], bundle=defs[ij["pair_of"]])
                    obj = ext_cache[key](target)
            else:
                obj = h.Instance(of=target)
            if placeholder:
                obj._self_ref = True
            insts[ij["n"]] = obj
            attrs.append((ij["n"], obj))
            ns[ij["n"]] = obj

        shared_nc = {}
        replaced = []

        def mk(c):
            k = c["k"]
            if k == "sig":
                return ns[c["n"]]
            if k == "slice":
                return mk(c["p"])[idx_py(c["i"])]
            if k == "concat":
                return h.Concat(*[mk(p) for p in c["ps"]])
            if k == "pref":
                if self.hist is not None:
                    self.hist.getref(mj, c["inst"], c["port"])
                return getattr(insts[c["inst"]], c["port"])
            if k == "noconn":
                if c.get("id") is not None:
                    if c["id"] not in shared_nc:
                        shared_nc[c["id"]] = h.NoConn(name=c.get("name"))
                    return shared_nc[c["id"]]
                return h.NoConn(name=c.get("name"))
            if k == "bundle":
                return ns[c["n"]]
            if k == "bref":
                r = ns[c["root"]]
                for seg in c["path"]:
                    r = getattr(r, seg)
                return r
            if k == "anon":
                if c.get("id") is not None:  # one AnonymousBundle object connected to several ports
                    if ("anon", c["id"]) not in shared_nc:
                        shared_nc[("anon", c["id"])] = h.AnonymousBundle(**{f: mk(v) for f, v in c["fields"]})
                    return shared_nc[("anon", c["id"])]
                return h.AnonymousBundle(**{f: mk(v) for f, v in c["fields"]})
            if k == "orphan" and c.get("owner") == "module":
                # a signal that belongs to (and is in use inside) another module of the design
                return mods[c["from"]].get(c["sig"])
            if k == "orphan" and c.get("owner") == "replaced":
                # the object that *was* this module's signal `n`: a same-named signal of the same kind takes its place once the
                # connections are made
                replaced.append(c["n"])
                return ns[c["n"]]
            if k == "orphan":
                sig = h.Signal(width=c["w"], name="orph")
                if c.get("owner") == "other":
                    other = h.Module(name="SomeOtherModule")
                    other.add(sig)
                return sig
            raise ValueError(k)

        def assemble():
            if self.hist is not None:
                self.hist.pre(mj, insts, attrs, ns, mk)
            if style == "class":
                m = h.module(type(mj["name"], (), dict(attrs)))
            else:
                m = h.Module(name=mj["name"])
                for n, o in attrs:
                    setattr(m, n, o)
            for o in insts.values():
                if getattr(o, "_self_ref", False):
                    o.of = m  # circular instantiation
            # connections are made once every instance exists (port references need their instance)
            if self.hist is not None:
                self.hist.post(mj, insts, mk)
                return m
            for ij in mj["insts"]:
                for port, c in ij["conns"]:
                    insts[ij["n"]].connect(port, mk(c))
            for n in dict.fromkeys(replaced):
                old = ns[n]
                m.add(h.Signal(name=n, width=old.width, vis=old.vis, direction=old.direction))
            return m

        if style == "gen":
            def body(p: h.HasNoParams) -> h.Module:
                return assemble()

            body.__name__ = mj["name"]
            m = h.generator(body)()
        else:
            m = assemble()
        if "label" in mj:
            m.name = mj["label"]  # unnamed (None) or clashing module names
        mods[mj["name"]] = m
        for n, o in insts.items():
            insts_all[(mj["name"], n)] = o
        return mods[mj["name"]]
