"""Shared machinery of the elaborator-family checks (C01, C02, C05, C06, C11, C12, C16, C19):
generate designs -> build real Hdl21 objects -> export / netlist -> observe -> Lean `sem` op."""
import io
import json

import common
import build
import observe
import gen_design

h = common.repo_env()


def known_limitation(design):
    """Designs the *unchanged* code rejects although they are well-formed (crashes that are not violations of any
    listed property); the generator steps around them so that they do not show up as broken correspondence.
      (a) a port reference to a port whose own connection is a BundleRef: BundleRef.__eq__/__hash__ read a
          non-existent `.inst`, which creates a bogus nested reference and crashes bundle flattening."""
    return None  # (a) was repaired in /repo (BundleRef.__eq__ / __hash__ compare parents); nothing is stepped around any more
    for m in design["modules"]:
        direct = {(i["n"], p): c for i in m["insts"] for p, c in i["conns"]}

        def prefs(c):
            if c["k"] == "pref":
                yield (c["inst"], c["port"])
            for sub in c.get("ps", []) + ([c["p"]] if "p" in c and isinstance(c.get("p"), dict) else []) + [v for _, v in c.get("fields", [])]:
                yield from prefs(sub)

        for (i, p), c in direct.items():
            for tgt in prefs(c):
                if direct.get(tgt, {}).get("k") == "bref":
                    return "pref-to-bref"
            if c["k"] == "bref" and any(t == (i, p) for cc in direct.values() for t in prefs(cc)):
                return "pref-to-bref"
    return None


def impl_design(case):
    """Build, export, netlist one design. Everything observable comes back as plain JSON."""
    d, style = case["design"], case.get("style", "proc")
    out = {}
    try:
        b = build.build(d, style)
    except Exception as ex:  # noqa
        return {"build_error": f"{type(ex).__name__}: {str(ex)[-200:]}"}
    try:
        pkg = h.to_proto(b.top)
    except Exception as ex:  # noqa
        return {"reject": f"{type(ex).__name__}: {str(ex)[-300:]}"}
    pj = observe.pkg_json(pkg)
    out["pkg"] = pj
    out["top"] = next(m["name"] for m in pj["modules"] if m["name"].split(".")[-1] in (d["top"], b.top.name))
    if case.get("netlist", True):
        try:
            s = io.StringIO()
            h.netlist(pkg, s, fmt="spice")
            out["spice"] = observe.spice_partition(s.getvalue(), pj, out["top"])
        except Exception as ex:  # noqa
            out["spice_error"] = common.errstr(ex)
    if case.get("accept", False):
        acc = {}
        try:
            h.from_proto(pkg)
            acc["from_proto"] = "ok"
        except Exception as ex:  # noqa
            acc["from_proto"] = common.errstr(ex)
        for fmt in ("spice", "spectre"):
            try:
                h.netlist(pkg, io.StringIO(), fmt=fmt)
                acc[fmt] = "ok"
            except Exception as ex:  # noqa
                acc[fmt] = common.errstr(ex)
        out["accept"] = acc
    if case.get("roundtrip", False):
        try:
            ns = h.from_proto(pkg)
            tops = []
            node = ns
            for part in out["top"].split(".")[:-1]:
                node = getattr(node, part)
            top2 = getattr(node, out["top"].split(".")[-1])
            pkg2 = h.to_proto(top2)
            if pkg2 == pkg:
                out["roundtrip"] = "equal"
            else:
                c11 = __import__("props.c11", fromlist=["x"])
                out["roundtrip"] = {"differs": c11.first_difference(observe.pkg_json_full(pkg), observe.pkg_json_full(pkg2))}
        except Exception as ex:  # noqa
            out["roundtrip"] = {"error": f"{type(ex).__name__}: {str(ex)[-200:]}"}
    return out


def sem_line(case, im):
    l = {"prop": "SEM", "op": "sem", "top": case["design"]["top"], "design": case["design"]}
    if im and "pkg" in im:
        l["pkg"], l["pkg_top"] = im["pkg"], im["top"]
    return l


def run_designs(ctx, cases, chunk=4):
    """-> list of (case, impl, model) ; model always has 'src', and 'pkg'/'wf_problems' when exported."""
    impls = common.pmap(impl_design, cases, chunk=chunk)
    outs = ctx.drv.run([sem_line(c, im) for c, im in zip(cases, impls)])
    return list(zip(cases, impls, outs))


def gen_cases(rng, n, opts=None, styles=("proc", "class", "gen"), **flags):
    cases = []
    tries = 0
    while len(cases) < n and tries < 20 * n:
        tries += 1
        d = gen_design.gen_design(rng, opts)
        if known_limitation(d):
            continue
        cases.append({"design": d, "style": styles[len(cases) % len(styles)], **flags})
    return cases


def sorted_devs(devs):
    return sorted((d["path"], d["kind"], tuple(map(tuple, d["params"]))) for d in devs)
