"""
The composed module pipeline (lean/Hdl21Model/ModulePipe.lean: Orphanage, ConnTypes, SliceResolver, the repeats, export_module —
the default pass list on one module of fragment F1) against the real elaborator and exporter.

Random modules: signals and ports of widths 1..6, instances of ExternalModules and of child Modules, every port connected to an
arbitrarily nested slice / concatenation expression of the right width; mostly valid, one planted fault otherwise (a width off
by one, a port left open, a connection to a port that does not exist, an index out of range, a signal of another module).
Compared: accepted vs refused; when both accept, the exported module — signal list, port list, instance names, per connection the
bits the netlisters read (the observable `module_connections_preserved` is about) and, for the record, the very target trees.

Used by the checks of C01 (connectivity), C02 (refusals) and C06 (well-formed module), whose Props files hold the theorems.
"""
import json

import common  # noqa: F401  (repo_env side effect)
import observe
import hdl21 as h

DIRS = {"INPUT": h.Input, "OUTPUT": h.Output, "INOUT": h.Inout, "NONE": h.Port}


# ------------------------------------------------------------------ generation

def rand_idx_exact(rng, pw, w):
    """an index selecting exactly `w` bits of a `pw`-bit parent (w <= pw), or None"""
    if w > pw:
        return None
    opts = []
    if w == 1:
        k = rng.randrange(pw)
        opts += [{"i": k}, {"i": k - pw}]
    a = rng.randint(0, pw - w)
    opts.append({"s": a, "e": a + w, "st": None})
    if a + w == pw:
        opts.append({"s": a if rng.random() < 0.5 else a - pw, "e": None, "st": None})
    if a == 0:
        opts.append({"s": None, "e": w, "st": None})
    # reversed
    top = a + w - 1
    opts.append({"s": top, "e": (a - 1 if a > 0 else None), "st": -1})
    # strided
    for st in (2, 3):
        span = (w - 1) * st + 1
        if span <= pw and w > 1:
            b = rng.randint(0, pw - span)
            opts.append({"s": b, "e": b + span, "st": st})
            opts.append({"s": b + span - 1, "e": (b - 1 if b > 0 else None), "st": -st})
    return rng.choice(opts)


def conn_of_width(rng, sigs, w, depth):
    """an SConn JSON of width `w` over the signals `sigs` = [(name, width)]"""
    r = rng.random()
    exact = [s for s in sigs if s[1] == w]
    wider = [s for s in sigs if s[1] > w]
    if depth <= 0 or r < 0.25:
        if exact and (not wider or rng.random() < 0.6):
            n, sw = rng.choice(exact)
            return {"k": "sig", "n": n, "w": sw}
        if wider:
            n, sw = rng.choice(wider)
            a = rng.randint(0, sw - w)
            idx = {"i": rng.choice([a, a - sw])} if w == 1 and rng.random() < 0.5 else {"s": a, "e": a + w, "st": None}
            return {"k": "slice", "p": {"k": "sig", "n": n, "w": sw}, "i": idx}
        # only narrower signals: concatenate
        r = 0.5
    if r < 0.6:
        cuts, left = [], w
        while left > 0:
            k = rng.randint(1, left)
            cuts.append(k)
            left -= k
        if len(cuts) == 1 and w > 1 and (rng.random() < 0.7 or not (exact or wider)):
            cuts = [w - 1, 1]
        return {"k": "concat", "ps": [conn_of_width(rng, sigs, k, depth - 1) for k in cuts]}
    # a slice of something wider
    pw = w + rng.randint(0, 3)
    parent = conn_of_width(rng, sigs, pw, depth - 1)
    idx = rand_idx_exact(rng, pw, w)
    return {"k": "slice", "p": parent, "i": idx}


def gen_case(rng, k, arrays=False):
    nsig = rng.randint(2, 5)
    sigs = [(f"s{i}", rng.randint(1, 6)) for i in range(nsig)]
    ports = [(f"p{i}", rng.randint(1, 4), rng.choice(list(DIRS))) for i in range(rng.randint(0, 3))]
    allsigs = sigs + [(n, w) for n, w, _ in ports]
    targets = []
    for t in range(rng.randint(1, 3)):
        kind = rng.choice(["ext", "ext", "mod"])
        tp = [(f"{'abcd'[j]}", rng.randint(1, 4)) for j in range(rng.randint(1, 3))]
        targets.append({"kind": kind, "name": f"{'E' if kind == 'ext' else 'Child'}{k}_{t}", "ports": tp})
    insts = []
    for i in range(rng.randint(1, 4)):
        t = rng.randrange(len(targets))
        inst = {"n": f"i{i}", "t": t}
        if arrays and rng.random() < 0.3:
            # an instance array: every port gets a connection as wide as the port (all elements the same) or n times as wide (element k its k-th w bits)
            inst["array"] = rng.choice([1, 2, 2, 3])
        mult = lambda: (inst["array"] if "array" in inst and rng.random() < 0.6 else 1)
        conns = [[pn, conn_of_width(rng, allsigs, pw * mult(), rng.choice([0, 1, 2, 2, 3]))] for pn, pw in targets[t]["ports"]]
        rng.shuffle(conns)
        inst["conns"] = conns
        insts.append(inst)
    case = {"name": f"MP{k}", "signals": sigs, "ports": ports, "targets": targets, "insts": insts, "fault": None}
    if rng.random() < 0.35:
        i = rng.choice(insts)
        tp = dict(targets[i["t"]]["ports"])
        fault = rng.choice(["width", "missing", "extra", "index", "foreign"])
        c = rng.choice(i["conns"])
        if fault == "width":
            w2 = tp[c[0]] + rng.choice([-1, 1])
            if w2 < 1:
                w2 = tp[c[0]] + 1
            c[1] = conn_of_width(rng, allsigs + [("wide", 9)], w2, rng.choice([0, 1, 2]))
            case["signals"] = sigs + [("wide", 9)]
        elif fault == "missing":
            i["conns"].remove(c)
        elif fault == "extra":
            i["conns"].append(["zz", conn_of_width(rng, allsigs, 1, 0)])
        elif fault == "index":
            n, sw = rng.choice(allsigs)
            bad = rng.choice([{"i": sw}, {"i": -sw - 1}, {"s": sw, "e": sw + tp[c[0]], "st": None}, {"s": 1, "e": 1, "st": None}, {"s": 0, "e": tp[c[0]], "st": 0}])
            c[1] = {"k": "slice", "p": {"k": "sig", "n": n, "w": sw}, "i": bad}
        else:
            c[1] = {"k": "sig", "n": "@foreign", "w": tp[c[0]]}
        case["fault"] = fault
    return case


# ------------------------------------------------------------------ implementation

def idx_py(j):
    return j["i"] if "i" in j else slice(j["s"], j["e"], j["st"])


def impl(case):
    other = h.Module(name="Other")
    targets = []
    for t in case["targets"]:
        if t["kind"] == "ext":
            targets.append(h.ExternalModule(name=t["name"], domain="d", port_list=[h.Port(name=n, width=w) for n, w in t["ports"]], paramtype=dict)({}))
        elif "body" in t:
            # a child with a body of its own: signals, and instances of external modules wired with nested expressions over signals and ports
            b = t["body"]
            c = h.Module(name=t["name"])
            for n, w in t["ports"]:
                c.add(h.Port(name=n, width=w))
            for n, w in b["signals"]:
                c.add(h.Signal(name=n, width=w))
            exts = [h.ExternalModule(name=x["name"], domain="d", port_list=[h.Port(name=n, width=w) for n, w in x["ports"]], paramtype=dict)({}) for x in b["targets"]]

            def mkc(e, c=c):
                if e["k"] == "sig":
                    return c.get(e["n"])
                if e["k"] == "slice":
                    return mkc(e["p"])[idx_py(e["i"])]
                return h.Concat(*[mkc(p) for p in e["ps"]])

            try:
                for i in b["insts"]:
                    c.add(exts[i["t"]](**{pn: mkc(cc) for pn, cc in i["conns"]}), name=i["n"])
            except Exception as ex:  # noqa
                return {"reject": "build: " + common.errstr(ex)}
            targets.append(c)
        else:
            c = h.Module(name=t["name"])
            for n, w in t["ports"]:
                c.add(h.Port(name=n, width=w))
            first = c.ports[t["ports"][0][0]]
            c.r = h.R(r=1)(p=first[0], n=first[-1])
            targets.append(c)
    m = h.Module(name=case["name"])
    for n, w in case["signals"]:
        m.add(h.Signal(name=n, width=w))
    for n, w, d in case["ports"]:
        m.add(DIRS[d](name=n, width=w))

    def mk(e):
        if e["k"] == "sig":
            if e["n"] == "@foreign":
                return other.add(h.Signal(name="s0", width=e["w"]))  # called like a signal of this module, owned by another
            return m.get(e["n"])
        if e["k"] == "slice":
            return mk(e["p"])[idx_py(e["i"])]
        return h.Concat(*[mk(p) for p in e["ps"]])

    try:
        for i in case["insts"]:
            one = targets[i["t"]](**{pn: mk(c) for pn, c in i["conns"]})
            m.add((i["array"] * one) if "array" in i else one, name=i["n"])
    except Exception as ex:  # noqa
        return {"reject": "build: " + common.errstr(ex)}
    try:
        pkg = h.to_proto(m)
    except Exception as ex:  # noqa
        return {"reject": common.errstr(ex)}
    pm = observe.find_module(pkg, case["name"])
    ws = observe.module_widths(pm)
    pj = observe.pkg_json(pkg)
    mj = next(x for x in pj["modules"] if x["name"] == pm.name)
    rd = lambda q: [[i.name, [[c.portname, [[n, b] for n, b in observe.target_bits(c.target, observe.module_widths(q))]] for c in i.connections]] for i in q.instances]
    return {"module": mj, "reads": rd(pm),
            # the whole package: every module by its short name, in package order
            "package": [{"name": q.name.split(".")[-1], "module": next(x for x in pj["modules"] if x["name"] == q.name), "reads": rd(q)} for q in pkg.modules],
            "ext_names": [[e["domain"], e["name"]] for e in pj["ext_modules"]]}


def line(case):
    refs = [({"ext": ["d", t["name"]]} if t["kind"] == "ext" else {"local": t["name"]}) for t in case["targets"]]
    c11 = __import__("props.c11", fromlist=["x"])
    return {"prop": "MP", "op": "pipeline", "ports_first": c11.ports_first(),
            "module": {"name": case["name"], "signals": [[n, w] for n, w in case["signals"]], "ports": [[n, w, d] for n, w, d in case["ports"]],
                       "instances": [{"n": i["n"], "ref": refs[i["t"]], "conns": i["conns"]} for i in case["insts"] if "array" not in i],
                       "arrays": [{"n": i["n"], "ref": refs[i["t"]], "size": i["array"], "conns": i["conns"]} for i in case["insts"] if "array" in i]},
            "ctx": [[r, [[n, w] for n, w in t["ports"]]] for r, t in zip(refs, case["targets"])]}


def child_source(t):
    """the child module `impl` builds for a target of kind `mod`, as the model's source module"""
    if "body" in t:
        b = t["body"]
        return {"name": t["name"], "signals": [[n, w] for n, w in b["signals"]], "ports": [[n, w, "NONE"] for n, w in t["ports"]],
                "instances": [{"n": i["n"], "ref": {"ext": ["d", b["targets"][i["t"]]["name"]]}, "conns": i["conns"]} for i in b["insts"]]}
    first = t["ports"][0]
    sig = {"k": "sig", "n": first[0], "w": first[1]}
    return {"name": t["name"], "signals": [], "ports": [[n, w, "NONE"] for n, w in t["ports"]],
            "instances": [{"n": "r", "ref": {"ext": ["vlsir.primitives", "resistor"]},
                           "conns": [["p", {"k": "slice", "p": sig, "i": {"i": 0}}], ["n", {"k": "slice", "p": sig, "i": {"i": -1}}]]}]}


def design_line(case):
    """the whole design for `pipelineDesign`: the child modules the top instantiates (in the order the exporter meets them), then the top"""
    top = line(case)
    used = []
    for i in case["insts"]:
        if i["t"] not in used:
            used.append(i["t"])
    kids = [child_source(case["targets"][t]) for t in used if case["targets"][t]["kind"] == "mod"]
    exts = [{"domain": "d", "name": case["targets"][t]["name"], "signals": [[n, w] for n, w in case["targets"][t]["ports"]],
             "ports": [[n, "NONE"] for n, _ in case["targets"][t]["ports"]]} for t in used if case["targets"][t]["kind"] == "ext"]
    for t in used:
        for x in case["targets"][t].get("body", {}).get("targets", []):
            exts.append({"domain": "d", "name": x["name"], "signals": [[n, w] for n, w in x["ports"]], "ports": [[n, "NONE"] for n, _ in x["ports"]]})
    return {"prop": "MP", "op": "design", "ports_first": top["ports_first"], "modules": kids + [top["module"]], "exts": exts}


def judge_design(case, im, mo):
    if mo is None or "protocol_error" in mo:
        yield ("corr", f"the model could not read the design: {mo}")
        return
    if ("ok" in mo) != ("package" in im):
        if "ok" in mo:
            yield ("corr", f"the implementation refuses a design the composed model passes: {im.get('reject', '')[:160]}")
        elif mo["error"] != "non-unit step":   # (the exporter's refusal of a stepped slice is permitted, not demanded)
            yield ("pred", {"why": f"a design the composed pass list refuses ({mo['error']}, planted fault: {case['fault']}) was exported"})
        return
    if "ok" not in mo:
        return
    if mo["problems"]:
        yield ("oracle", {"why": "design_pipeline_wf says this list is empty", "problems": mo["problems"][:5]})
    # (modules are matched by name: in which order the exporter writes them — beyond "after what they instantiate", which WFpkg judges — is its own business)
    if sorted(m["name"] for m in mo["ok"]) != sorted(q["name"] for q in im["package"]):
        yield ("corr", f"modules of the package: {[q['name'] for q in im['package']]} vs model {[m['name'] for m in mo['ok']]}")
        return
    byname = {q["name"]: q for q in im["package"]}
    for b, q in ((b, byname[b["name"]]) for b in mo["ok"]):
        a = q["module"]
        if sorted((sg["n"], sg["w"]) for sg in a["signals"]) != sorted((sg["n"], sg["w"]) for sg in b["signals"]) or \
                [(p["n"], p["dir"]) for p in a["ports"]] != [(p["n"], p["dir"]) for p in b["ports"]]:
            yield ("corr", f"module {q['name']}: signal / port lists {a['signals']} {a['ports']} vs model {b['signals']} {b['ports']}")
        if sorted(i["n"] for i in a["instances"]) != sorted(i["n"] for i in b["instances"]):
            yield ("pred", {"why": f"module {q['name']} does not have the designer's instances"})
            continue
        bmod = {i["n"]: i for i in b["instances"]}
        for (iname, reads) in q["reads"]:
            ib = bmod[iname]
            if reads != [[pn, bits] for pn, bits in ib["reads"]]:
                yield ("pred", {"why": f"{q['name']}.{iname}: the bits read on its ports are not the bits the designer's connections denote", "got": reads, "want": ib["reads"]})
                break


SD = common.Stream("design_pipe", impl, design_line, judge_design, chunk=16)

STATS = {"accepted": 0, "refused": 0, "same_targets": 0, "other_targets_same_bits": 0, "faults": {}}


def judge(case, im, mo):
    if mo is None or "protocol_error" in mo:
        yield ("corr", f"the model could not read the case: {mo}")
        return
    model_ok, impl_ok = "ok" in mo, "module" in im
    if case["fault"]:
        STATS["faults"][case["fault"]] = STATS["faults"].get(case["fault"], 0) + 1
    if not impl_ok:
        STATS["refused"] += 1
        if model_ok:
            stepped = "non-unit step" in im["reject"]
            yield ("corr", f"the implementation refuses a module the composed model passes ({'a stepped slice the model resolves' if stepped else im['reject'][:160]})")
        return
    STATS["accepted"] += 1
    if not model_ok and mo["error"] == "non-unit step":
        # the exporter's own refusal (a stepped slice straight from a Signal: VLSIR slices have no step) is permitted, not demanded (DESIGN 6.0):
        # a code that exports such a slice bit by bit is as right; what it exports is judged by C03 / C01 against Python's selection
        STATS["stepped_exported_beyond_the_model"] = STATS.get("stepped_exported_beyond_the_model", 0) + 1
        return
    if not model_ok:
        # the model's refusals are the faults C02 names (module_faults_rejected): a package for such a module is a violation
        yield ("pred", {"why": f"a module the composed pass list refuses ({mo['error']}, planted fault: {case['fault']}) was exported"}, None)
        return
    a, b = im["module"], mo["ok"]
    key = lambda sg: (sg["n"], sg["w"])
    if sorted(map(key, a["signals"])) != sorted(map(key, b["signals"])):
        yield ("corr", f"signals declared: {a['signals']} vs model {b['signals']}")
    if [(p["n"], p["dir"]) for p in a["ports"]] != [(p["n"], p["dir"]) for p in b["ports"]]:
        yield ("corr", f"port list: {a['ports']} vs model {b['ports']}")
    # (which instance stands where in the module is no business of the property: instances are matched by name — an exporter or an
    # ArrayFlattener that takes them in another order is as right; found by the behaviour-preserving change C01-b2-3)
    if sorted(i["n"] for i in a["instances"]) != sorted(i["n"] for i in b["instances"]):
        yield ("pred", {"why": "the exported module does not have the designer's instances", "got": [i["n"] for i in a["instances"]], "want": [i["n"] for i in b["instances"]]})
        return
    bmod = {i["n"]: i for i in b["instances"]}
    amod = {i["n"]: i for i in a["instances"]}
    for (iname, reads) in im["reads"]:
        ib, ia = bmod[iname], amod[iname]
        want = [[pn, bits] for pn, bits in ib["reads"]]
        if reads != want:
            yield ("pred", {"why": f"instance {iname}: the bits read on its ports are not the bits the designer's connections denote", "got": reads, "want": want})
            return
        if ia["conns"] == ib["conns"]:
            STATS["same_targets"] += 1
        else:
            STATS["other_targets_same_bits"] += 1


S = common.Stream("module_pipe", impl, line, judge, chunk=16, nontrivial=lambda c: any(cc[1]["k"] != "sig" for i in c["insts"] for cc in i["conns"]))


def gen_hier(rng, k):
    """a top module (as in `gen_case`) whose child modules have bodies of their own: signals and instances of external modules wired with
    nested expressions over the child's signals and ports — every module of the package is then compared with the model's (`pipelineDesign`)"""
    case = gen_case(rng, k)
    for j, t in enumerate(case["targets"]):
        if t["kind"] != "mod":
            continue
        sigs = [(f"c{i}", rng.randint(1, 5)) for i in range(rng.randint(1, 3))]
        allsigs = sigs + list(t["ports"])
        xs = [{"name": f"X{k}_{j}_{q}", "ports": [("abcd"[r], rng.randint(1, 4)) for r in range(rng.randint(1, 3))]} for q in range(rng.randint(1, 2))]
        insts = []
        for q in range(rng.randint(1, 3)):
            ti = rng.randrange(len(xs))
            conns = [[pn, conn_of_width(rng, allsigs, pw, rng.choice([0, 1, 2, 3]))] for pn, pw in xs[ti]["ports"]]
            insts.append({"n": f"u{q}", "t": ti, "conns": conns})
        t["body"] = {"signals": sigs, "targets": xs, "insts": insts}
        if rng.random() < 0.12:
            # a fault inside the child: the whole design is refused
            c = rng.choice(rng.choice(insts)["conns"])
            c[1] = {"k": "slice", "p": {"k": "sig", "n": sigs[0][0], "w": sigs[0][1]}, "i": {"i": sigs[0][1]}}
            case["fault"] = case["fault"] or "index-in-child"
    return case


SH = common.Stream("hier_pipe", impl, design_line, judge_design, chunk=16, nontrivial=lambda c: any("body" in t for t in c["targets"]))

SA = common.Stream("array_pipe", impl, line, judge, chunk=16, nontrivial=lambda c: any("array" in i for i in c["insts"]))


def corpus():
    """fixed cases: every integer index around both ends of a four-bit bus on a one-bit port (the first index past the top, the first
    below the bottom, twice the width below — seeds C06-r2-2, C06-r3-3, C06-r4-2), and the in-range ones next to them"""
    out = []
    for k, i in enumerate([4, -5, -8, 5, 3, -4, 0, -1]):
        out.append({"name": f"MPC{k}", "signals": [("bus", 4), ("g", 1)], "ports": [], "targets": [{"kind": "ext", "name": f"EC{k}", "ports": [("p", 1), ("n", 1)]}],
                    "insts": [{"n": "i0", "t": 0, "conns": [["p", {"k": "slice", "p": {"k": "sig", "n": "bus", "w": 4}, "i": {"i": i}}], ["n", {"k": "sig", "n": "g", "w": 1}]]}],
                    "fault": "index" if i in (4, -5, -8, 5) else None})
    # … and through one level of nesting: the index past the top of a three-bit run of the bus, of a concatenation
    for k, parent in enumerate([{"k": "slice", "p": {"k": "sig", "n": "bus", "w": 4}, "i": {"s": 0, "e": 3, "st": None}},
                                {"k": "concat", "ps": [{"k": "sig", "n": "g", "w": 1}, {"k": "slice", "p": {"k": "sig", "n": "bus", "w": 4}, "i": {"s": 1, "e": 3, "st": None}}]}]):
        for i in (3, -4):
            out.append({"name": f"MPN{k}{i + 4}", "signals": [("bus", 4), ("g", 1)], "ports": [], "targets": [{"kind": "ext", "name": f"EN{k}{i + 4}", "ports": [("p", 1), ("n", 1)]}],
                        "insts": [{"n": "i0", "t": 0, "conns": [["p", {"k": "slice", "p": parent, "i": {"i": i}}], ["n", {"k": "sig", "n": "g", "w": 1}]]}],
                        "fault": "index"})
    return out


def run(ctx, n=None):
    # a random source of its own (derived from VERIF_SEED): the draws of the property's other streams do not move when these grow
    import random as _random
    rng = _random.Random(ctx.seed * 104729 + 7)
    n = n or (250 if ctx.quick else 5000)
    cases = corpus() + [gen_case(rng, k) for k in range(n)]
    S.run(ctx, cases)
    # the same designs as a whole (`pipelineDesign`: children first, each judged against what the package holds so far; design_pipeline_wf)
    SD.run(ctx, cases[: max(60, n // 3)])
    # … with instance arrays among the instances (`pipelineA`: ArrayFlattener inside the composition; array_elements_read_their_bits)
    SA.run(ctx, [gen_case(rng, 100000 + k, arrays=True) for k in range(max(80, n // 2))])
    # … and designs whose children have bodies of their own (a generator of its own random stream: the draws of the streams above and
    # after do not move when this one grows)
    import random as _random
    rng2 = _random.Random(ctx.seed * 7919 + 13)
    SH.run(ctx, [gen_hier(rng2, 200000 + k) for k in range(max(60, n // 3))])
    ctx.rep.extra["module_pipe"] = dict(STATS)
