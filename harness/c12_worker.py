"""Runs in a fresh interpreter (own PYTHONHASHSEED): builds every case, exports and netlists it, prints digests."""
import hashlib
import io
import json
import random
import sys
import os

sys.path.insert(0, os.path.dirname(os.path.abspath(__file__)))
import common
import build

h = common.repo_env()


def main():
    cases = json.load(open(sys.argv[1]))
    noise = random.Random(int(sys.argv[2]))
    out = []
    keep = []
    for c in cases:
        # unrelated allocation and elaboration first
        keep.append([object() for _ in range(noise.randint(0, 2000))])
        junk = h.Module(name=f"Junk{noise.randint(0, 10**6)}")
        for k in range(noise.randint(0, 6)):
            junk.add(h.Signal(name=f"j{k}", width=noise.randint(1, 4)))
        if noise.random() < 0.5:
            h.elaborate(junk)
        res = {}
        try:
            b = build.build(c["design"], c.get("style", "proc"))
            pkg = h.to_proto(b.top)
            res["pkg"] = hashlib.md5(pkg.SerializeToString(deterministic=True)).hexdigest()
            for fmt in ("spice", "spectre", "verilog"):
                try:
                    s = io.StringIO()
                    h.netlist(pkg, s, fmt=fmt)
                    res[fmt] = hashlib.md5(s.getvalue().encode()).hexdigest()
                except Exception as ex:  # noqa
                    res[fmt] = "raise:" + type(ex).__name__
        except Exception as ex:  # noqa
            res["error"] = type(ex).__name__ + ":" + str(ex)[-80:]
        out.append(res)
    print(json.dumps(out))


if __name__ == "__main__":
    main()
