"""Runs in a fresh interpreter (own PYTHONHASHSEED): builds every case, exports and netlists it, prints digests."""
import hashlib
import io
import json
import random
import sys
import os

sys.path.insert(0, os.path.dirname(os.path.abspath(__file__)))
import common
import build

h = common.repo_env()


def programs():
    """Design programs beyond the IR generator: generator parameter classes of every non-scalar kind (their modules get hashed
    names), the built-in generators, and several tops exported together."""
    import enum
    from typing import Optional, Tuple, List
    from hdl21.generators import Series, MosStack, Wrapper
    from hdl21.prefix import m as MILLI, K

    class Flavor(enum.Enum):
        A = "a"
        B = "b"

    @h.paramclass
    class Sub:
        w = h.Param(dtype=int, desc="w", default=2)
        tag = h.Param(dtype=str, desc="tag", default="t")

    @h.paramclass
    class P:
        unit = h.Param(dtype=h.Instantiable, desc="unit")
        flavor = h.Param(dtype=Flavor, desc="flavor", default=Flavor.A)
        sub = h.Param(dtype=Sub, desc="sub", default_factory=Sub)
        dims = h.Param(dtype=Tuple[int, int], desc="dims", default=(1, 2))
        names = h.Param(dtype=Tuple[str, ...], desc="names", default=("x", "y"))
        val = h.Param(dtype=Optional[h.Prefixed], desc="val", default=None)

    @h.paramclass
    class EP:
        a = h.Param(dtype=int, desc="a", default=1)
        b = h.Param(dtype=str, desc="b", default="two")

    E = h.ExternalModule(name="Ext12", port_list=[h.Port(name="p"), h.Port(name="n")], paramtype=EP)

    @h.module
    class Cell:
        p, n = h.Ports(2)
        r = h.R(r=1 * K)(p=p, n=n)

    @h.generator
    def G(params: P) -> h.Module:
        mod = h.Module()
        mod.p, mod.n = h.Port(), h.Port()
        for k, nm in enumerate(params.names):
            mod.add(params.unit(p=mod.p, n=mod.n), name=f"u_{nm}{k}")
        return mod

    units = {
        "mos_n": lambda: h.Mos(tp=h.MosType.NMOS),
        "mos_p": lambda: h.Mos(tp=h.MosType.PMOS, vth=h.MosVth.LOW),
        "r_lit": lambda: h.R(r=h.Literal("rval")),
        "r_num": lambda: h.R(r=3 * K),
        "c_pre": lambda: h.C(c=5 * MILLI),
        "ext": lambda: E(EP(a=3)),
        "cell": lambda: Cell,
    }
    progs = {}
    for un, u in units.items():
        if not un.startswith("mos"):
            progs[f"G_{un}"] = lambda u=u: G(unit=u(), flavor=Flavor.B, val=2 * MILLI)
            progs[f"Series_{un}"] = lambda u=u: Series(unit=u(), nser=3, conns=("p", "n"))
            progs[f"Wrapper_{un}"] = lambda u=u: Wrapper(u())
        else:
            progs[f"MosStack_{un}"] = lambda u=u: MosStack(unit=u(), nser=3)
            progs[f"Series_{un}"] = lambda u=u: Series(unit=u(), nser=2, conns=("d", "s"))
    # scalar-only parameter classes whose readable name is too long (hashed names), with string values
    @h.paramclass
    class LongP:
        label = h.Param(dtype=str, desc="label", default="x")
        other = h.Param(dtype=str, desc="other", default="")
        n = h.Param(dtype=int, desc="n", default=1)
        f = h.Param(dtype=float, desc="f", default=0.5)

    @h.generator
    def GL(params: LongP) -> h.Module:
        mod = h.Module()
        mod.p = h.Port(width=params.n)
        return mod

    def long_tops():
        tops = [GL(label="a" * 130), GL(label="b" * 60, other="c d=" * 20, n=3), GL(label="short"), GL(label="é" * 127, f=1e-9), GL(other="q" * 200, n=2)]
        top = h.Module(name="LongTop")
        for k, t in enumerate(tops):
            top.add(t(p=top.add(h.Signal(width=t.p.width), name=f"s{k}")), name=f"i{k}")
        return top

    progs["long_scalar_names"] = long_tops

    # set-valued parameters (sets of strings iterate in an order that depends on the hash seed)
    from typing import FrozenSet

    @h.paramclass
    class SetP:
        tags = h.Param(dtype=FrozenSet[str], desc="tags", default=frozenset())
        nums = h.Param(dtype=FrozenSet[int], desc="nums", default=frozenset())

    @h.generator
    def GSet(params: SetP) -> h.Module:
        mod = h.Module()
        mod.p = h.Port(width=1 + len(params.tags))
        return mod

    def set_tops():
        tops = [GSet(tags=frozenset(["alpha", "beta", "gamma", "delta", "epsilon"])), GSet(tags=frozenset(["x", "y"]), nums=frozenset([3, 1, 2])), GSet()]
        top = h.Module(name="SetTop")
        for k, t in enumerate(tops):
            top.add(t(p=top.add(h.Signal(width=t.p.width), name=f"s{k}")), name=f"i{k}")
        return top

    progs["set_valued_params"] = set_tops

    # sets of sets (`<` on sets is the subset relation: sorting them by themselves leaves them in hash order)
    @h.paramclass
    class NSetP:
        groups = h.Param(dtype=FrozenSet[FrozenSet[str]], desc="groups", default=frozenset())

    @h.generator
    def GNSet(params: NSetP) -> h.Module:
        mod = h.Module()
        mod.p = h.Port(width=1 + len(params.groups))
        return mod

    def nset_tops():
        tops = [GNSet(groups=frozenset([frozenset(["alpha", "beta"]), frozenset(["gamma"]), frozenset(["delta", "epsilon", "zeta"]), frozenset(["eta", "theta"])])),
                GNSet(groups=frozenset([frozenset(["x"]), frozenset(["y", "z"])]))]
        top = h.Module(name="NSetTop")
        for k, t in enumerate(tops):
            top.add(t(p=top.add(h.Signal(width=t.p.width), name=f"s{k}")), name=f"i{k}")
        return top

    progs["nested_set_params"] = nset_tops

    # the same numbers written differently, exported earlier in the process by *another* design — in every second interpreter only:
    # what a design exports as does not depend on what equal-valued numbers other designs exported before
    def after_other_spelling():
        from decimal import Decimal
        from hdl21.prefix import UNIT, µ

        def design(vals, name):
            top = h.Module(name=name)
            top.p, top.n = h.Signals(2)
            for k, v in enumerate(vals):
                top.add(h.R(r=v)(p=top.p, n=top.n), name=f"r{k}")
            top.add(h.Vdc(dc=vals[0], ac=vals[1])(p=top.p, n=top.n), name="v")
            return top

        if int(os.environ.get("PYTHONHASHSEED", "0") or 0) % 2:
            h.to_proto(design([1500 * UNIT, h.Prefixed(number=Decimal("2.50"), prefix=MILLI), 1000 * µ, h.Prefixed(number=Decimal("1E+3"), prefix=UNIT)], "Earlier"))
        return design([h.Prefixed(number=Decimal("1.5"), prefix=K), h.Prefixed(number=Decimal("2.5"), prefix=MILLI), 1 * MILLI, 1 * K], "Later")

    progs["after_other_spelling"] = after_other_spelling

    # generators with caching disabled: a library cell that earlier, unrelated designs of the same process have used too
    @h.paramclass
    class BufP:
        stages = h.Param(dtype=int, desc="stages", default=2)

    def buf_body(params: BufP) -> h.Module:
        mod = h.Module()
        mod.a, mod.z = h.Input(), h.Output()
        return mod

    buf_body.__name__ = "Buf"
    Buf = h.generator(enable_cache=False)(buf_body)

    def uncached_top():
        top = h.Module(name="UncachedTop")
        top.a, top.z = h.Signal(), h.Signal()
        top.b = Buf(stages=2)(a=top.a, z=top.z)
        return top

    progs["uncached_generator"] = uncached_top
    progs["uncached_generator_direct"] = lambda: Buf(stages=3)
    progs["tops_list"] = lambda: [G(unit=Cell), Series(unit=h.R(r=1), nser=2, conns=("p", "n")), Cell, G(unit=h.C(c=1), names=("q",))]
    progs["tops_list_rev"] = lambda: [Cell, Series(unit=h.R(r=2), nser=2, conns=("p", "n")), G(unit=Cell, dims=(3, 4))]
    return progs


def main():
    cases = json.load(open(sys.argv[1]))
    noise = random.Random(int(sys.argv[2]))
    out = []
    keep = []
    for c in cases:
        # unrelated allocation and elaboration first
        keep.append([object() for _ in range(noise.randint(0, 2000))])
        junk = h.Module(name=f"Junk{noise.randint(0, 10**6)}")
        for k in range(noise.randint(0, 6)):
            junk.add(h.Signal(name=f"j{k}", width=noise.randint(1, 4)))
        if noise.random() < 0.5:
            h.elaborate(junk)
        # ... and earlier designs of the same process: some other case (or this very one), built from scratch and exported, a few times
        for _ in range(noise.choice([0, 0, 1, 1, 2, 3])):
            run_case(cases[noise.randrange(len(cases))] if noise.random() < 0.5 else c)
        out.append(run_case(c))
    print(json.dumps(out))


def run_case(c):
    if True:
        res = {}
        try:
            if "program" in c:
                pkg = h.to_proto(programs()[c["program"]]())
            else:
                b = build.build(c["design"], c.get("style", "proc"))
                pkg = h.to_proto(b.top)
                # … and every module of the design as a list of tops (a separate export of the same, already elaborated, objects)
                try:
                    lp = h.to_proto(list(b.modules.values()))
                    res["pkg_list"] = hashlib.md5(lp.SerializeToString(deterministic=True)).hexdigest()
                except Exception as ex:  # noqa
                    res["pkg_list"] = "raise:" + type(ex).__name__
                # … and netlists written straight from the design objects (the top; the list of all modules, and its reverse), not from a package
                for label, src in (("top", b.top), ("list", list(b.modules.values())), ("rlist", list(b.modules.values())[::-1])):
                    for fmt in ("spice", "spectre"):
                        try:
                            s = io.StringIO()
                            h.netlist(src, s, fmt=fmt)
                            res[f"direct_{label}_{fmt}"] = hashlib.md5(s.getvalue().encode()).hexdigest()
                        except Exception as ex:  # noqa
                            res[f"direct_{label}_{fmt}"] = "raise:" + type(ex).__name__
            res["pkg"] = hashlib.md5(pkg.SerializeToString(deterministic=True)).hexdigest()
            for fmt in ("spice", "spectre", "verilog"):
                try:
                    s = io.StringIO()
                    h.netlist(pkg, s, fmt=fmt)
                    res[fmt] = hashlib.md5(s.getvalue().encode()).hexdigest()
                except Exception as ex:  # noqa
                    res[fmt] = "raise:" + type(ex).__name__
        except Exception as ex:  # noqa
            res["error"] = type(ex).__name__ + ":" + str(ex)[-80:]
        return res


if __name__ == "__main__":
    main()
