"""(G) translator: finite tables of /repo -> lean/Hdl21Model/Generated/*.lean (rewritten on every run).
Each generator is registered in GENERATORS; a file is only rewritten when its content changes,
so that `lake build` stays a no-op on an unchanged tree."""
import os, sys
sys.path.insert(0, os.path.dirname(os.path.abspath(__file__)))
import common

GENERATORS = []


def write_if_changed(path, text):
    path.parent.mkdir(parents=True, exist_ok=True)
    if not path.exists() or path.read_text() != text:
        path.write_text(text)


def main():
    for g in GENERATORS:
        name, text = g()
        write_if_changed(common.LEAN / "Hdl21Model" / "Generated" / name, text)


if __name__ == "__main__":
    main()
