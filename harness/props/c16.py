"""C16 — flatten() preserves leaf-level connectivity.

Generated hierarchies (depth up to 5, shared sub-modules, scalar and bus nets, internal nets at every level, ports passed through
several levels, Primitive and ExternalModule leaves at every level, some with port references / no-connects that elaborate to
whole signals), and the same with designer names containing ':' chosen to collide with the path-joined names flatten invents.

  (C) the flat module of the implementation — port list, instance names / targets / connections, signal names — equals the
      flat module of the Lean model (Flatten.lean); the model's `collision` is the implementation's refusal;
  (P) on what flatten returned: only leaf instances, one per leaf device of Sem.src(D); the top's ports with their widths and
      directions; Sem.pkg(to_proto(flat)) = Sem.src(D) (leaf terminals and port bits connected iff connected in D) and the same
      devices with the same parameters; a module returned although two different nets / leaves share a joined name is
      "flattened wrongly".  Designs with slices / concatenations must be refused or flattened correctly.
"""
import copy
import json
import random

import common
import designs
import build
import observe
import gen_design

h = common.repo_env()

ASSUMPTIONS = [
    "flatten may refuse (raise) any design: only what it returns is judged; refusing a design of the supported fragment "
    "(whole-signal connections, Primitive / ExternalModule leaves) whose joined names are distinct is reported as broken correspondence",
    "device paths of the flat module are read back by replacing ':' with '/' (only used when no designer name contains ':')",
]
TRUSTED = ["harness/build.py", "observe.pkg_json"]


# ----------------------------------------------------------------------------------------------- generator

# a leaf without terminals (a fill / marker cell): still one instance per occurrence in the flat module
FILL = {"k": "leaf", "kind": ".Fill", "ports": [], "params": [], "py": {"k": "ext", "name": "Fill"}}


def gen_hier(rng, opts=None):
    opts = opts or {}
    nmods = rng.randint(2, 5)
    mods = []
    for k in range(nmods):
        name = f"M{k}" if k < nmods - 1 else "Top"
        sigs, insts, cnt = [], [], [0]

        def fresh(pre):
            cnt[0] += 1
            return f"{pre}{cnt[0]}"

        # (a sub-module may have no ports at all: a self-contained block with internal nets only)
        for _ in range(rng.randint(1, 3) if (k == nmods - 1 or rng.random() < 0.8) else 0):
            sigs.append({"n": fresh("p"), "w": rng.choice([1, 1, 1, 2, 3]), "port": True, "dir": rng.choice(["input", "output", "inout", "none"])})
        for _ in range(rng.randint(0, 2)):
            sigs.append({"n": fresh("s"), "w": rng.choice([1, 1, 2, 3]), "port": False, "dir": "none"})

        def sig_of_width(w):
            c = [s for s in sigs if s["w"] == w]
            if c and rng.random() < 0.75:
                return rng.choice(c)["n"]
            s = {"n": fresh("s"), "w": w, "port": False, "dir": "none"}
            sigs.append(s)
            return s["n"]

        # (a sub-module may also have no instances at all: a stub with ports only; in some designs every sub-module is one)
        stub = k < nmods - 1 and (opts.get("stubs") == "all" or (opts.get("stubs") and rng.random() < 0.35))
        for _ in range(0 if stub else rng.randint(1, 4)):
            # children: earlier modules (deep chains more likely) or leaves
            if mods and rng.random() < (0.75 if k == nmods - 1 else 0.55):
                child = rng.choice(mods[-2:]) if rng.random() < 0.7 else rng.choice(mods)
                of = {"k": "module", "name": child["name"]}
                ports = [(s["n"], s["w"]) for s in child["sigs"] if s["port"]]
            else:
                leaf = rng.choice(gen_design.LEAVES + ([FILL] if opts.get("fill") else []))
                of = copy.deepcopy(leaf)
                ports = [(p["n"], p["w"]) for p in leaf["ports"]]
            iname = fresh("i")
            conns = []
            for pn, pw in ports:
                r = rng.random()
                if opts.get("extras") and r < 0.08 and insts:
                    # port reference to an earlier instance's port of the same width (elaborates to a whole signal)
                    cands = [(i["n"], p) for i in insts for p, c in i["conns"] if c["k"] == "sig" and next(s["w"] for s in sigs if s["n"] == c["n"]) == pw]
                    if cands:
                        ci, cp = rng.choice(cands)
                        # connect to the same signal that port has (a reference to an explicitly connected port resolves to its signal)
                        conns.append([pn, {"k": "pref", "inst": ci, "port": cp}])
                        continue
                if opts.get("extras") and r < 0.14:
                    conns.append([pn, {"k": "noconn"}])
                    continue
                if opts.get("slices") and r < 0.5:
                    big = [s for s in sigs if s["w"] > pw]
                    same = [s for s in sigs if s["w"] == pw]
                    rr = rng.random() * (0.45 if opts["slices"] == "full" else 1.0)  # "full": nothing but full-width slices in the design
                    if opts["slices"] == "full" and not same:
                        conns.append([pn, {"k": "sig", "n": sig_of_width(pw)}])
                        continue
                    if same and rr < 0.45:
                        # a slice as wide as the signal it is taken from: forward, reversed, or written with explicit bounds
                        s = rng.choice(same)
                        idx = rng.choice([{"s": pw - 1, "e": None, "st": -1}, {"s": pw - 1, "e": None, "st": -1}, {"s": 0, "e": pw, "st": None},
                                          {"s": None, "e": None, "st": None}, {"s": -pw, "e": None, "st": 1}])
                        conns.append([pn, {"k": "slice", "p": {"k": "sig", "n": s["n"]}, "i": idx}])
                        continue
                    if same and rr < 0.6 and pw >= 2:
                        s = rng.choice(same)
                        k = rng.randint(1, pw - 1)
                        parts = [{"k": "slice", "p": {"k": "sig", "n": s["n"]}, "i": {"s": 0, "e": k, "st": None}},
                                 {"k": "slice", "p": {"k": "sig", "n": s["n"]}, "i": {"s": k, "e": pw, "st": None}}]
                        if rng.random() < 0.5:
                            parts.reverse()
                        conns.append([pn, {"k": "concat", "ps": parts}])
                        continue
                    if big:
                        s = rng.choice(big)
                        a = rng.randint(0, s["w"] - pw)
                        conns.append([pn, {"k": "slice", "p": {"k": "sig", "n": s["n"]}, "i": {"s": a, "e": a + pw, "st": None}}])
                        continue
                conns.append([pn, {"k": "sig", "n": sig_of_width(pw)}])
            insts.append({"n": iname, "of": of, "conns": conns})
        mods.append({"name": name, "sigs": sigs, "bundles": [], "insts": insts})
    return {"bundles": [], "modules": mods, "top": "Top"}


def reachable(design):
    by = {m["name"]: m for m in design["modules"]}
    seen, todo = [], [design["top"]]
    while todo:
        n = todo.pop()
        if n in seen:
            continue
        seen.append(n)
        todo += [i["of"]["name"] for i in by[n]["insts"] if i["of"]["k"] == "module"]
    return seen


def adversarial(rng, design):
    """Rename a designer signal / instance to a name flatten would invent, or split a path differently."""
    d = copy.deepcopy(design)
    by = {m["name"]: m for m in d["modules"]}
    live = [by[n] for n in reachable(d)]
    holders = [m for m in live if any(i["of"]["k"] == "module" for i in m["insts"])]
    if not holders:
        return None
    m = rng.choice(holders)
    if by[d["top"]] in holders and rng.random() < 0.6:
        m = by[d["top"]]  # names are joined from the top: a clash needs the top on one side
    inst = rng.choice([i for i in m["insts"] if i["of"]["k"] == "module"])
    child = by[inst["of"]["name"]]
    kind = rng.choice(["sig", "sig", "inst", "split", "harmless", "cross", "cross", "cross_inst"])

    def rename_sig(mod, old, new):
        for s in mod["sigs"]:
            if s["n"] == old:
                s["n"] = new
        for i in mod["insts"]:
            for pc in i["conns"]:
                if pc[1]["k"] == "sig" and pc[1]["n"] == old:
                    pc[1]["n"] = new
        for mm in d["modules"]:  # the port name changes for its instantiators
            for i in mm["insts"]:
                if i["of"]["k"] == "module" and i["of"]["name"] == mod["name"]:
                    for pc in i["conns"]:
                        if pc[0] == old:
                            pc[0] = new

    internal = [s["n"] for s in child["sigs"] if not s["port"]]
    own_internal = [s["n"] for s in m["sigs"] if not s["port"]] if m["name"] != "Top" else [s["n"] for s in m["sigs"]]
    if kind == "sig" and internal and own_internal:
        rename_sig(m, rng.choice(own_internal), f"{inst['n']}:{rng.choice(internal)}")
    elif kind == "inst" and child["insts"] and len(m["insts"]) > 1:
        other = rng.choice([i for i in m["insts"] if i is not inst])
        other["n"] = f"{inst['n']}:{rng.choice(child['insts'])['n']}"
    elif kind == "cross" and child["insts"] and own_internal:
        # a net of this module named like the joined path of a leaf (or inner instance) below `inst`
        rename_sig(m, rng.choice(own_internal), f"{inst['n']}:{rng.choice(child['insts'])['n']}")
    elif kind == "cross_inst" and internal and len(m["insts"]) > 1:
        # an instance of this module named like the joined name of an internal net below `inst`
        other = rng.choice([i for i in m["insts"] if i is not inst])
        other["n"] = f"{inst['n']}:{rng.choice(internal)}"
    elif kind == "split" and child["insts"]:
        # a/b:c  versus  a:b/c : rename an instance of the child to 'x:y', and add nothing else — collides only if 'a:x' exists
        ci = rng.choice(child["insts"])
        ci["n"] = ci["n"] + ":" + rng.choice(["r", "i1", "q"])
        if len(m["insts"]) > 1 and rng.random() < 0.7:
            other = rng.choice([i for i in m["insts"] if i is not inst])
            if other["of"]["k"] == "module":
                oc = by[other["of"]["name"]]
                head, tail = ci["n"].split(":", 1)
                if oc["insts"] and all(i["n"] != tail for i in oc["insts"]) and all(i["n"] != f"{inst['n']}:{head}" for i in m["insts"]):
                    other["n"] = f"{inst['n']}:{head}"
                    rng.choice(oc["insts"])["n"] = tail
    else:
        # a colon in a name that collides with nothing
        if own_internal:
            rename_sig(m, rng.choice(own_internal), "zz:" + rng.choice(["a", "b"]))
    return d


# ----------------------------------------------------------------------------------------------- implementation

def describe_target(of):
    import hdl21

    if isinstance(of, hdl21.ExternalModuleCall):
        dom = of.module.domain or ""
        return f"{dom}.{of.module.name}"
    if isinstance(of, hdl21.PrimitiveCall):
        return None  # compared through the package
    return f"module:{of.name}"


def impl_flatten(case):
    from hdl21.flatten import flatten

    d, style = case["design"], case.get("style", "proc")
    try:
        b = build.build(d, style)
    except Exception as ex:  # noqa
        return {"build_error": common.errstr(ex)}
    out = {}
    try:
        flat = flatten(b.top)
    except Exception as ex:  # noqa
        return {"refused": common.errstr(ex), "refused_type": type(ex).__name__}
    out["same_object"] = flat is b.top
    out["flat"] = {
        "name": flat.name,
        "ports": [{"n": p.name, "w": p.width, "dir": p.direction.name.lower()} for p in flat.ports.values()],
        "signals": sorted(flat.signals.keys()),
        "insts": [{"n": i.name, "leaf": isinstance(i.of, (h.PrimitiveCall, h.ExternalModuleCall)),
                   "conns": sorted([p, getattr(c, "name", repr(type(c)))] for p, c in i.conns.items())} for i in flat.instances.values()],
        "other_instancelike": len(flat.instarrays) + len(flat.instbundles),
    }
    try:
        pkg = h.to_proto(flat)
        pj = observe.pkg_json(pkg)
        out["pkg"] = pj
        out["top"] = next(m["name"] for m in pj["modules"] if m["name"].split(".")[-1] == flat.name)
    except Exception as ex:  # noqa
        out["export_error"] = common.errstr(ex)
    return out


def model_line(design):
    idx = {m["name"]: k for k, m in enumerate(design["modules"])}
    mods = []
    for m in design["modules"]:
        insts = []
        for i in m["insts"]:
            e = {"n": i["n"], "conns": [[p, c["n"]] for p, c in i["conns"] if c["k"] == "sig"]}
            if i["of"]["k"] == "module":
                e["mod"] = idx[i["of"]["name"]]
            else:
                e["leaf"] = i["of"]["kind"]
            insts.append(e)
        mods.append({"name": m["name"], "ports": [s["n"] for s in m["sigs"] if s["port"]], "signals": [s["n"] for s in m["sigs"] if not s["port"]], "insts": insts})
    return {"prop": "C16", "op": "flatten", "mods": mods, "top": idx[design["top"]]}


def whole_signal(design):
    return all(c["k"] == "sig" for m in design["modules"] for i in m["insts"] for _, c in i["conns"])


def has_colon(design):
    return any(":" in s["n"] for m in design["modules"] for s in m["sigs"]) or any(":" in i["n"] for m in design["modules"] for i in m["insts"])


def flat_path(term):
    """'a:b:r:p[0]' -> 'a/b/r:p[0]' (device terminals) ; top port bits unchanged"""
    if ":" not in term:
        return term
    head, port = term.rsplit(":", 1)
    return head.replace(":", "/") + ":" + port


def judge(case, im, mo, sem_src, sem_flat):
    d = case["design"]
    if "build_error" in im:
        yield ("corr", f"harness could not build: {im['build_error']}")
        return
    src_ok = "ok" in sem_src["src"]
    if not src_ok:
        return  # not a well-formed design: flatten's behaviour on it is elaboration's business (C02)
    if "refused" in im:
        if whole_signal(d) and "ok" in mo:
            yield ("corr", f"a design of the supported fragment with distinct joined names is refused: {im['refused'][-300:]}")
        return
    flat = im["flat"]
    # ---- (P) on what was returned
    if im.get("same_object"):
        if "flat_already" not in mo and whole_signal(d):
            yield ("pred", {"why": "flatten returned the module itself although it has non-leaf instances"})
        return
    if any(not i["leaf"] for i in flat["insts"]) or flat["other_instancelike"]:
        yield ("pred", {"why": "the flat module contains an instance that is not a primitive or external module", "insts": flat["insts"][:6]})
    top = next(m for m in d["modules"] if m["name"] == d["top"])
    want_ports = [{"n": s["n"], "w": s["w"], "dir": s.get("dir", "none")} for s in top["sigs"] if s["port"]]
    if flat["ports"] != want_ports:
        yield ("pred", {"why": "the top's ports are not unchanged", "want": want_ports, "got": flat["ports"]})
    if len(flat["insts"]) != len(sem_src["src_devices"]):
        yield ("pred", {"why": f"{len(flat['insts'])} instances in the flat module, {len(sem_src['src_devices'])} leaf devices in the hierarchy"})
    if whole_signal(d) and mo.get("error") == "collision":
        # Two different nets or leaves share one ':'-joined name. The code at hand refuses such designs (df956a1); one that *names them
        # apart* instead has flattened rightly, one that lets them fall together has not: judged free of names, by the shape of the nets —
        # per net, which kinds of device terminals and which port bits are on it.
        ok = sem_flat is not None and "ok" in sem_flat.get("pkg", {}) and "ok" in sem_src.get("src", {})
        if not ok or net_shape(sem_flat["pkg"]["ok"], sem_flat["pkg_devices"]) != net_shape(sem_src["src"]["ok"], sem_src["src_devices"]):
            yield ("pred", {"why": "flattened wrongly: two different nets or leaves share one ':'-joined name, and what flatten returned does not have the hierarchy's nets", "flat": flat})
        return
    if "export_error" in im:
        yield ("corr", f"the flat module does not export: {im['export_error'][-300:]}")
        return
    if not has_colon(d) and sem_flat is not None:
        if "ok" not in sem_flat["pkg"]:
            yield ("pred", {"why": "the flat module's package is not well-formed", "pkg": sem_flat["pkg"]})
        else:
            got = sorted(sorted(flat_path(t) for t in cls) for cls in sem_flat["pkg"]["ok"])
            want = sorted(sorted(cls) for cls in sem_src["src"]["ok"])
            if got != want:
                yield ("pred", {"why": "leaf terminals / port bits are not connected iff they are connected in the hierarchy", "flat": got, "hierarchy": want})
            gd = sorted((dv["path"].replace(":", "/"), dv["kind"], tuple(map(tuple, dv["params"]))) for dv in sem_flat["pkg_devices"])
            if gd != designs.sorted_devs(sem_src["src_devices"]):
                yield ("pred", {"why": "leaf devices / parameters differ", "flat": gd, "hierarchy": designs.sorted_devs(sem_src["src_devices"])})
    # ---- (C) against the model
    if whole_signal(d):
        if "ok" in mo:
            m = mo["ok"]
            mi = [{"n": i["n"], "conns": sorted(i["conns"])} for i in m["insts"]]
            gi = [{"n": i["n"], "conns": i["conns"]} for i in flat["insts"]]
            if m["name"] != flat["name"] or m["ports"] != [p["n"] for p in flat["ports"]] or mi != gi or sorted(m["signals"]) != flat["signals"]:
                yield ("corr", {"why": "flat module differs from the model's", "model": m, "impl": flat})
        elif "flat_already" in mo:
            yield ("corr", "model says the module is flat already; implementation built a new one")
        elif mo.get("error") == "walk":
            yield ("corr", "model's walk fails, implementation returned a module")


def net_shape(partition, devices):
    """Name-free form of a leaf-level partition: per net the sorted list of (device kind, port, bit) of the terminals and (port, bit)
    of the top-level port bits on it; the nets as a sorted multiset."""
    import re
    kind = {dv["path"]: dv["kind"] for dv in devices}
    out = []
    for cls in partition:
        ds = []
        for o in cls:
            mt = re.fullmatch(r"(.*):([^:\[]+)\[(\d+)\]", o)
            if mt and mt.group(1) in kind:
                ds.append(f"T|{kind[mt.group(1)]}|{mt.group(2)}|{mt.group(3)}")
            else:
                ds.append("P|" + o)
        out.append(sorted(ds))
    return sorted(out)


def impl_after(job):
    """flatten(design) after other designs were flattened in the same process: what comes back, as impl_flatten describes it"""
    for earlier in job["earlier"]:
        impl_flatten(earlier)
    return impl_flatten(job["case"])


def history_stream(ctx, cases, jobs=None):
    """flatten has no memory: the result for a design is the same whatever was flattened before in the process."""
    rep, rng = ctx.rep, ctx.rng
    given = jobs
    jobs = [] if given is None else given
    for c in ([] if given is not None else cases):
        earlier = [rng.choice(cases) for _ in range(rng.randint(1, 3))]
        if rng.random() < 0.5:
            # a sibling of the design itself: same names and paths, every width one more
            sib = copy.deepcopy(c)
            for m in sib["design"]["modules"]:
                for sg in m["sigs"]:
                    sg["w"] += 1
            for m in sib["design"]["modules"]:
                for i in m["insts"]:
                    if i["of"]["k"] == "leaf":
                        for p in i["of"]["ports"]:
                            p["w"] += 1
                        i["of"]["py"] = {"k": "ext", "name": "W" + i["of"]["kind"].replace(".", "_")}
                        i["of"]["kind"] = ".W" + i["of"]["kind"].replace(".", "_")
            earlier.append(sib)
        jobs.append({"case": c, "earlier": earlier})
    cases = [j["case"] for j in jobs]
    after = common.pmap_fresh(impl_after, jobs)
    alone = common.pmap_fresh(impl_flatten, cases)
    strip = lambda im: {k: v for k, v in im.items() if k not in ("refused",)} if "refused" not in im else {"refused_type": im.get("refused_type")}
    for j, c, a, b in zip(jobs, cases, after, alone):
        rep.count("history", json.dumps(c["design"]))
        if strip(a) != strip(b):
            from props import c17
            rep.fail("pred", {"stream": "history", "case": c, "job": j}, {"why": "flatten(design) depends on what was flattened before in the process",
                     "first_difference": c17.first_diff(strip(b), strip(a))})



def impl_twice(job):
    """flatten(m) twice on the very same module object — the caller having added to / renamed things in the first result in between —
    and, for a design that cannot be flattened, the refusal twice. -> what each call returned, as impl_flatten describes it"""
    from hdl21.flatten import flatten

    d, style = job["case"]["design"], job["case"].get("style", "proc")
    try:
        b = build.build(d, style)
    except Exception as ex:  # noqa
        return {"build_error": common.errstr(ex)}

    def describe(flat):
        return {"name": flat.name, "ports": [[p.name, p.width] for p in flat.ports.values()], "signals": sorted(flat.signals.keys()),
                "insts": [[i.name, sorted([p, getattr(c, "name", "?")] for p, c in i.conns.items())] for i in flat.instances.values()]}

    out = []
    first = None
    for k in range(2):
        try:
            flat = flatten(b.top)
        except Exception as ex:  # noqa
            out.append({"refused": type(ex).__name__})
            continue
        out.append({"flat": describe(flat), "same_as_first": first is not None and flat is first, "is_input": flat is b.top})
        if k == 0:
            first = flat
            if job.get("edit") and flat is not b.top:
                # the first result is the caller's: a probe point added, an instance taken out
                try:
                    flat.add(h.Signal(name="zz_probe"))
                    if flat.instances:
                        nm = next(iter(flat.instances))
                        inst = flat.instances.pop(nm)
                        flat.namespace.pop(nm, None)
                except Exception as ex:  # noqa
                    out[-1]["edit_refused"] = common.errstr(ex)
    return {"calls": out}


def twice_stream(ctx, cases):
    """flatten has no memory of its own results either: the second call on the same module answers as the first did (as a fresh
    process does), whether the first was refused or its result has been edited since."""
    rep, rng = ctx.rep, ctx.rng
    jobs = [{"case": c, "edit": rng.random() < 0.6} for c in cases]
    for j, r in zip(jobs, common.pmap_fresh(impl_twice, jobs)):
        rep.count("twice", json.dumps([j["case"]["design"], j["edit"]]))
        if "build_error" in r:
            continue
        a, b = r["calls"]
        case = {"stream": "twice", "case": j["case"], "edit": j["edit"]}
        if ("refused" in a) != ("refused" in b):
            rep.fail("pred", case, {"why": "flatten(m) twice: once refused, once answered", "first": a, "second": b})
        elif "flat" in a and a["flat"] != b["flat"]:
            rep.fail("pred", case, {"why": "the second flatten(m) returns something else than the first returned (the caller's edits of the first result came back)",
                                    "first": a["flat"], "second": b["flat"]})

def run_cases(ctx, cases):
    impls = common.pmap_fresh(impl_flatten, cases)  # one design per process: flatten after flatten is the history stream's business
    lines = []
    for c, im in zip(cases, impls):
        lines.append(model_line(c["design"]))
        lines.append(designs.sem_line(c, None))
        lines.append({"prop": "SEM", "op": "sem", "top": c["design"]["top"], "design": c["design"], "pkg": im["pkg"], "pkg_top": im["top"]} if "pkg" in im else
                     {"prop": "SEM", "op": "sem", "top": c["design"]["top"], "design": c["design"]})
    outs = ctx.drv.run(lines)
    return [(c, im, outs[3 * k], outs[3 * k + 1], outs[3 * k + 2] if "pkg" in im else None) for k, (c, im) in enumerate(zip(cases, impls))]


def corpus():
    """The pinned tree's witnesses: an ExternalModule leaf below the top; a top-level signal named like an inner net;
    a top-level instance named like an inner leaf."""
    E = copy.deepcopy(gen_design.LEAVES[0])
    R = copy.deepcopy(gen_design.LEAVES[3])
    inner = {"name": "M0", "sigs": [{"n": "a", "w": 1, "port": True, "dir": "none"}, {"n": "b", "w": 1, "port": True, "dir": "none"}, {"n": "x", "w": 1, "port": False, "dir": "none"},
                                    {"n": "w2", "w": 2, "port": False, "dir": "none"}], "bundles": [],
             "insts": [{"n": "r1", "of": R, "conns": [["p", {"k": "sig", "n": "a"}], ["n", {"k": "sig", "n": "x"}]]},
                       {"n": "r2", "of": R, "conns": [["p", {"k": "sig", "n": "x"}], ["n", {"k": "sig", "n": "b"}]]},
                       {"n": "e", "of": E, "conns": [["a", {"k": "sig", "n": "w2"}], ["b", {"k": "sig", "n": "x"}]]}]}
    def top(sigs, extra):
        return {"name": "Top", "sigs": [{"n": "p", "w": 1, "port": True, "dir": "input"}, {"n": "q", "w": 1, "port": True, "dir": "output"}] + sigs, "bundles": [],
                "insts": [{"n": "i1", "of": {"k": "module", "name": "M0"}, "conns": [["a", {"k": "sig", "n": "p"}], ["b", {"k": "sig", "n": "q"}]]}] + extra}
    d1 = {"bundles": [], "modules": [inner, top([], [])], "top": "Top"}
    d2 = {"bundles": [], "modules": [inner, top([{"n": "i1:x", "w": 1, "port": False, "dir": "none"}],
                                               [{"n": "r", "of": R, "conns": [["p", {"k": "sig", "n": "i1:x"}], ["n", {"k": "sig", "n": "q"}]]}])], "top": "Top"}
    d3 = {"bundles": [], "modules": [inner, top([], [{"n": "i1:r1", "of": R, "conns": [["p", {"k": "sig", "n": "p"}], ["n", {"k": "sig", "n": "p"}]]}])], "top": "Top"}
    return [{"design": d, "style": "proc"} for d in (d1, d2, d3)]


def make_cases(rng, n):
    cases = []
    for k in range(n):
        r = rng.random()
        r2 = rng.random()
        d = gen_hier(rng, {"extras": r < 0.25, "slices": ("full" if r < 0.35 else "mixed") if 0.25 <= r < 0.45 else None,
                           "fill": r2 < 0.3, "stubs": "all" if r2 > 0.92 else (r2 > 0.7)})
        cases.append({"design": d, "style": ("proc", "class", "gen")[k % 3], "stream": "hierarchies"})
        if rng.random() < 0.6 and whole_signal(d):
            a = adversarial(rng, d)
            if a is not None:
                cases.append({"design": a, "style": "proc", "stream": "colon_names"})
    return cases


def run(ctx):
    rep = ctx.rep
    rep.extra["rule"] = (
        "random hierarchies (2-5 modules, depth <= 5, shared children, scalar and bus nets, internal nets at every level, pass-through ports, "
        "Primitive / ExternalModule leaves at every level; 25% with port references / no-connects, 20% with slices / concatenations (sub-ranges, full-width forward and reversed, split-and-swapped)) in 3 construction styles "
        "+ the same with ':' in designer names colliding with joined path names; non-trivial = flatten returned a new module; "
        "distinct = distinct design JSON"
    )
    n = 250 if ctx.quick else 5000
    cases = corpus() + make_cases(ctx.rng, n)
    stats = {"returned": 0, "refused": {}, "model_collision": 0, "flat_already": 0, "colon_cases": 0, "max_depth_leaf_paths": 0, "ext_leaf_below_top": 0}
    for c, im, mo, sem_src, sem_flat in run_cases(ctx, cases):
        if "flat" in im and not im.get("same_object"):
            stats["returned"] += 1
            stats["max_depth_leaf_paths"] = max([stats["max_depth_leaf_paths"]] + [i["n"].count(":") + 1 for i in im["flat"]["insts"]])
        if "refused" in im:
            stats["refused"][im["refused_type"]] = stats["refused"].get(im["refused_type"], 0) + 1
        if mo.get("error") == "collision":
            stats["model_collision"] += 1
        if "flat_already" in mo:
            stats["flat_already"] += 1
        if c.get("stream") == "colon_names":
            stats["colon_cases"] += 1
        rep.count(c.get("stream", "corpus"), json.dumps(c["design"]), nontrivial="flat" in im and not im.get("same_object"))
        for v in judge(c, im, mo, sem_src, sem_flat):
            rep.fail(v[0], {"stream": c.get("stream", "corpus"), "case": c}, {"detail": v[1], "refused": im.get("refused")})
    if (rep.corr_disagreements or rep.proof_broken) and not any(f["kind"] == "pred" for f in rep.failures):
        import time
        t0, extra, found, seed = time.time(), 0, False, ctx.seed
        budget = 60 if ctx.quick else 400
        while time.time() - t0 < budget and not found:
            seed += 1000
            for c, im, mo, sem_src, sem_flat in run_cases(ctx, make_cases(random.Random(seed), 300)):
                extra += 1
                for v in judge(c, im, mo, sem_src, sem_flat):
                    if v[0] == "pred" and not found:
                        rep.fail("pred", {"stream": c.get("stream"), "case": c}, {"detail": v[1], "found_by": "failing-input search"})
                        found = True
        rep.extra["failing_input_search"] = {"designs": extra, "found": found, "seconds": round(time.time() - t0, 1)}
    history_stream(ctx, [c for c in cases if c.get("stream") != "colon_names"][: (60 if ctx.quick else 1000)])
    twice_stream(ctx, cases[: (40 if ctx.quick else 600)] + [c for c in cases if c.get("stream") == "colon_names"][: (30 if ctx.quick else 300)])
    rep.extra["flatten_stats"] = stats
    rep.sample({"design": cases[3]["design"]})


def replay(ctx, rp):
    case = rp["case"]["case"]
    if rp["case"].get("stream") == "history":
        return common.replay_by_rerun(ctx, rp, lambda c: history_stream(c, None, jobs=[rp["case"]["job"]]))
    if rp["case"].get("stream") == "twice":
        def rerun(c):
            c.rng = __import__("random").Random(0 if rp["case"].get("edit") else 1)
            # the recorded job exactly: same design, same decision about editing
            r = common.pmap_fresh(impl_twice, [{"case": case, "edit": rp["case"].get("edit")}])[0]
            if "calls" in r:
                a, b = r["calls"]
                if ("refused" in a) != ("refused" in b) or ("flat" in a and a["flat"] != b["flat"]):
                    c.rep.fail("pred", rp["case"], {"why": "flatten(m) twice disagrees", "first": a, "second": b})
        return common.replay_by_rerun(ctx, rp, rerun)
    (c, im, mo, sem_src, sem_flat), = run_cases(ctx, [case])
    fails = list(judge(c, im, mo, sem_src, sem_flat))
    print(json.dumps({"failures": fails, "refused": im.get("refused")}, default=str)[:3000])
    if any(f[0] == "pred" for f in fails):
        print(f"VIOLATION property=C16 replay={rp.get('_path')}")
        return 1
    return 1 if fails else 0
