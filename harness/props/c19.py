"""C19 — built-in generators build the documented topologies.

Series / MosStack / Wrapper are run on unit cells of every kind (ideal and physical primitives, external modules with scalar and
bus ports, generated modules with scalar, bus and bundle ports — fresh or already elaborated —, units whose ports are called
`i`, `units`, `inner`), for every n up to N and every ordered pair of distinct unit ports given by name or by Signal.

  (C) the Lean model (Builtin.lean: seriesNet / wrapperNet / seriesAccepts) says, for each unit k and port p, which net it is on;
      from that the harness writes the *plain* design the theorems describe (n separate instances, one scalar signal per chain
      link) and Sem.src of it is compared with Sem.pkg of the package the real generator exported (leaf-level partition, devices);
      a series pair the model refuses (a bus port, n >= 2) must be refused by the implementation;
  (P) read directly off the real package: exactly n unit instances, the module's ports are the unit's (name, width, direction),
      unit 0 / n-1 on the two series ports, link k private to units k and k+1, every other port on the same-named module port.
"""
import copy
import json
import random

from typing import Optional

import common
import designs
import build
import observe
import gen_design

h = common.repo_env()

ASSUMPTIONS = [
    "a generator call that raises is not judged, except that a unit/pair the model accepts (scalar series ports) and the code refuses "
    "is reported as broken correspondence",
    "series pairs are ordered pairs of *distinct* unit ports (conns=(p, p) is outside the property's quantifier)",
]
TRUSTED = ["harness/build.py", "observe.pkg_json", "the expected plain design is written by harness code from the model's net table"]

E_CLASH = {"k": "leaf", "kind": ".EI", "ports": [{"n": "i", "w": 1}, {"n": "units", "w": 1}, {"n": "inner", "w": 1}, {"n": "o", "w": 1}], "params": [],
           "py": {"k": "ext", "name": "EI"}}
# ports that differ only in letter case are different ports
E_CASE = {"k": "leaf", "kind": ".EQ", "ports": [{"n": "q", "w": 1}, {"n": "Q", "w": 1}, {"n": "x", "w": 1}, {"n": "X", "w": 1}], "params": [],
          "py": {"k": "ext", "name": "EQ"}}
BDEF = {"name": "B19", "tree": {"sigs": [gen_design.leaf_sig("x", 1), gen_design.leaf_sig("y", 1, "input"),
                                         dict(gen_design.leaf_sig("z", 1), src="HOST", dest="DEVICE")], "subs": []}}


def gen_unit_module(rng, mos_like=False):
    """A small module with 2-4 scalar ports, optionally bus and bundle ports, and resistors / external leaves inside."""
    names = ["d", "s", "g", "b"] if mos_like else rng.sample(["a", "b", "c", "e", "f", "i", "units", "inner", "A", "E"], rng.randint(2, 4))
    if mos_like:
        names = names[: rng.randint(2, 4)]
    sigs = [{"n": n, "w": 1, "port": True, "dir": rng.choice(["input", "output", "inout", "none"])} for n in names]
    bundles, insts = [], []
    R, E1 = gen_design.LEAVES[3], gen_design.LEAVES[0]
    k = 0
    for a, b in zip(names, names[1:] + names[:1]):
        k += 1
        insts.append({"n": f"r{k}", "of": copy.deepcopy(R), "conns": [["p", {"k": "sig", "n": a}], ["n", {"k": "sig", "n": b}]]})
    if rng.random() < 0.5:
        sigs.append({"n": "bus", "w": 2, "port": True, "dir": "none"})
        insts.append({"n": "e1", "of": copy.deepcopy(E1), "conns": [["a", {"k": "sig", "n": "bus"}], ["b", {"k": "sig", "n": names[0]}]]})
    use_bundle = rng.random() < 0.5
    if use_bundle:
        # a bundle-valued port: possibly flipped, possibly under one of the names the generators use internally
        bn = rng.choice([x for x in ["bp", "bp", "inner", "i", "units"] if x not in names])
        bundles.append({"n": bn, "of": "B19", "port": True, "role": rng.choice(["HOST", "DEVICE", None]), "flip": rng.random() < 0.5})
        insts.append({"n": "rb", "of": copy.deepcopy(R), "conns": [["p", {"k": "bref", "root": bn, "path": ["x"]}], ["n", {"k": "bref", "root": bn, "path": ["y"]}]]})
    if rng.random() < 0.4:
        sigs.append({"n": "x1", "w": 1, "port": False, "dir": "none"})
        insts.append({"n": "rx", "of": copy.deepcopy(R), "conns": [["p", {"k": "sig", "n": "x1"}], ["n", {"k": "sig", "n": names[-1]}]]})
    return {"bundles": [BDEF] if use_bundle else [], "modules": [{"name": "U", "sigs": sigs, "bundles": bundles, "insts": insts}], "top": "U"}


def unit_ports(unit):
    """[(name, width, is_bundle)] in declaration order"""
    if "leaf" in unit:
        return [(p["n"], p["w"], False) for p in unit["leaf"]["ports"]]
    m = unit["design"]["modules"][-1]
    return [(s["n"], s["w"], False) for s in m["sigs"] if s["port"]] + [(b["n"], None, True) for b in m["bundles"] if b["port"]]


def make_cases(rng, n_cases, nmax):
    cases = []
    leaves = gen_design.LEAVES + [E_CLASH, E_CASE]
    for k in range(n_cases):
        r = rng.random()
        gen = "Series" if r < 0.6 else ("MosStack" if r < 0.8 else "Wrapper")
        if gen == "MosStack":
            if rng.random() < 0.5:
                leaf = copy.deepcopy(gen_design.LEAVES[5])
                if rng.random() < 0.5:
                    leaf["params"] = [["tp", "L:PMOS"], ["vth", "L:STD"], ["family", "L:NONE"]]
                    leaf["py"] = {"k": "prim", "name": "Mos", "params": {"tp": "PMOS"}}
                unit = {"leaf": leaf}
            else:
                unit = {"design": gen_unit_module(rng, mos_like=True)}
        else:
            unit = {"leaf": copy.deepcopy(rng.choice(leaves))} if rng.random() < 0.55 else {"design": gen_unit_module(rng)}
        ports = unit_ports(unit)
        sigports = [p for p in ports if not p[2]]
        n = rng.choice([1, 2, 2, 3, 3, 4, 5]) if rng.random() < 0.75 else rng.randint(1, nmax)  # (past 10: unit names no longer sort like their indices)
        if gen == "MosStack":
            first, second = "d", "s"
        else:
            cand = sigports if rng.random() < 0.15 else ([p for p in sigports if p[1] == 1] or sigports)
            if len(cand) < 2:
                cand = sigports
            first, second = [p[0] for p in rng.sample(cand, 2)]
        cases.append({"unit": unit, "gen": gen, "n": n, "first": first, "second": second,
                      "by": rng.choice(["name", "name", "signal", "signal_name", "name_signal"]),
                      "pre_elab": "design" in unit and rng.choice([False, False, False, True, "failed"]),
                      # the unit may itself be what a generator returned
                      "unit_generated": "design" in unit and rng.random() < 0.3})
    return cases


# ------------------------------------------------------------------------------------------------ implementation

@h.paramclass
class ExtP:
    m = h.Param(dtype=int, desc="m", default=1)
    x = h.Param(dtype=Optional[float], desc="x", default=None)
    tag = h.Param(dtype=Optional[str], desc="tag", default=None)
    en = h.Param(dtype=Optional[bool], desc="en", default=None)
    k = h.Param(dtype=Optional[int], desc="k", default=None)


def leaf_unit(of):
    """like build.leaf_target, with hashable parameters (generator parameters are cache keys)"""
    py = of["py"]
    if py["k"] == "ext":
        pt = ExtP if py.get("params") else h.HasNoParams
        em = h.ExternalModule(name=py["name"], domain=py.get("domain"), port_list=[h.Port(name=p["n"], width=p["w"]) for p in of["ports"]], paramtype=pt)
        return em(pt(**py.get("params", {})))
    return build.leaf_target(of)


def impl_builtin(case):
    from hdl21.generators import Series, MosStack, Wrapper

    unit = case["unit"]
    try:
        if "leaf" in unit:
            u = leaf_unit(unit["leaf"])
        else:
            u = build.build(unit["design"], "proc").top
            if case.get("unit_generated"):
                built = u

                def unit_gen(p: h.HasNoParams) -> h.Module:
                    return built

                unit_gen.__name__ = "UnitGen"
                u = h.generator(unit_gen)()
        # the unit's interface as the designer wrote it — taken before a pre-elaboration flattens its bundle ports
        want0 = None
        if isinstance(u, h.Module):
            want0 = sorted([("sig", n) for n in u.ports] + [("bundle", n) for n, b in u.bundles.items() if b.port])
        if case.get("pre_elab") == "failed":
            # the unit was part of a design whose elaboration failed in a late pass, for a reason outside the unit (a sibling's instance
            # array of a width that does not fit): the early passes have rewritten it, the last one never reached it (seed C19-r8-2)
            two = h.Module(name="HistTwoBit"); two.d = h.Input(width=2)
            bad = h.Module(name="HistBadSibling"); bad.w = h.Signal(width=3)
            bad.arr = 2 * two(d=bad.w)
            par = h.Module(name="HistFailedParent")
            par.b = bad()
            conns = {}
            for n, sg in u.ports.items():
                conns[n] = par.add(h.Signal(width=sg.width), name=f"u_{n}")
            for n, b in u.bundles.items():
                if b.port:
                    conns[n] = par.add(b.of(), name=f"ub_{n}")
            par.u = u(**conns)
            try:
                h.elaborate(par)
                return {"build_error": "the history design was expected to fail"}
            except RuntimeError:
                pass
        elif case.get("pre_elab"):
            h.elaborate(u)
    except Exception as ex:  # noqa
        return {"build_error": common.errstr(ex)}
    # earlier generator calls over the very same unit object, in the same process: they leave the unit as it was
    for b4 in case.get("before", []):
        try:
            if b4["gen"] == "Wrapper":
                Wrapper(u)
            else:
                Series(unit=u, nser=b4["n"], conns=(b4["first"], b4["second"]))
        except Exception:  # noqa — what they return or raise is judged when they are the case themselves
            pass
    try:
        if case["gen"] == "Wrapper":
            m = Wrapper(u)
        elif case["gen"] == "MosStack":
            m = MosStack(unit=u, nser=case["n"])
        else:
            pick = {"signal": (True, True), "name": (False, False), "signal_name": (True, False), "name_signal": (False, True)}[case["by"]]
            conns = tuple((u.ports[nm] if as_sig else nm) for nm, as_sig in zip((case["first"], case["second"]), pick))
            m = Series(unit=u, nser=case["n"], conns=conns)
    except Exception as ex:  # noqa
        return {"refused": common.errstr(ex)}
    # what the generator handed back, before anything else looks at it: the unit's ports, signal and bundle valued
    def iface(x):
        if isinstance(x, h.Module):
            return sorted([("sig", n) for n in x.ports] + [("bundle", n) for n, b in x.bundles.items() if b.port])
        return sorted(("sig", p.name) for p in x.ports.values()) if hasattr(x.ports, "values") else sorted(("sig", p) for p in x.ports)
    out = {}
    try:
        want = want0 if want0 is not None else sorted(("sig", p["n"]) for p in unit["leaf"]["ports"])
        out["iface"] = {"got": iface(m), "want": want}
    except Exception as ex:  # noqa
        out["iface_error"] = common.errstr(ex)
    try:
        pkg = h.to_proto(m)
    except Exception as ex:  # noqa
        return dict(out, refused=common.errstr(ex))
    pj = observe.pkg_json(pkg)
    return dict(out, pkg=pj, top=pj["modules"][-1]["name"])


def fresh(taken, name):
    while name in taken:
        name += "_"
    return name


def invented_names(case, im):
    """The names the generator gave its inner instance / its units, read off the package (which fresh name is invented is the
    generator's business; that it is none of the unit's port names is checked in `judge`)."""
    top = next(m for m in im["pkg"]["modules"] if m["name"] == im["top"])
    names = [i["n"] for i in top["instances"]]
    if case["gen"] == "Wrapper" or case["n"] == 1:
        return {"inner": names[0] if names else "inner"}
    bases = {n.rsplit("_", 1)[0] for n in names if "_" in n and n.rsplit("_", 1)[1].isdigit()}
    return {"units": bases.pop() if len(bases) == 1 else "units"}


def expected_design(case, mo, im=None):
    """The plain design the theorems describe, in the IR of Sem.src."""
    given = invented_names(case, im) if im is not None else {}
    unit = case["unit"]
    ports = unit_ports(unit)
    taken = {p[0] for p in ports}
    if "leaf" in unit:
        mods, bundles, of = [], [], copy.deepcopy(unit["leaf"])
        sigs = [{"n": p["n"], "w": p["w"], "port": True, "dir": "none"} for p in unit["leaf"]["ports"]]
        bports = []
    else:
        d = unit["design"]
        mods, bundles, of = copy.deepcopy(d["modules"]), copy.deepcopy(d["bundles"]), {"k": "module", "name": "U"}
        um = d["modules"][-1]
        sigs = [copy.deepcopy(s) for s in um["sigs"] if s["port"]]
        bports = [copy.deepcopy(b) for b in um["bundles"] if b["port"]]
    insts = []

    def conn(p, net):
        if p in [b["n"] for b in bports]:
            return {"k": "bundle", "n": net["port"]}
        if "port" in net:
            return {"k": "sig", "n": net["port"]}
        return {"k": "sig", "n": f"chain{net['chain']}#"}

    if case["gen"] == "Wrapper" or case["n"] == 1:
        insts.append({"n": given.get("inner") or fresh(taken, "inner"), "of": of, "conns": [[p[0], conn(p[0], {"port": p[0]})] for p in ports]})
    else:
        base = given.get("units") or fresh(taken, "units")
        for k, row in enumerate(mo["units"]):
            insts.append({"n": f"{base}_{k}", "of": copy.deepcopy(of), "conns": [[p, conn(p, net)] for p, net in row]})
        sigs += [{"n": f"chain{j}#", "w": 1, "port": False, "dir": "none"} for j in range(case["n"] - 1)]
    mods.append({"name": "S#", "sigs": sigs, "bundles": bports, "insts": insts})
    return {"bundles": bundles, "modules": mods, "top": "S#"}


def model_line(case):
    ports = unit_ports(case["unit"])
    w = {p[0]: p[1] for p in ports if not p[2]}
    if case["gen"] == "Wrapper":
        return {"prop": "C19", "op": "wrapper", "ports": [p[0] for p in ports]}
    l = {"prop": "C19", "op": "series", "n": case["n"], "first": case["first"], "second": case["second"], "ports": [p[0] for p in ports]}
    if case["first"] in w:
        l["wfirst"] = w[case["first"]]
    if case["second"] in w:
        l["wsecond"] = w[case["second"]]
    return l


def direct_reading(case, im):
    """(P) read off the real package without the model: returns a problem string or None."""
    pj = im["pkg"]
    top = next(m for m in pj["modules"] if m["name"] == im["top"])
    n = 1 if case["gen"] == "Wrapper" else case["n"]
    if len(top["instances"]) != n:
        return f"{len(top['instances'])} unit instances, nser = {n}"
    widths = {s["n"]: s["w"] for s in top["signals"]}
    portnames = [p["n"] for p in top["ports"]]
    # the module's ports are the unit's
    if "design" in case["unit"]:
        um = next(m for m in pj["modules"] if m["name"].split(".")[-1].startswith("U"))
        uw = {s["n"]: s["w"] for s in um["signals"]}
        want = [(p["n"], p["dir"], uw[p["n"]]) for p in um["ports"]]
    else:
        want = [(p["n"], None, p["w"]) for p in case["unit"]["leaf"]["ports"]]
    got = [(p["n"], p["dir"] if "design" in case["unit"] else None, widths[p["n"]]) for p in top["ports"]]
    if sorted(got, key=str) != sorted(want, key=str):
        return f"module ports {got} are not the unit's {want}"
    if n == 1:
        for i in top["instances"]:
            for port, t in i["conns"]:
                if t != {"sig": port}:
                    return f"inner.{port} is on {t}, not on the module's port {port}"
        return None
    first, second = case["first"], case["second"]

    def bits(t):
        if "sig" in t:
            return [(t["sig"], k) for k in range(widths[t["sig"]])]
        if "slice" in t:
            return [(t["slice"][0], k) for k in range(t["slice"][2], t["slice"][1] + 1)]
        out = []
        for p in reversed(t["concat"]):
            out += bits(p)
        return out

    insts = sorted(top["instances"], key=lambda i: int(i["n"].rsplit("_", 1)[1]))
    net = [{p: bits(t) for p, t in i["conns"]} for i in insts]
    if net[0][first] != [(first, 0)]:
        return f"unit 0's {first} is on {net[0][first]}, not the module port"
    if net[n - 1][second] != [(second, 0)]:
        return f"unit {n-1}'s {second} is on {net[n-1][second]}, not the module port"
    users = {}
    for k in range(n):
        for p, b in net[k].items():
            for bit in b:
                users.setdefault(bit, []).append((k, p))
    for k in range(n - 1):
        link = net[k][second]
        if link != net[k + 1][first] or len(link) != 1:
            return f"unit {k}.{second} on {link}, unit {k+1}.{first} on {net[k+1][first]}"
        if link[0][0] in portnames:
            return f"link {k} is the module port {link[0]}"
        if sorted(users[link[0]]) != sorted([(k, second), (k + 1, first)]):
            return f"link {k} net {link[0]} is shared with {users[link[0]]}"
    for k in range(n):
        for p, b in net[k].items():
            if p not in (first, second) and b != [(p, j) for j in range(widths[p])]:
                return f"unit {k}.{p} is on {b}, not on the module port {p}"
    return None


def judge(case, im, mo, sem):
    if "build_error" in im:
        yield ("corr", f"harness could not build the unit: {im['build_error']}")
        return
    accept = mo.get("accept", True)
    if accept and "iface" in im and im["iface"]["got"] != im["iface"]["want"]:
        yield ("pred", {"why": "the generated module does not expose exactly the unit's ports", "got": im["iface"]["got"], "unit": im["iface"]["want"]})
        return
    if "refused" in im:
        if accept:
            yield ("corr", f"a unit / series pair the model accepts is refused: {im['refused'][-300:]}")
        return
    if not accept:
        yield ("pred", {"why": "a series pair that cannot be wired (bus series port) produced a module", "top": im["top"]})
        return
    for what, nm in invented_names(case, im).items():
        if nm in {p[0] for p in unit_ports(case["unit"])}:
            yield ("pred", {"why": f"the name the generator chose for its {what} ({nm}) is a port of the unit"})
    bad = direct_reading(case, im)
    if bad:
        yield ("pred", {"why": "documented topology violated: " + bad})
    if sem is not None:
        if "ok" not in sem["src"]:
            yield ("corr", f"the expected plain design is ill-formed by Sem.src: {sem['src']}")
        elif sem["pkg"] != sem["src"]:
            yield ("pred", {"why": "leaf-level partition of the generated module differs from the documented topology", "expected": sem["src"], "pkg": sem["pkg"]})
        elif designs.sorted_devs(sem["src_devices"]) != designs.sorted_devs(sem["pkg_devices"]):
            yield ("pred", {"why": "leaf devices differ", "expected": sem["src_devices"], "pkg": sem["pkg_devices"]})


def run_cases(ctx, cases):
    impls = common.pmap(impl_builtin, cases, chunk=8)
    mos = ctx.drv.run([model_line(c) for c in cases])
    lines, idx = [], []
    for c, im, mo in zip(cases, impls, mos):
        if "pkg" in im and mo.get("accept", True):
            exp = expected_design(c, mo, im)
            idx.append(len(lines))
            lines.append({"prop": "SEM", "op": "sem", "top": "S#", "design": exp, "pkg": im["pkg"], "pkg_top": im["top"]})
        else:
            idx.append(None)
    sems = ctx.drv.run(lines) if lines else []
    return [(c, im, mo, sems[ix] if ix is not None else None) for c, im, mo, ix in zip(cases, impls, mos, idx)]


def corpus():
    """The pinned tree's witnesses: Wrapper / Series over a unit with a bundle-valued port (fresh and elaborated); a port named `i`."""
    u = {"bundles": [BDEF], "modules": [{"name": "U", "sigs": [{"n": "a", "w": 1, "port": True, "dir": "none"}, {"n": "b", "w": 1, "port": True, "dir": "none"}],
         "bundles": [{"n": "bp", "of": "B19", "port": True}],
         "insts": [{"n": "r1", "of": copy.deepcopy(gen_design.LEAVES[3]), "conns": [["p", {"k": "sig", "n": "a"}], ["n", {"k": "bref", "root": "bp", "path": ["x"]}]]},
                   {"n": "r2", "of": copy.deepcopy(gen_design.LEAVES[3]), "conns": [["p", {"k": "sig", "n": "b"}], ["n", {"k": "bref", "root": "bp", "path": ["y"]}]]}]}], "top": "U"}
    out = []
    for pre in (False, True):
        out.append({"unit": {"design": copy.deepcopy(u)}, "gen": "Wrapper", "n": 1, "first": "a", "second": "b", "by": "name", "pre_elab": pre})
        out.append({"unit": {"design": copy.deepcopy(u)}, "gen": "Series", "n": 3, "first": "a", "second": "b", "by": "name", "pre_elab": pre})
    for gen, n in (("Wrapper", 1), ("Series", 1), ("Series", 3)):
        out.append({"unit": {"design": copy.deepcopy(u)}, "gen": gen, "n": n, "first": "a", "second": "b", "by": "name", "pre_elab": "failed"})
    out.append({"unit": {"leaf": copy.deepcopy(E_CLASH)}, "gen": "Series", "n": 3, "first": "i", "second": "o", "by": "name", "pre_elab": False})
    out.append({"unit": {"leaf": copy.deepcopy(E_CLASH)}, "gen": "Wrapper", "n": 1, "first": "i", "second": "o", "by": "name", "pre_elab": False})
    # the series pair given half by Signal, half by name; a unit that a generator returned, wrapped once
    for by in ("signal_name", "name_signal"):
        out.append({"unit": {"leaf": copy.deepcopy(gen_design.LEAVES[3])}, "gen": "Series", "n": 3, "first": "p", "second": "n", "by": by, "pre_elab": False})
        out.append({"unit": {"design": copy.deepcopy(u)}, "gen": "Series", "n": 2, "first": "b", "second": "a", "by": by, "pre_elab": False})
    for gen, n in (("Series", 1), ("Wrapper", 1), ("Series", 2)):
        out.append({"unit": {"design": copy.deepcopy(u)}, "gen": gen, "n": n, "first": "a", "second": "b", "by": "name", "pre_elab": False, "unit_generated": True})
    # several generator calls over one (fresh / already elaborated) unit in one process: the later ones see the unit as the first did
    for pre in (False, True):
        for gen, n, first, second in (("Wrapper", 1, "a", "b"), ("Series", 2, "b", "a"), ("Series", 3, "a", "b")):
            out.append({"unit": {"design": copy.deepcopy(u)}, "gen": gen, "n": n, "first": first, "second": second, "by": "name", "pre_elab": pre,
                        "before": [{"gen": "Series", "n": 3, "first": "a", "second": "b"}, {"gen": "Series", "n": 2, "first": "b", "second": "a"}, {"gen": "Wrapper"}]})
    # a unit that holds a bundle instance of its own, inside (no port): the generated module exposes the unit's ports, not its insides
    u3 = copy.deepcopy(u)
    u3["modules"][0]["bundles"].append({"n": "mid", "of": "B19", "port": False})
    u3["modules"][0]["insts"].append({"n": "r3", "of": copy.deepcopy(gen_design.LEAVES[3]), "conns": [["p", {"k": "bref", "root": "mid", "path": ["x"]}], ["n", {"k": "bref", "root": "mid", "path": ["y"]}]]})
    for pre in (False, True):
        for gen, n in (("Wrapper", 1), ("Series", 1), ("Series", 3)):
            out.append({"unit": {"design": copy.deepcopy(u3)}, "gen": gen, "n": n, "first": "a", "second": "b", "by": "name", "pre_elab": pre})
    # more than ten units (units_10 sorts before units_2), over a primitive and over a module
    out.append({"unit": {"leaf": copy.deepcopy(gen_design.LEAVES[3])}, "gen": "Series", "n": 12, "first": "p", "second": "n", "by": "name", "pre_elab": False})
    out.append({"unit": {"leaf": copy.deepcopy(gen_design.LEAVES[5])}, "gen": "MosStack", "n": 11, "first": "d", "second": "s", "by": "name", "pre_elab": False})
    out.append({"unit": {"design": copy.deepcopy(u)}, "gen": "Series", "n": 13, "first": "b", "second": "a", "by": "signal", "pre_elab": False})
    # a flipped bundle port, and bundle ports under the generators' internal names
    for bn, flip, gen, n in (("bp", True, "Wrapper", 1), ("bp", True, "Series", 2), ("inner", False, "Wrapper", 1), ("inner", True, "Series", 1), ("i", False, "Series", 3), ("units", False, "Series", 2)):
        u2 = copy.deepcopy(u)
        um = u2["modules"][0]
        um["bundles"][0].update(n=bn, flip=flip, role="HOST")
        for i in um["insts"]:
            for pc in i["conns"]:
                if pc[1]["k"] == "bref":
                    pc[1]["root"] = bn
        out.append({"unit": {"design": u2}, "gen": gen, "n": n, "first": "a", "second": "b", "by": "name", "pre_elab": False})
    return out


def run(ctx):
    rep = ctx.rep
    nmax = 14 if ctx.quick else 40
    rep.extra["rule"] = (
        f"Series / MosStack / Wrapper over primitive, external-module and generated-module units (scalar, bus, bundle ports; fresh or "
        f"pre-elaborated; ports named i / units / inner), n in 1..{nmax}, every kind of ordered pair of distinct ports by name or by Signal; "
        "non-trivial = the generator returned a module that exported; distinct = distinct case JSON"
    )
    n = 300 if ctx.quick else 5000
    cases = corpus() + make_cases(ctx.rng, n, nmax)
    stats = {"exported": 0, "refused": 0, "by_gen": {}, "n_hist": {}, "model_rejects": 0, "bundle_units": 0, "pre_elab": 0}
    for c, im, mo, sem in run_cases(ctx, cases):
        stats["by_gen"][c["gen"]] = stats["by_gen"].get(c["gen"], 0) + 1
        stats["n_hist"][str(c["n"])] = stats["n_hist"].get(str(c["n"]), 0) + 1
        stats["exported" if "pkg" in im else "refused"] += 1
        if not mo.get("accept", True):
            stats["model_rejects"] += 1
        if any(p[2] for p in unit_ports(c["unit"])):
            stats["bundle_units"] += 1
        if c.get("pre_elab"):
            stats["pre_elab"] += 1
        rep.count("builtin", json.dumps(c), nontrivial="pkg" in im)
        for v in judge(c, im, mo, sem):
            rep.fail(v[0], {"stream": "builtin", "case": c}, {"detail": v[1], "refused": im.get("refused")})
    if (rep.corr_disagreements or rep.proof_broken) and not any(f["kind"] == "pred" for f in rep.failures):
        import time
        t0, extra, found, seed = time.time(), 0, False, ctx.seed
        budget = 60 if ctx.quick else 300
        while time.time() - t0 < budget and not found:
            seed += 1000
            for c, im, mo, sem in run_cases(ctx, make_cases(random.Random(seed), 400, 40)):
                extra += 1
                for v in judge(c, im, mo, sem):
                    if v[0] == "pred" and not found:
                        rep.fail("pred", {"stream": "builtin", "case": c}, {"detail": v[1], "found_by": "failing-input search"})
                        found = True
        rep.extra["failing_input_search"] = {"cases": extra, "found": found, "seconds": round(time.time() - t0, 1)}
    rep.extra["builtin_stats"] = stats
    rep.sample({"case": cases[8] if len(cases) > 8 else cases[0]})


def replay(ctx, rp):
    case = rp["case"]["case"]
    (c, im, mo, sem), = run_cases(ctx, [case])
    fails = list(judge(c, im, mo, sem))
    print(json.dumps({"failures": fails, "refused": im.get("refused")}, default=str)[:3000])
    if any(f[0] == "pred" for f in fails):
        print(f"VIOLATION property=C19 replay={rp.get('_path')}")
        return 1
    return 1 if fails else 0
