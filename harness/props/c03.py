"""C03 — indexing and concatenation follow Python sequence semantics.

Stream A  (exhaustive box)  `Signal(width=w)[idx]` for every w ≤ W, every int index in [-2w, 2w],
          every (start, stop) ∈ ([-2w, 2w] ∪ {None})², every step ∈ {None, ±1 … ±w}:
          implementation's (top, bot, step, width)  vs  model `sliceInner`  vs  Python list slicing.
Stream B  (nested)  trees of Slice / Concat over Signal, PortRef and BundleRef leaves, depth ≤ 3:
          `width()`, and the connection target found in the exported package after SliceResolver,
          vs the model's `denote` / `resolveSliceable`.
"""
import itertools
import json
import random

import common
from common import pmap

h = common.repo_env()
from hdl21.elab.helpers.width import width as h_width
import observe

ASSUMPTIONS = [
    "CPython list slicing is the oracle for `pyBits` (compared on every case of stream A)",
    "the package is read positionally MSB-first, as vlsirtools' netlisters print it (observe.target_bits)",
]
TRUSTED = ["CPython `slice.indices`/list slicing (oracle)", "observe.target_bits (package reading)"]


def idx_json(idx):
    if isinstance(idx, int):
        return {"i": idx}
    return {"s": idx.start, "e": idx.stop, "st": idx.step}


def idx_py(j):
    if "i" in j:
        return j["i"]
    return slice(j.get("s"), j.get("e"), j.get("st"))


def py_select(w, idx):
    """What Python selects from a list of w bits: list of indices, or None on IndexError/ValueError."""
    try:
        r = list(range(w))[idx]
    except (IndexError, ValueError):
        return None
    return [r] if isinstance(r, int) else r


def impl_inner(args):
    w, ij = args
    idx = idx_py(ij)
    try:
        sl = h.Signal(name="s", width=w)[idx]
        return {"ok": {"top": sl.top, "bot": sl.bot, "step": sl.step, "width": sl.width}}
    except Exception as e:  # noqa
        return {"reject": type(e).__name__}


def inner_bits(d):
    """The reading of (top, bot, step, width) — same as Lean `Inner.bits`."""
    n = max(d["width"], 0)
    if d["step"] < 0:
        return [d["top"] - 1 + k * d["step"] for k in range(n)]
    return [d["bot"] + k * d["step"] for k in range(n)]


def in_bounds(w, ij):
    """explicit bounds lie in [-w, w]"""
    return all(ij.get(k) is None or -w <= ij[k] <= w for k in ("s", "e"))


def judge_inner(w, ij, impl, py):
    """Property predicate on the implementation's answer. Returns None or a reason."""
    if "i" in ij:
        if py is None:
            return None if "reject" in impl else "out-of-range integer index accepted"
        if "reject" in impl:
            return "in-range integer index rejected"
        if inner_bits(impl["ok"]) != py or impl["ok"]["width"] != 1:
            return f"index selects {inner_bits(impl['ok'])}, Python selects {py}"
        return None
    empty = py is None or len(py) == 0
    if "reject" in impl:
        if not empty and ij.get("st") in (None, 1) and in_bounds(w, ij):
            return "non-empty unit-step range rejected"
        return None  # stepped or out-of-bounds slices may be refused
    if empty:
        return "slice selecting no bit accepted"
    got = inner_bits(impl["ok"])
    if got != py:
        return f"slice selects {got}, Python selects {py}"
    if impl["ok"]["width"] != len(py):
        return f"width {impl['ok']['width']} but {len(py)} bits selected"
    if any(k < 0 or k >= w for k in got):
        return "selected bit outside the parent"
    return None


def box(W):
    for w in range(1, W + 1):
        for i in range(-2 * w, 2 * w + 1):
            yield (w, {"i": i})
        bounds = [None] + list(range(-2 * w, 2 * w + 1))
        steps = [None] + [s for k in range(1, w + 1) for s in (k, -k)] + [0]
        for s, e, st in itertools.product(bounds, bounds, steps):
            yield (w, {"s": s, "e": e, "st": st})


def stream_a(ctx):
    rep = ctx.rep
    W = 6 if ctx.quick else 10
    cases = list(box(W))
    impls = pmap(impl_inner, cases, chunk=2000)
    outs = ctx.drv.run([{"prop": "C03", "op": "slice_inner", "w": w, "idx": ij} for (w, ij) in cases])
    for (w, ij), impl, out in zip(cases, impls, outs):
        py = py_select(w, idx_py(ij))
        case = {"stream": "A", "w": w, "idx": ij}
        rep.count("A:slice_inner", json.dumps(case), nontrivial=True)
        # oracle: the Lean spec is Python
        if out["py"] != py:
            rep.fail("oracle", case, {"lean_pyBits": out["py"], "python": py})
        why = judge_inner(w, ij, impl, py)
        if why:
            rep.fail("pred", case, {"why": why, "impl": impl, "python": py, "model": out["model"]})
        model = out["model"]
        m = {"ok": {k: model["ok"][k] for k in ("top", "bot", "step", "width")}} if "ok" in model else {"reject": 1}
        i = impl if "ok" in impl else {"reject": 1}
        if m != i:
            rep.fail("corr", case, {"impl": impl, "model": model})
    rep.sample({"stream": "A", "w": cases[100][0], "idx": cases[100][1], "impl": impls[100], "model": outs[100]})
    rep.extra["box"] = {"W": W, "points": len(cases)}


# ----------------------------------------------------------------------------- stream B


def rand_index(rng, w, valid_bias=0.85):
    """An index for a parent of width w (w may be 0 for invalid parents)."""
    w = max(w, 1)
    if rng.random() < 0.4:
        if rng.random() < valid_bias:
            return {"i": rng.randrange(-w, w)}
        return {"i": rng.choice([w, -w - 1, 2 * w, -2 * w])}
    lo, hi = (-w, w) if rng.random() < valid_bias else (-2 * w, 2 * w)
    s = rng.choice([None, rng.randint(lo, hi)])
    e = rng.choice([None, rng.randint(lo, hi)])
    st = rng.choice([None, None, 1, 1, -1, 2, -2, rng.randint(-w, w)])
    if st == 0 and rng.random() < 0.9:
        st = None
    return {"s": s, "e": e, "st": st}


LEAVES = [("sig", "a"), ("sig", "b"), ("pref", "i0.q"), ("bref", "bb.s"), ("bref", "bb.sub.s"), ("pref", "e0.q")]


def rand_tree(rng, depth, widths):
    """JSON SConn with leaf kinds; leaf names map to model signal names."""
    if depth == 0 or rng.random() < 0.25:
        kind, name = rng.choice(LEAVES)
        return {"k": "leaf", "kind": kind, "n": name, "w": widths[name]}
    if rng.random() < 0.6:
        p = rand_tree(rng, depth - 1, widths)
        pw = py_width(p)
        return {"k": "slice", "p": p, "i": rand_index(rng, pw if pw is not None else 1)}
    n = rng.choice([1, 2, 2, 3])
    return {"k": "concat", "ps": [rand_tree(rng, depth - 1, widths) for _ in range(n)]}


def py_width(t):
    """Width by Python list semantics (None if invalid) — used only to steer generation."""
    b = py_bits(t)
    return None if b is None else len(b)


def py_bits(t):
    """Independent oracle: evaluate the tree on Python lists of (signal, index) bits."""
    if t["k"] == "leaf":
        return [(model_name(t), i) for i in range(t["w"])]
    if t["k"] == "concat":
        out = []
        for p in t["ps"]:
            b = py_bits(p)
            if b is None:
                return None
            out += b
        return out
    b = py_bits(t["p"])
    if b is None:
        return None
    try:
        r = b[idx_py(t["i"])]
    except (IndexError, ValueError):
        return None
    r = [r] if isinstance(r, tuple) else r
    return r if len(r) else None


def model_name(leaf):
    return {"a": "a", "b": "b", "i0.q": "i0_q", "bb.s": "bb_s", "bb.sub.s": "bb_sub_s", "e0.q": "e0_q"}[leaf["n"]]


def to_model(t):
    if t["k"] == "leaf":
        return {"k": "sig", "n": model_name(t), "w": t["w"]}
    if t["k"] == "slice":
        return {"k": "slice", "p": to_model(t["p"]), "i": t["i"]}
    return {"k": "concat", "ps": [to_model(p) for p in t["ps"]]}


def unit_only(t):
    """Only integer indices and unit-step ranges with bounds in range (acceptance is demanded)."""
    if t["k"] == "leaf":
        return True
    if t["k"] == "concat":
        return all(unit_only(p) for p in t["ps"])
    return ("i" in t["i"] or t["i"].get("st") in (None, 1)) and unit_only(t["p"])


def beyond_only(t):
    """the tree is invalid only by Python's list semantics of this harness where the property leaves the choice (a bound beyond [-w, w]):
    never true here, since py_bits follows Python there; kept as the one place to exempt such a case"""
    return False


def has_single_concat_of_concat(t):
    return False


def build_and_export(case):
    """Build the real design around the tree, export it, read back the bits on the sink port."""
    t, widths = case["tree"], case["widths"]

    # (a member of a sub-bundle called like a member of the bundle itself, of another width)
    @h.bundle
    class Sub:
        s = h.Signal(width=widths.get("bb.sub.s", 1))

    @h.bundle
    class B:
        s = h.Signal(width=widths["bb.s"])
        sub = Sub()

    src = h.Module(name="Src")
    src.q = h.Port(width=widths["i0.q"])
    m = h.Module(name="Top")
    m.a = h.Signal(width=widths["a"])
    m.b = h.Signal(width=widths["b"])
    m.bb = B()
    tie = case.get("tie")
    if tie:
        # the referenced port is itself wired to a run of bits of the bus `a`: a reference to it stands for those bits (seed C03-r8-1)
        lo = tie["i0_q"][1]
        m.i0 = src(q=m.a[lo : lo + widths["i0.q"]])
    else:
        m.i0 = src()
    # (a port of an ExternalModule instance: its width is looked up in a port list, not in a module)
    ext = h.ExternalModule(name="ExtSrc", port_list=[h.Port(name="q", width=widths.get("e0.q", 1))], paramtype=h.HasNoParams)
    m.e0 = ext()()

    def mk(t):
        if t["k"] == "leaf":
            if t["kind"] == "bref":
                return m.bb.s if t["n"] == "bb.s" else m.bb.sub.s
            return {"a": m.a, "b": m.b}[t["n"]] if t["kind"] == "sig" else (m.i0.q if t["n"] == "i0.q" else m.e0.q)
        if t["k"] == "slice":
            return mk(t["p"])[idx_py(t["i"])]
        return h.Concat(*[mk(p) for p in t["ps"]])

    res = {}
    try:
        conn = mk(t)
    except Exception as e:
        return {"build": "reject", "exc": type(e).__name__}
    try:
        res["width"] = {"ok": h_width(conn)}
    except Exception as e:
        res["width"] = {"reject": type(e).__name__}
    W = case["sinkw"]
    narr = case.get("array")
    sink = h.Module(name="Sink")
    sink.p = h.Port(width=(W // narr) if narr else W)
    # (as an instance array wired element by element: element k takes the k-th run of the selection — what ArrayFlattener hands SliceResolver)
    m.u = (narr * sink(p=conn)) if narr else sink(p=conn)
    # keep every leaf alive/used so that the design is otherwise valid
    keep = h.Module(name="Keep")
    keep.x = h.Port(width=widths["i0.q"])
    m.k = keep(x=m.i0.q)
    keep2 = h.Module(name="Keep2")
    keep2.x = h.Port(width=widths.get("e0.q", 1))
    m.k2 = keep2(x=m.e0.q)
    try:
        pkg = h.to_proto(m)
    except Exception as e:
        res["export"] = {"reject": type(e).__name__, "msg": str(e)[-200:]}
        return res
    pm = observe.find_module(pkg, "Top")
    ws = observe.module_widths(pm)
    if narr:
        got = []
        for k in range(narr):
            inst = [i for i in pm.instances if i.name == f"u_{k}"][0]
            tgt = [c.target for c in inst.connections if c.portname == "p"][0]
            got += [[n, i] for (n, i) in observe.target_bits(tgt, ws)]
        res["export"] = {"ok": got, "sigw": ws}
        return res
    inst = [i for i in pm.instances if i.name == "u"][0]
    tgt = [c.target for c in inst.connections if c.portname == "p"][0]
    res["export"] = {"ok": [[n, i] for (n, i) in observe.target_bits(tgt, ws)], "sigw": ws}
    return res


def pair_family(w):
    """Exhaustive: Concat(s[i], s[j]) and s[i][j] for every pair of non-empty indices of a w-bit signal
    (ints, and ranges with bounds in {None, 0..w} and steps {None, -1, 2, -2})."""
    idxs = [{"i": i} for i in range(w)]
    bounds = [None] + list(range(0, w + 1))
    for s_, e_, st in itertools.product(bounds, bounds, [None, -1, 2, -2]):
        if py_select(w, slice(s_, e_, st)):
            idxs.append({"s": s_, "e": e_, "st": st})
    leaf = {"k": "leaf", "kind": "sig", "n": "a", "w": w}
    widths = {"a": w, "b": 1, "i0.q": 1, "bb.s": 1}
    for i, j in itertools.product(idxs, idxs):
        t = {"k": "concat", "ps": [{"k": "slice", "p": leaf, "i": i}, {"k": "slice", "p": leaf, "i": j}]}
        yield {"tree": t, "widths": widths, "sinkw": len(py_bits(t))}
        t2 = {"k": "slice", "p": {"k": "slice", "p": leaf, "i": i}, "i": j}
        b2 = py_bits(t2)
        if b2:
            yield {"tree": t2, "widths": widths, "sinkw": len(b2)}


def stride_family(ws=(6, 7)):
    """Exhaustive: every int index and unit-step range (incl. out-of-range ones) of a strided or offset parent slice of a
    wide signal and of a deep bundle member — `a[0:8:2][1:3]`, `a[2:5][3]`, `bb.sub.s[1::2][-1]`."""
    for w in ws:
        widths = {"a": w, "b": 1, "i0.q": 1, "bb.s": 2, "bb.sub.s": w}
        for leafname, kind in (("a", "sig"), ("bb.sub.s", "bref")):
            leaf = {"k": "leaf", "kind": kind, "n": leafname, "w": w}
            parents = [{"s": s_, "e": e_, "st": st} for st in (2, 3, -2, -3, None) for s_ in (None, 0, 1, 2) for e_ in (None, w - 1)]
            for pidx in parents:
                pb = py_select(w, slice(pidx["s"], pidx["e"], pidx["st"]))
                if not pb or len(pb) < 2 or (pidx["st"] is None and pidx["s"] in (None, 0)):
                    continue
                pw = len(pb)
                kids = [{"i": i} for i in range(-pw - 1, pw + 2)] + [{"s": s_, "e": e_, "st": None} for s_ in range(0, pw) for e_ in range(s_ + 1, pw + 2)]
                for cidx in kids:
                    t = {"k": "slice", "p": {"k": "slice", "p": leaf, "i": pidx}, "i": cidx}
                    b = py_bits(t)
                    yield {"tree": t, "widths": widths, "sinkw": len(b) if b else 1}


def chain_family(w=8):
    """Slices of slices of slices (and one level more): every level with its own offset, some reversed, the last an integer or a range."""
    leaves = [{"k": "leaf", "kind": "sig", "n": "a", "w": w}, {"k": "leaf", "kind": "pref", "n": "e0.q", "w": w}]
    widths = {"a": w, "b": 1, "i0.q": 1, "bb.s": 1, "e0.q": w}
    firsts = [{"s": 1, "e": w, "st": None}, {"s": 0, "e": w - 1, "st": None}, {"s": None, "e": None, "st": -1}, {"s": 2, "e": None, "st": None}]
    seconds = [{"s": 2, "e": 5, "st": None}, {"s": 1, "e": None, "st": None}, {"s": 4, "e": 0, "st": -1}, {"s": 0, "e": 4, "st": None}]
    thirds = [{"i": 0}, {"i": 1}, {"i": -1}, {"s": 1, "e": 3, "st": None}, {"s": None, "e": None, "st": -1}]
    for k, (i1, i2, i3) in enumerate(itertools.product(firsts, seconds, thirds)):
        t = {"k": "slice", "p": {"k": "slice", "p": {"k": "slice", "p": leaves[k % 2], "i": i1}, "i": i2}, "i": i3}
        b = py_bits(t)
        if b:
            yield {"tree": t, "widths": widths, "sinkw": len(b)}
            if len(b) > 1:
                t4 = {"k": "slice", "p": t, "i": {"i": len(b) - 1}}
                yield {"tree": t4, "widths": widths, "sinkw": 1}


def invalid_part_family():
    """An index that must be refused, as a part of a concatenation — also where a slice of the concatenation takes only the
    valid part: asking for the width, and elaborating, must raise."""
    for w in (2, 3):
        a = {"k": "leaf", "kind": "sig", "n": "a", "w": w}
        b = {"k": "leaf", "kind": "sig", "n": "b", "w": 2}
        widths = {"a": w, "b": 2, "i0.q": 1, "bb.s": 1, "e0.q": 1}
        for bad in ({"i": w}, {"i": -w - 1}, {"i": 2 * w}, {"s": 1, "e": 1, "st": None}, {"s": w, "e": w + 2, "st": None}):
            part = {"k": "slice", "p": a, "i": bad}
            for t in ({"k": "concat", "ps": [b, part]}, {"k": "concat", "ps": [part, b]},
                      {"k": "slice", "p": {"k": "concat", "ps": [b, part]}, "i": {"s": 0, "e": 2, "st": None}},
                      {"k": "slice", "p": {"k": "concat", "ps": [b, part]}, "i": {"i": 0}},
                      {"k": "slice", "p": {"k": "concat", "ps": [part, b]}, "i": {"s": -2, "e": None, "st": None}}):
                yield {"tree": t, "widths": widths, "sinkw": 2 if t["k"] == "slice" and "s" in t["i"] else (1 if t["k"] == "slice" else 3)}


def concat_slice_family(quick=True):
    """Exhaustive: every integer index and every range (bounds None / -w..w, steps None, -1, 2, -2) of a 5-bit concatenation,
    for three layouts of its parts — whole signals, a slice as a part, three parts with a port reference in the middle.
    Ranges that land wholly inside one part, straddle two, run backwards, or take the concatenation whole are all in it."""
    a2, b3 = {"k": "leaf", "kind": "sig", "n": "a", "w": 2}, {"k": "leaf", "kind": "sig", "n": "b", "w": 3}
    a4, b2 = {"k": "leaf", "kind": "sig", "n": "a", "w": 4}, {"k": "leaf", "kind": "sig", "n": "b", "w": 2}
    b1, q2 = {"k": "leaf", "kind": "sig", "n": "b", "w": 1}, {"k": "leaf", "kind": "pref", "n": "i0.q", "w": 2}
    layouts = [
        ({"k": "concat", "ps": [a2, b3]}, {"a": 2, "b": 3, "i0.q": 1, "bb.s": 1, "e0.q": 1}),
        ({"k": "concat", "ps": [{"k": "slice", "p": a4, "i": {"s": 1, "e": 4, "st": None}}, b2]}, {"a": 4, "b": 2, "i0.q": 1, "bb.s": 1, "e0.q": 1}),
        ({"k": "concat", "ps": [b1, q2, a2]}, {"a": 2, "b": 1, "i0.q": 2, "bb.s": 1, "e0.q": 1}),
    ]
    w = 5
    bounds = [None] + list(range(-w, w + 1))
    for parent, widths in (layouts[:2] if quick else layouts):
        seen = set()
        idxs = [{"i": i} for i in range(-w, w)]
        for st in (None, -1, 2, -2):
            for s_, e_ in itertools.product(bounds, bounds):
                sel = py_select(w, slice(s_, e_, st))
                if not sel:
                    continue
                # in the quick tier one spelling per (selected bits, sign of each bound); all spellings in the thorough tier
                key = (tuple(sel), st, s_ is None, e_ is None, (s_ or 0) < 0, (e_ or 0) < 0)
                if quick and key in seen:
                    continue
                seen.add(key)
                idxs.append({"s": s_, "e": e_, "st": st})
        for i in idxs:
            t = {"k": "slice", "p": parent, "i": i}
            b = py_bits(t)
            if b:
                yield {"tree": t, "widths": widths, "sinkw": len(b)}


def tie_bits(bits, tie):
    """the bits a tree denotes once a referenced port stands for the run of bus bits it is wired to"""
    if not tie or bits is None:
        return bits
    return [((tie[n][0], tie[n][1] + i) if n in tie else (n, i)) for (n, i) in bits]


def array_family():
    """Every selection of 2, 4 or 6 bits of an 8-bit bus by a plain, strided or reversed slice (direct and nested once), wired element by element to an
    instance array of 2 (seed C03-r9-1: the stride forgotten when the array's share is cut out)."""
    widths = {"a": 8, "b": 1, "i0.q": 1, "bb.s": 1, "bb.sub.s": 1, "e0.q": 1}
    leaf = {"k": "leaf", "kind": "sig", "n": "a", "w": 8}
    idxs = [{"s": a, "e": b, "st": st} for st in (None, 2, 3, -1, -2) for a in (None, 0, 1, 7, 6) for b in (None, 0, 4, 7, 8)]
    seen = set()
    for i in idxs:
        for t in ({"k": "slice", "p": leaf, "i": i}, {"k": "slice", "p": {"k": "slice", "p": leaf, "i": i}, "i": {"s": 0, "e": None, "st": None}}):
            bits = py_bits(t)
            if bits and len(bits) in (2, 4, 6) and json.dumps(t) not in seen:
                seen.add(json.dumps(t))
                yield {"tree": t, "widths": widths, "sinkw": len(bits), "array": 2}


def repeat_family():
    """Concatenations in which the very same object stands twice — Concat(a, a), Concat(x, b, x) — and every window of them
    (seed C03-r9-2: part offsets looked up by object identity)."""
    widths = {"a": 4, "b": 2, "i0.q": 1, "bb.s": 1, "bb.sub.s": 1, "e0.q": 1}
    A = {"k": "leaf", "kind": "sig", "n": "a", "w": 4}
    B = {"k": "leaf", "kind": "sig", "n": "b", "w": 2}
    for parts in ([A, A], [A, B, A], [B, A, A], [A, A, A]):
        cat = {"k": "concat", "ps": parts}
        w = sum(p["w"] for p in parts)
        for lo in range(w):
            for hi in range(lo + 1, w + 1):
                t = {"k": "slice", "p": cat, "i": {"s": lo, "e": hi, "st": None}}
                yield {"tree": t, "widths": widths, "sinkw": hi - lo}


def tied_ref_family():
    """Exhaustive: every integer index and every unit-step range of a reference to a 4-bit port that is wired to a[lo:lo+4] of an 8-bit bus."""
    widths = {"a": 8, "b": 1, "i0.q": 4, "bb.s": 1, "bb.sub.s": 1, "e0.q": 1}
    leaf = {"k": "leaf", "kind": "pref", "n": "i0.q", "w": 4}
    idxs = [{"i": i} for i in range(-4, 4)] + [{"s": a, "e": b, "st": None} for a in (None, -4, -2, 0, 1, 3) for b in (None, -1, 2, 4)]
    for lo in (0, 2, 4):
        for i in idxs:
            t = {"k": "slice", "p": leaf, "i": i}
            bits = py_bits(t)
            if bits:
                yield {"tree": t, "widths": widths, "sinkw": len(bits), "tie": {"i0_q": ["a", lo]}}


def stream_b(ctx):
    rep, rng = ctx.rep, ctx.rng
    n = 400 if ctx.quick else 6000
    cases = list(pair_family(3)) + ([] if ctx.quick else list(pair_family(4))) + list(stride_family((6,) if ctx.quick else (6, 7)))
    cases += list(chain_family(8)) + ([] if ctx.quick else list(chain_family(7))) + list(invalid_part_family())
    cases += list(concat_slice_family(ctx.quick))
    rep.extra["pair_family"] = len(cases)
    for k in range(n):
        widths = {"a": rng.randint(1, 5), "b": rng.randint(1, 4), "i0.q": rng.randint(1, 4), "bb.s": rng.randint(1, 4), "bb.sub.s": rng.randint(1, 6),
                  "e0.q": rng.randint(1, 5)}
        t = rand_tree(rng, rng.choice([1, 2, 2, 3, 3]), widths)
        bits = py_bits(t)
        case = {"tree": t, "widths": widths, "sinkw": len(bits) if bits else 1}
        if widths["i0.q"] <= widths["a"] and rng.random() < 0.35:
            case["tie"] = {"i0_q": ["a", rng.randint(0, widths["a"] - widths["i0.q"])]}
        cases.append(case)
    cases += list(tied_ref_family()) + list(array_family()) + list(repeat_family())
    impls = pmap(build_and_export, cases, chunk=16)
    outs = ctx.drv.run([{"prop": "C03", "op": "resolve", "conn": to_model(c["tree"])} for c in cases])
    stats = {"valid": 0, "invalid": 0, "exported": 0, "export_refused_stepped": 0}
    for c, impl, out in zip(cases, impls, outs):
        case = {"stream": "B", **c}
        bits = py_bits(c["tree"])
        rep.count("B:nested", json.dumps([c["tree"], c.get("tie")]), nontrivial=c["tree"]["k"] != "leaf")
        # oracle: Lean `denote` is Python list semantics
        md = out["denote"].get("ok")
        if (md is None) != (bits is None) or (md is not None and [tuple(x) for x in md] != bits):
            rep.fail("oracle", case, {"lean_denote": out["denote"], "python": bits})
            continue
        # theorem instance, executed: resolution preserves the bits
        if bits is not None and "ok" in out["resolved"]:
            if out["resolved_denote"] != out["denote"] or out["exportable"] is not True:
                rep.fail("oracle", case, {"model_resolve_changed_bits": out})
        if "build" in impl:
            rep.fail("corr", case, {"impl": impl})
            continue
        if bits is None:
            stats["invalid"] += 1
            # must be rejected somewhere (width or elaboration) — never exported
            if "ok" in impl["export"]:
                got = impl["export"]["ok"]
                sigw = impl["export"]["sigw"]
                bad = [b for b in got if not (0 <= b[1] < sigw.get(b[0], 0))]
                rep.fail("pred", case, {"why": "invalid index/empty slice exported", "exported": got, "out_of_range": bad})
            elif "ok" in impl["width"] and not beyond_only(c["tree"]):
                rep.fail("pred", case, {"why": "an index that must be refused was still accepted when the width was asked for", "impl": impl["width"]})
            continue
        stats["valid"] += 1
        if impl["width"] != {"ok": len(bits)}:
            rep.fail("pred", case, {"why": "reported width differs from number of selected bits", "impl": impl["width"], "bits": len(bits)})
        if "ok" in impl["export"]:
            stats["exported"] += 1
            got = [tuple(x) for x in impl["export"]["ok"]]
            want = tie_bits(bits, c.get("tie"))
            if got != want:
                rep.fail("pred", case, {"why": "exported connection selects other bits", "exported": got, "python": want})
        else:
            stepped = "non-unit step" in impl["export"].get("msg", "")
            model_ok = "ok" in out["resolved"]
            if stepped and not unit_only(c["tree"]):
                stats["export_refused_stepped"] += 1
            elif unit_only(c["tree"]):
                rep.fail("pred", case, {"why": "valid unit-step indexing rejected at elaboration", "impl": impl["export"]})
            elif model_ok:
                rep.fail("corr", case, {"impl": impl["export"], "model": out["resolved"]})
    rep.sample({"stream": "B", "tree": cases[0]["tree"], "impl": impls[0], "model_denote": outs[0]["denote"]})
    rep.extra["nested"] = stats


def corpus(ctx):
    """Minimised past failures (the pinned tree's witnesses) always run first."""
    rep = ctx.rep
    a_cases = [(4, {"s": 1, "e": None, "st": 2}), (4, {"s": 3, "e": 1, "st": -1}), (4, {"i": -5}),
               (4, {"s": 0, "e": 10, "st": None}), (4, {"s": 2, "e": 2, "st": None}), (4, {"s": 4, "e": 5, "st": None})]
    outs = ctx.drv.run([{"prop": "C03", "op": "slice_inner", "w": w, "idx": ij} for (w, ij) in a_cases])
    for (w, ij), out in zip(a_cases, outs):
        impl = impl_inner((w, ij))
        py = py_select(w, idx_py(ij))
        rep.count("corpus", json.dumps([w, ij]))
        why = judge_inner(w, ij, impl, py)
        if why:
            rep.fail("pred", {"stream": "corpus", "w": w, "idx": ij}, {"why": why, "impl": impl, "python": py})


def stale_case(c):
    """`sl = s[idx]` resolves its index while `s` is w0 bits wide; then `s` is narrowed to w1. Whatever comes back from the export
    names bits of the signal as it is: refused, or inside [0, w1) and as wide as the port."""
    w0, w1, ij, in_concat = c
    m = h.Module(name="Stale")
    m.s = h.Signal(width=w0)
    m.t = h.Signal(width=1)
    sl = m.s[idx_py(ij)]
    try:
        n = sl.width
    except Exception:  # noqa
        return {"unresolvable": True}
    if n == 0:
        return {"unresolvable": True}
    pw = n + (1 if in_concat else 0)
    E = h.ExternalModule(name=f"StaleE{pw}", port_list=[h.Port(name="q", width=pw)])
    m.e = E()(q=h.Concat(m.t, sl) if in_concat else sl)
    m.s.width = w1
    try:
        pkg = h.to_proto(m)
    except Exception as ex:  # noqa
        return {"refused": type(ex).__name__}
    pm = [x for x in pkg.modules if x.name.endswith("Stale")][0]
    ws = {sg.name: sg.width for sg in pm.signals}
    out, total = [], 0

    def walk(t):
        nonlocal total
        k = t.WhichOneof("stype")
        if k == "sig":
            out.append([t.sig, ws.get(t.sig, 0) - 1, 0]); total += ws.get(t.sig, 0)
        elif k == "slice":
            out.append([t.slice.signal, t.slice.top, t.slice.bot]); total += t.slice.top - t.slice.bot + 1
        else:
            for q in t.concat.parts:
                walk(q)
    walk(pm.instances[0].connections[0].target)
    return {"parts": out, "total": total, "port": pw, "widths": ws}


def stale_slices(ctx):
    rep = ctx.rep
    cases = []
    for w0 in (2, 3, 5, 8):
        idxs = [{"i": i} for i in range(-w0, w0)] + [{"s": a, "e": b, "st": None} for a in range(w0) for b in range(a + 1, w0 + 1)]
        for ij in idxs:
            for w1 in range(1, w0):
                cases.append((w0, w1, ij, (w0 + w1 + len(json.dumps(ij))) % 3 == 0))
    if ctx.quick:
        cases = [c for k, c in enumerate(cases) if c[0] <= 5 or k % 3 == 0]
    for c, r in zip(cases, pmap(stale_case, cases, chunk=32)):
        rep.count("stale", json.dumps(c), nontrivial="parts" in r)
        if "parts" not in r:
            continue
        bad = [q for q in r["parts"] if not (0 <= q[2] <= q[1] < r["widths"].get(q[0], 0))]
        if bad or r["total"] != r["port"]:
            rep.fail("pred", {"stream": "stale", "c": list(c)}, {"why": f"a slice taken of a {c[0]}-bit signal, resolved, and exported after the signal was narrowed to {c[1]} bits names bits "
                                                                        f"outside the signal (or not the port's width {r['port']}): {r['parts']}", "result": r})


def run(ctx):
    ctx.rep.extra["rule"] = (
        "A: exhaustive box of (width, index) on Signal[...]; B: random trees of Slice/Concat over "
        "Signal/PortRef/BundleRef leaves (depth<=3), exported and read back; a case is non-trivial "
        "unless it is a bare leaf; distinct = distinct JSON of the case"
    )
    ctx.rep.extra["exhaustive"] = False
    corpus(ctx)
    stream_a(ctx)
    stream_b(ctx)
    stale_slices(ctx)


def replay(ctx, rp):
    case = rp["case"]
    if case.get("stream") == "stale":
        c = case["c"]
        r = stale_case((c[0], c[1], c[2], c[3]))
        print(json.dumps(r))
        if "parts" in r and (r["total"] != r["port"] or [q for q in r["parts"] if not (0 <= q[2] <= q[1] < r["widths"].get(q[0], 0))]):
            print(f"VIOLATION property=C03 replay={ctx_replay_path(rp)}")
            return 1
        return 0
    if case.get("stream") in ("A", "corpus"):
        w, ij = case["w"], case["idx"]
        impl = impl_inner((w, ij))
        py = py_select(w, idx_py(ij))
        why = judge_inner(w, ij, impl, py)
        print(json.dumps({"impl": impl, "python": py, "verdict": why or "holds"}))
        if why:
            print(f"VIOLATION property=C03 replay={ctx_replay_path(rp)}")
            return 1
        return 0
    impl = build_and_export(case)
    bits = py_bits(case["tree"])
    print(json.dumps({"impl": impl, "python": bits}, default=str))
    ok = ("ok" in impl.get("export", {})) and bits is not None and [tuple(x) for x in impl["export"]["ok"]] == bits
    ok = ok or (bits is None and "reject" in impl.get("export", {}))
    return 0 if ok else 1


def ctx_replay_path(rp):
    return rp.get("_path", "<replay>")
