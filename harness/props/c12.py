"""C12 — output is reproducible across processes.

Every generated design (and corpus designs where one bundle feeds several ports of an instance, reference fans, shared
no-connects, generated module names) is built, exported and netlisted (spice, spectre, verilog) in N fresh interpreters with
different PYTHONHASHSEED values, each with a random amount of unrelated allocation and elaboration first; the serialized
packages and netlist texts must be identical across all of them.
"""
import json
import os
import subprocess
import sys
import tempfile

import common
import designs

ASSUMPTIONS = [
    "CPython's id()- and seed-based hashing and allocation history are not modelled: they are exercised by running N interpreters; the "
    "Lean theorem is about iteration-order independence of everything routed through portref.ordered()",
]
TRUSTED = ["subprocess isolation (one interpreter per hash seed)"]
WORKER = os.path.join(os.path.dirname(os.path.dirname(os.path.abspath(__file__))), "c12_worker.py")


PROGRAMS = [f"{g}_{u}" for u in ("r_lit", "r_num", "c_pre", "ext", "cell") for g in ("G", "Series", "Wrapper")] + \
    [f"{g}_{u}" for u in ("mos_n", "mos_p") for g in ("MosStack", "Series")] + ["long_scalar_names", "set_valued_params", "uncached_generator", "uncached_generator_direct", "tops_list", "tops_list_rev", "nested_set_params", "after_other_spelling"]


def corpus():
    lf = lambda n, w: {"n": n, "w": w, "port": False, "dir": "none", "src": None, "dest": None, "kind": "plain"}
    bdef = {"name": "B", "tree": {"sigs": [lf("x", 1), lf("y", 1)], "subs": []}}
    E = {"k": "leaf", "kind": ".E9", "ports": [{"n": "q", "w": 1}, {"n": "r", "w": 1}], "params": [], "py": {"k": "ext", "name": "E9"}}
    inner = {"name": "Inner", "sigs": [], "bundles": [{"n": f"b{k}", "of": "B", "port": True} for k in range(1, 5)],
             "insts": [{"n": f"e{k}", "of": E, "conns": [["q", {"k": "bref", "root": f"b{k}", "path": ["x"]}], ["r", {"k": "bref", "root": f"b{k}", "path": ["y"]}]]} for k in range(1, 5)]}
    top = {"name": "Top", "sigs": [], "bundles": [{"n": "b", "of": "B", "port": False}],
           "insts": [{"n": "i", "of": {"k": "module", "name": "Inner"}, "conns": [[f"b{k}", {"k": "bundle", "n": "b"}] for k in range(1, 5)]}]}
    d = {"bundles": [bdef], "modules": [inner, top], "top": "Top"}
    out = [{"design": d, "style": s} for s in ("proc", "gen")]
    # one AnonymousBundle object feeding several bundle ports of one instance (and of two instances)
    S = lambda n: {"k": "sig", "n": n}
    sg = lambda n, w=1: {"n": n, "w": w, "port": False, "dir": "none"}
    ab = {"k": "anon", "id": 1, "fields": [["x", S("s1")], ["y", S("s2")]]}
    top2 = {"name": "Top", "sigs": [sg("s1"), sg("s2")], "bundles": [],
            "insts": [{"n": "i", "of": {"k": "module", "name": "Inner"}, "conns": [[f"b{k}", ab] for k in (3, 1, 4, 2)]},
                      {"n": "j", "of": {"k": "module", "name": "Inner"}, "conns": [[f"b{k}", ab] for k in (2, 4)] + [[f"b{k}", {"k": "anon", "fields": ab["fields"]}] for k in (1, 3)]}]}
    out += [{"design": {"bundles": [bdef], "modules": [inner, top2], "top": "Top"}, "style": s} for s in ("proc", "class")]
    # one reference to a sub-bundle feeding several bundle-valued ports of one instance (resolved when the outer bundle is flattened)
    bo = {"name": "BO", "tree": {"sigs": [lf("z", 1)], "subs": [{"n": "sub", "flip": False, "role": None, "of": {"sigs": [lf("x", 1), lf("y", 1)], "subs": []}}]}}
    sref = {"k": "bref", "root": "bb", "path": ["sub"]}
    top3 = {"name": "Top", "sigs": [], "bundles": [{"n": "bb", "of": "BO", "port": False}],
            "insts": [{"n": "i", "of": {"k": "module", "name": "Inner"}, "conns": [[f"b{k}", dict(sref)] for k in (2, 4, 1, 3)]}]}
    out += [{"design": {"bundles": [bdef, bo], "modules": [inner, top3], "top": "Top"}, "style": s} for s in ("proc", "class")]
    # ports of one instance whose names differ in case only, fed by one bundle (a key that folds case no longer tells them apart)
    cnames = ["D", "d", "Dd", "dD", "dd"]
    inner_c = {"name": "InnerC", "sigs": [], "bundles": [{"n": nm, "of": "B", "port": True} for nm in cnames],
               "insts": [{"n": f"e{k}", "of": E, "conns": [["q", {"k": "bref", "root": nm, "path": ["x"]}], ["r", {"k": "bref", "root": nm, "path": ["y"]}]]} for k, nm in enumerate(cnames)]}
    top_c = {"name": "Top", "sigs": [], "bundles": [{"n": "b", "of": "B", "port": False}],
             "insts": [{"n": "i", "of": {"k": "module", "name": "InnerC"}, "conns": [[nm, {"k": "bundle", "n": "b"}] for nm in ("dd", "D", "dD", "d", "Dd")]},
                       {"n": "I", "of": {"k": "module", "name": "InnerC"}, "conns": [[nm, {"k": "bundle", "n": "b"}] for nm in cnames]}]}
    out += [{"design": {"bundles": [bdef], "modules": [inner_c, top_c], "top": "Top"}, "style": s} for s in ("proc", "gen")]
    # groups of port references with no declared signal, where several ports of one instance hang on the same reference: the implicit
    # signal's name must not depend on which of them is met first
    E4 = {"k": "leaf", "kind": ".E4", "ports": [{"n": p, "w": 1} for p in ("p", "q", "r", "w")], "params": [], "py": {"k": "ext", "name": "E4"}}
    P = lambda i, p: {"k": "pref", "inst": i, "port": p}
    for variant in range(4):
        insts = [{"n": "z", "of": E4, "conns": [["p", P("y", "w")], ["q", S("s1")], ["r", S("s1")], ["w", S("s2")]]},
                 {"n": "y", "of": E4, "conns": [["w", P("z", "p")], ["p", S("s1")], ["q", S("s1")], ["r", S("s2")]]},
                 {"n": "a", "of": E4, "conns": [["p", P("z", "p")], ["q", P("z", "p")], ["r", P("y", "w") if variant % 2 else P("z", "p")], ["w", S("s2")]]},
                 {"n": "b", "of": E4, "conns": [["q", P("a", "w") if variant >= 2 else S("s2")], ["r", P("z", "p")], ["p", P("z", "p")], ["w", P("z", "p")]]}]
        if variant == 3:
            insts.reverse()
        out.append({"design": {"bundles": [], "top": "Top", "modules": [{"name": "Top", "sigs": [sg("s1"), sg("s2")], "bundles": [], "insts": insts}]}, "style": "proc"})
    return out


def run(ctx):
    rep, rng = ctx.rep, ctx.rng
    rep.extra["rule"] = (
        "generated designs in 3 styles (top alone, and all modules as a list of tops) + corpus (one bundle feeding four ports of an instance) "
        "+ generator programs (non-scalar parameter classes over primitive / external / module units, Series, MosStack, Wrapper, lists of tops); N interpreters with PYTHONHASHSEED = "
        "1..N (N=8 quick, 48 thorough) and random unrelated allocation/elaboration; digests of package bytes and spice/spectre/verilog "
        "text compared across all N; distinct = distinct design JSON; non-trivial = exports in all interpreters"
    )
    n = 60 if ctx.quick else 400
    nseeds = 8 if ctx.quick else 48
    cases = corpus() + designs.gen_cases(rng, n) + [{"program": name} for name in PROGRAMS]
    with tempfile.TemporaryDirectory(prefix="c12_") as td:
        f = os.path.join(td, "cases.json")
        json.dump(cases, open(f, "w"))
        procs = []
        for s in range(1, nseeds + 1):
            env = dict(os.environ, PYTHONHASHSEED=str(s))
            procs.append(subprocess.Popen([sys.executable, WORKER, f, str(ctx.seed * 1000 + s)], stdout=subprocess.PIPE, stderr=subprocess.PIPE, env=env, text=True))
        outs = []
        for p in procs:
            o, e = p.communicate(timeout=3000)
            if p.returncode != 0:
                raise RuntimeError(f"c12 worker failed: {e[-500:]}")
            outs.append(json.loads(o.strip().splitlines()[-1]))
    differing = 0
    for k, c in enumerate(cases):
        results = [o[k] for o in outs]
        rep.count("designs", json.dumps(c.get("design") or c["program"]), nontrivial=all("pkg" in r for r in results), n=1)
        if any(r != results[0] for r in results):
            differing += 1
            kinds = sorted({key for r in results for key in r if any(r2.get(key) != results[0].get(key) for r2 in results)})
            rep.fail("pred", {"stream": "designs", "case": c}, {"why": f"output differs between processes in: {kinds}",
                     "digests": [r.get("pkg") or r.get("error") for r in results]})
    rep.extra["interpreters"] = nseeds
    rep.extra["differing"] = differing
    rep.extra["programs"] = len(PROGRAMS)
    rep.extra["program_digests"] = {name: outs[0][len(cases) - len(PROGRAMS) + k] for k, name in enumerate(PROGRAMS)}
    rep.sample({"design_modules": [m["name"] for m in cases[0]["design"]["modules"]], "digests": [o[0] for o in outs][:3]})


def replay(ctx, rp):
    c = rp["case"]["case"]
    import tempfile
    with tempfile.TemporaryDirectory(prefix="c12_") as td:
        f = os.path.join(td, "cases.json")
        json.dump([c], open(f, "w"))
        res = []
        for s in range(1, 9):
            o = subprocess.run([sys.executable, WORKER, f, str(s)], capture_output=True, text=True, env=dict(os.environ, PYTHONHASHSEED=str(s)))
            res.append(json.loads(o.stdout.strip().splitlines()[-1])[0])
    print(json.dumps(res))
    if any(r != res[0] for r in res):
        print(f"VIOLATION property=C12 replay={rp.get('_path')}")
        return 1
    return 0
