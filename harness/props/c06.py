"""C06 — every exported package is closed and self-consistent.

Every package any successful to_proto call returns — from the design generator (well-formed or not by the model),
the repository's examples, the built-in generators over their parameter ranges, and PDK-compiled designs — is
judged by the Lean predicate `WFpkg` (Pkg.lean `problems`), must be accepted by `from_proto`, and must be netlisted
by the vlsirtools spice and spectre netlisters.
"""
import io
import json
import sys
import os

import common
import designs
import observe

h = common.repo_env()

ASSUMPTIONS = [
    "netlister acceptance is required for packages whose leaves are ideal primitives, external modules and PDK devices; vlsirtools "
    "refuses *physical* generic primitives by design (compile to a technology first) — that refusal is not a defect of the package",
    "netlists have one flat name space: vlsirtools refuses two external modules of one name in different domains although the package "
    "(qualified names) is closed; from_proto and the Lean WFpkg still judge such packages",
]
TRUSTED = ["observe.pkg_json (package -> JSON)"]


def accept(pkg):
    acc = {}
    try:
        h.from_proto(pkg)
        acc["from_proto"] = "ok"
    except Exception as ex:  # noqa
        acc["from_proto"] = common.errstr(ex)
    for fmt in ("spice", "spectre"):
        try:
            h.netlist(pkg, io.StringIO(), fmt=fmt)
            acc[fmt] = "ok"
        except Exception as ex:  # noqa
            acc[fmt] = common.errstr(ex)
    return acc


def export_list(case):
    import random
    import build

    rng = random.Random(case["order_seed"])
    try:
        b = build.build(case["design"], "proc")
        names = [m["name"] for m in case["design"]["modules"]]
        k = rng.randint(2, len(names))
        tops = rng.sample(names, k)
        pkg = h.to_proto([b.modules[n] for n in tops])
    except Exception as ex:  # noqa
        return {"reject": str(ex)[-100:]}
    return {"pkg": observe.pkg_json(pkg), "accept": accept(pkg), "tops": tops}


def judge_pkg(rep, stream, label, pj, acc, problems):
    case = {"stream": stream, "label": label}
    rep.count(stream, label)
    if problems:
        rep.fail("pred", case, {"why": "package is not well-formed", "problems": problems[:8], "pkg": pj})
    for k, v in acc.items():
        if v != "ok" and "physical `hdl21.Primitive`" not in v and "Invalid Primitive" not in v and "Conflicting ExternalModule definitions" not in v:
            rep.fail("pred", case, {"why": f"{k} does not accept the package", "error": v})


def lean_problems(ctx, pjs):
    outs = ctx.drv.run([{"prop": "SEM", "op": "sem", "top": "x", "pkg": pj, "pkg_top": pj["modules"][-1]["name"] if pj["modules"] else "x"} for pj in pjs])
    return [o["wf_problems"] for o in outs]


def builtin_packages(ctx):
    """Series / MosStack / Wrapper over parameter ranges; the examples; sample-PDK compiled designs."""
    out = []
    from hdl21.generators import Series, MosStack, Wrapper

    @h.module
    class Unit:
        a, b, c = h.Ports(3)
        bus = h.Port(width=3)
        r = h.R(r=1)(p=a, n=b)

    E = h.ExternalModule(name="E", port_list=[h.Port(name="x"), h.Port(name="y"), h.Port(name="z", width=2)], paramtype=h.HasNoParams)
    for n in ([1, 2, 3, 5] if ctx.quick else range(1, 13)):
        for tag, mk in [("series_unit", lambda: Series(unit=Unit, nser=n, conns=("a", "b"))),
                        ("series_ext", lambda: Series(unit=E(), nser=n, conns=("x", "y"))),
                        ("series_res", lambda: Series(unit=h.R(r=n), nser=n, conns=("p", "n"))),
                        ("mosstack", lambda: MosStack(nser=n))]:
            out.append((f"{tag}:{n}", mk))
    out.append(("wrapper_unit", lambda: Wrapper(Unit)))
    out.append(("wrapper_ext", lambda: Wrapper(E())))
    # objects whose kind changes after they were added: a signal promoted to a port (and back), re-added under its name
    def promoted(demote):
        from hdl21.signal import Visibility, PortDir

        def mk():
            inner = h.Module(name="Promoted" + ("D" if demote else ""))
            inner.inp = h.Input(width=2)
            out_ = inner.add(h.Signal(name="out", width=2))
            inner.r = h.R(r=1)(p=inner.inp[0], n=out_[0])
            out_.vis = Visibility.PORT
            out_.direction = PortDir.OUTPUT
            inner.add(out_)
            if demote:
                inner.inp.vis = Visibility.INTERNAL
                inner.inp.direction = PortDir.NONE
                inner.add(inner.inp)
            top = h.Module(name="PromTop" + ("D" if demote else ""))
            top.a, top.b = h.Signal(width=2), h.Signal(width=2)
            top.i = inner(out=top.b) if demote else inner(inp=top.a, out=top.b)
            return top
        return mk
    out.append(("promoted_signal", promoted(False)))
    out.append(("promoted_and_demoted", promoted(True)))
    return out


def examples_packages():
    """Run each example's main() with ProtoExporter.export hooked to collect every package it exports."""
    import importlib

    pkgs = []
    exporting = importlib.import_module("hdl21.proto.exporting")
    orig = exporting.ProtoExporter.export

    def hooked(self):
        p = orig(self)
        pkgs.append(p)
        return p

    exporting.ProtoExporter.export = hooked
    errors = {}
    sys.path.insert(0, str(common.REPO))
    try:
        for name in ("ro", "rdac", "encoder", "diff_ota", "idac", "bundles", "mos_sim"):
            try:
                mod = importlib.import_module(f"examples.{name}")
                sys.stdout.flush()
                saved = os.dup(1)
                devnull = os.open(os.devnull, os.O_WRONLY)
                os.dup2(devnull, 1)
                try:
                    mod.main()
                finally:
                    sys.stdout.flush()
                    os.dup2(saved, 1)
                    os.close(saved)
                    os.close(devnull)
            except BaseException as ex:  # noqa
                errors[name] = f"{type(ex).__name__}: {str(ex)[:120]}"
    finally:
        exporting.ProtoExporter.export = orig
    return pkgs, errors


def pdk_packages():
    out = []
    import hdl21.pdk.sample_pdk as sample

    @h.module
    class Inv:
        i, o, VDD, VSS = h.Ports(4)
        p = h.Pmos(w=1, l=1)(d=o, g=i, s=VDD, b=VDD)
        n = h.Nmos(w=1, l=1)(d=o, g=i, s=VSS, b=VSS)

    @h.module
    class Buf:
        i, o, VDD, VSS = h.Ports(4)
        m = h.Signal()
        a = Inv(i=i, o=m, VDD=VDD, VSS=VSS)
        b = Inv(i=m, o=o, VDD=VDD, VSS=VSS)

    def mk():
        sample.compile(Buf)
        return Buf

    out.append(("sample_pdk_buf", mk))
    return out


def hconn(c):
    """an elaborated connectable in the JSON form of the Lean `SConn`"""
    if isinstance(c, h.Signal):
        return {"k": "sig", "n": c.name, "w": c.width}
    if isinstance(c, h.Slice):
        idx = c.index
        i = {"i": idx} if isinstance(idx, int) else {"s": idx.start, "e": idx.stop, "st": idx.step}
        return {"k": "slice", "p": hconn(c.parent), "i": i}
    if isinstance(c, h.Concat):
        return {"k": "concat", "ps": [hconn(p) for p in c.parts]}
    return {"k": "other:" + type(c).__name__}


def hmodule_json(m):
    """what elaboration left in a Module: internal signals and ports (dict order), instances with their connections"""
    return {"signals": [[s.name, s.width] for s in m.signals.values()],
            "ports": [[s.name, s.width, s.direction.name] for s in m.ports.values()],
            "instances": [{"n": i.name, "conns": [[pn, hconn(c)] for pn, c in i.conns.items()]} for i in m.instances.values()]}


def elaborated_modules(top):
    """{qualified name: Module} below `top`"""
    from hdl21.qualname import qualname

    out, todo = {}, [top]
    while todo:
        m = todo.pop()
        if qualname(m) in out:
            continue
        out[qualname(m)] = m
        todo += [i.of for i in m.instances.values() if isinstance(i.of, h.Module)]
    return out


def impl_export_model(case):
    import build

    try:
        b = build.build(case["design"], case.get("style", "proc"))
        h.elaborate(b.top)
        mods = {k: hmodule_json(m) for k, m in elaborated_modules(b.top).items()}  # read off before the exporter runs
        pkg = h.to_proto(b.top)
    except Exception as ex:  # noqa
        return {"reject": common.errstr(ex)}
    pj = observe.pkg_json(pkg)
    missing = [m["name"] for m in pj["modules"] if m["name"] not in mods]
    if missing:
        return {"pkg": pj, "missing": missing}
    return {"pkg": pj, "hmods": [mods[m["name"]] for m in pj["modules"]]}


def _c11():
    return __import__("props.c11", fromlist=["x"])


def export_model_stream(ctx, cases):
    """(C06, module level) `EWF` on what elaboration left behind (the hypothesis of `export_module_wf` and of
    `export_module_wf_ports_first` — the theorem exists for either place of the internal signals), and the model's
    `exportModule` / `exportModulePF` of it (whichever layout the probe module shows) against the module the real exporter wrote."""
    rep = ctx.rep
    impls = common.pmap(impl_export_model, cases, chunk=8)
    idx = [k for k, im in enumerate(impls) if "hmods" in im]
    outs = dict(zip(idx, ctx.drv.run([{"prop": "EWF", "op": "ewf", "pkg": impls[k]["pkg"], "hmods": impls[k]["hmods"], "ports_first": _c11().ports_first()} for k in idx])))
    for k, (c, im) in enumerate(zip(cases, impls)):
        rep.count("export_model", json.dumps(c["design"])[:4000], nontrivial="hmods" in im)
        case = {"stream": "export_model", "case": c}
        if "missing" in im:
            rep.fail("corr", case, f"package modules not found below the top: {im['missing']}")
            continue
        if k not in outs:
            continue
        for mo in outs[k]["modules"]:
            r = mo["result"]
            if "parse_error" in r:
                rep.fail("corr", case, f"{mo['module']}: elaborated module not in the model's alphabet: {r['parse_error']}")
            elif r["problems"] and r["ewf"]:
                rep.fail("pred", case, {"why": f"{mo['module']}: a well-formed elaborated module was exported with defects", "problems": r["problems"][:5]})
            elif not r["ewf"]:
                rep.fail("corr", case, f"{mo['module']}: elaboration left a module that does not satisfy EWF (the hypothesis of export_module_wf)")
            elif r.get("nf") is False:
                rep.fail("corr", case, f"{mo['module']}: elaboration left a connection that is not in the resolver's normal form (a signal, a proper slice of a signal, a "
                                       "non-empty concatenation of those): re-elaborating the imported module would change it (C11)")
            elif r["export_equal"] is not True or not r["same_instance_count"]:
                rep.fail("corr", case, f"{mo['module']}: the model's export of the elaborated module is not what the exporter wrote ({r['export_equal']})")


def gen_named_dag(rng):
    n = rng.randint(2, 7)
    pool = ["A", "B", "C", "D"] if rng.random() < 0.6 else [f"M{k}" for k in range(n)]
    names = [rng.choice(pool) for _ in range(n)] if pool[0] == "A" else pool
    children = [[]]
    for k in range(1, n):
        children.append([rng.randrange(k) for _ in range(rng.choice([0, 1, 1, 2, 3]))])
    tops = [rng.randrange(n) for _ in range(rng.choice([1, 1, 2, 3]))]
    return {"names": names, "children": children, "tops": tops}


def impl_named_dag(case):
    mods = []
    for k, nm in enumerate(case["names"]):
        m = h.Module(name=nm)
        m.add(h.Signal(name="tag", width=k + 1))  # tells modules of one name apart in the package
        for j, c in enumerate(case["children"][k]):
            m.add(h.Instance(of=mods[c]), name=f"i{j}")
        mods.append(m)
    try:
        pkg = h.to_proto([mods[t] for t in case["tops"]])
    except RuntimeError as ex:
        return {"refused": str(ex)[-160:]}
    tags = [next((s.width for s in pm.signals if s.name == "tag"), None) for pm in pkg.modules]
    if None in tags:
        return {"lost_signal": [pm.name for pm, t in zip(pkg.modules, tags) if t is None]}
    return {"ok": [t - 1 for t in tags]}


def line_named_dag(case):
    return dict(case, prop="EN", op="export")


def judge_named_dag(case, im, mo):
    if "lost_signal" in im:
        yield ("corr", f"modules exported without their (unconnected) internal signal `tag`: {im["lost_signal"]} — the stream cannot tell the modules apart")
        return
    if "ok" in im:
        names = [case["names"][k] for k in im["ok"]]
        if len(set(names)) != len(names):
            yield ("pred", f"a package with two modules of one name was returned: {names}")
    if ("ok" in im) != ("ok" in mo):
        yield ("corr", f"implementation {im}, model {mo}")
    elif "ok" in im and im["ok"] != mo["ok"]:
        yield ("corr", f"module order {im['ok']} vs model {mo['ok']}")


SN = common.Stream("named_dags", impl_named_dag, line_named_dag, judge_named_dag, chunk=16)



def gen_ext_decls(rng):
    """a handful of ExternalModule objects over two names: some the same declaration made again, some differing in one thing"""
    base = {"E": {"ports": [("a", 1, "NONE"), ("d", rng.choice([2, 8]), "INPUT")], "spice": "SUBCKT"},
            "F": {"ports": [("x", 2, "OUTPUT")], "spice": rng.choice(["SUBCKT", "RESISTOR"])}}
    decls = []
    for _ in range(rng.randint(2, 5)):
        nm = rng.choice(["E", "E", "F"])
        d = {"name": nm, "domain": rng.choice(["lib", "lib", "lib2"]), "ports": list(base[nm]["ports"]), "spice": base[nm]["spice"]}
        r = rng.random()
        if r < 0.15:
            k = rng.randrange(len(d["ports"]))
            n_, w_, dr = d["ports"][k]
            d["ports"][k] = (n_, w_ + 1, dr)                       # nothing but a width
        elif r < 0.25:
            k = rng.randrange(len(d["ports"]))
            n_, w_, dr = d["ports"][k]
            d["ports"][k] = (n_, w_, "INOUT" if dr != "INOUT" else "INPUT")   # nothing but a direction
        elif r < 0.32:
            d["spice"] = "DIODE" if d["spice"] != "DIODE" else "SUBCKT"
        elif r < 0.4:
            d["ports"] = list(reversed(d["ports"]))
        decls.append(d)
    return {"decls": decls}


def impl_ext_decls(case):
    from hdl21.external_module import SpiceType

    mk = {"INPUT": h.Input, "OUTPUT": h.Output, "INOUT": h.Inout, "NONE": h.Port}
    m = h.Module(name="ExtDecls")
    try:
        for k, d in enumerate(case["decls"]):
            E = h.ExternalModule(name=d["name"], domain=d["domain"], port_list=[mk[dr](name=n, width=w) for n, w, dr in d["ports"]], paramtype=dict,
                                 spicetype=SpiceType[d["spice"]])
            conns = {n: m.add(h.Signal(width=w), name=f"s{k}_{n}") for n, w, _ in d["ports"]}
            m.add(E({})(**conns), name=f"i{k}")
        pkg = h.to_proto(m)
    except RuntimeError as ex:
        return {"refused": common.errstr(ex)}
    except Exception as ex:  # noqa
        return {"crash": common.errstr(ex)}
    import vlsir.circuit_pb2 as vckt

    return {"package": [{"domain": e.name.domain, "name": e.name.name, "spicetype": vckt.SpiceType.Name(e.spicetype),
                         "signals": [[sg.name, sg.width] for sg in e.signals], "ports": [[p.signal, observe.dir_name(p.direction).upper()] for p in e.ports]} for e in pkg.ext_modules],
            "refs": [[i.module.external.domain, i.module.external.name] for i in pkg.modules[-1].instances]}


def line_ext_decls(case):
    return {"prop": "XD", "op": "declare_all", "decls": [{"domain": d["domain"], "name": d["name"], "spicetype": d["spice"], "signals": [[n, w] for n, w, _ in d["ports"]],
                                                          "ports": [[n, dr] for n, _, dr in d["ports"]]} for d in case["decls"]]}


def judge_ext_decls(case, im, mo):
    """(C06, `declarations_consistent`) the exporter's external-module declarations against the model of `export_external_module`"""
    if "crash" in im:
        yield ("corr", f"the exporter crashed: {im['crash']}")
    elif ("refused" in im) != ("refused" in mo):
        if "refused" in mo:
            yield ("pred", {"why": "two different declarations of one external module were exported side by side or merged", "package": im["package"]})
        else:
            yield ("corr", f"the exporter refuses declarations the model shares: {im['refused'][:160]}")
    elif "package" in im:
        strip = lambda p: sorted(({k: v for k, v in e.items()} for e in p), key=lambda e: (e["domain"], e["name"]))  # in which order they are written is the exporter's business
        if strip(im["package"]) != strip(mo["package"]):
            yield ("corr", {"why": "the package's external-module declarations are not the model's", "impl": im["package"], "model": mo["package"]})
        keys = [(e["domain"], e["name"]) for e in im["package"]]
        if len(set(keys)) != len(keys) or any(tuple(r) not in keys for r in im["refs"]):
            yield ("pred", {"why": "external-module declarations are not one per name, or an instance refers to an undeclared one", "package": im["package"]})


SXD = common.Stream("ext_decls", impl_ext_decls, line_ext_decls, judge_ext_decls, chunk=8)


def late_edit_programs():
    """Programs in which something a package is made from is edited late — after the library has looked at it once: whatever
    `to_proto` then returns must be a well-formed package (or it must raise)."""
    def ext_ports_grown():
        E = h.ExternalModule(name="Egrow", port_list=[h.Port(name="a"), h.Port(name="b")], paramtype=dict)
        _ = dict(E.ports)                       # looked at once …
        E.port_list.append(h.Port(name="sub"))  # … then a terminal is added
        m = h.Module(name="UsesEgrow")
        m.x, m.y = h.Signals(2)
        m.e = E({})(a=m.x, b=m.y)               # wired to the interface as it was
        return m

    def ext_ports_shrunk():
        E = h.ExternalModule(name="Eshrink", port_list=[h.Port(name="a"), h.Port(name="b"), h.Port(name="c")], paramtype=dict)
        _ = list(E.ports)
        E.port_list.pop()
        m = h.Module(name="UsesEshrink")
        m.x, m.y, m.z = h.Signals(3)
        m.e = E({})(a=m.x, b=m.y, c=m.z)
        return m

    def signal_narrowed():
        m = h.Module(name="Narrowed")
        m.bus = h.Signal(width=4)
        sl = m.bus[3]
        _ = sl.width
        m.bus.width = 2
        m.r = h.R(r=1)(p=sl, n=m.bus[0])
        return m

    def concat_part_resized():
        # a concatenation whose width was asked for once, then one of its parts is widened (seed C06-r8-1: a remembered width)
        leaf = h.Module(name="CatLeaf"); leaf.d = h.Input(width=2)
        m = h.Module(name="CatResized")
        m.x = h.Signal(); m.y = h.Signal()
        bus = h.Concat(m.x, m.y)
        _ = bus.width
        m.y.width = 2
        m.l = leaf(d=bus)
        return m

    def concat_part_resized_after_failure():
        # the same without asking: a first export fails in a sibling after the first ConnTypes pass, the parent is then resized and exported alone
        leaf = h.Module(name="CatLeafF"); leaf.d = h.Input(width=2)
        par = h.Module(name="CatParentF")
        par.x = h.Signal(); par.y = h.Signal()
        par.l = leaf(d=h.Concat(par.x, par.y))
        sib = h.Module(name="CatSiblingF"); sib.w = h.Signal(width=3)
        sib.arr = 2 * leaf(d=sib.w)          # 3 bits over two 2-bit ports: refused by ArrayFlattener
        top = h.Module(name="CatTopF")
        top.p = par(); top.s = sib()
        try:
            h.to_proto(top)
        except Exception:  # noqa
            pass
        par.y.width = 2
        return par

    def ext_twice_other_width(wide_first):
        # one external module declared twice, the declarations differing in nothing but the width of a port (seed C06-r8-2)
        def mk():
            def decl(w):
                return h.ExternalModule(name="EW", domain="lib", port_list=[h.Input(name="d", width=w), h.Output(name="q")], paramtype=dict)
            m = h.Module(name="TwoWidths" + ("W" if wide_first else "N"))
            m.a = h.Signal(width=8); m.b = h.Signal(width=16); m.q0, m.q1 = h.Signals(2)
            first, second = ((16, m.b), (8, m.a)) if wide_first else ((8, m.a), (16, m.b))
            m.e0 = decl(first[0])({})(d=first[1], q=m.q0)
            m.e1 = decl(second[0])({})(d=second[1], q=m.q1)
            return m
        return mk

    def ext_same_cell_from_two_files():
        # one external cell declared, identically, in two Python files (two libraries wrapping the same standard cell): one declaration
        # in the package, whatever file each object came from (seed C06-r9-2: declarations keyed by the Python path of their source)
        import importlib.util, tempfile, shutil
        src = "import hdl21 as h\nInv = h.ExternalModule(name='inv_1', domain='stdcells', port_list=[h.Input(name='a'), h.Output(name='y')], paramtype=dict)\n"
        d = tempfile.mkdtemp(prefix="c06_two_files_")
        mods = {}
        try:
            for nm in ("cells_a", "cells_b"):
                path = os.path.join(d, nm + ".py")
                with open(path, "w") as f:
                    f.write(src)
                spec = importlib.util.spec_from_file_location(nm, path)
                mod = importlib.util.module_from_spec(spec)
                sys.modules[nm] = mod
                spec.loader.exec_module(mod)
                mods[nm] = mod
        finally:
            shutil.rmtree(d, ignore_errors=True)
        ga, gb = vars(mods["cells_a"]), vars(mods["cells_b"])
        m = h.Module(name="TwoFiles")
        m.a, m.b, m.c = h.Signals(3)
        m.i0 = ga["Inv"]({})(a=m.a, y=m.b)
        m.i1 = gb["Inv"]({})(a=m.b, y=m.c)
        return m

    def vis_changed(promote):
        def mk():
            tag = "P" if promote else "H"
            leaf = h.Module(name=f"VisLeaf{tag}"); leaf.i = h.Input(); leaf.o = h.Output(width=2)
            child = h.Module(name=f"VisChild{tag}")
            child.a = h.Input(); child.z = h.Output(width=2); child.mid = h.Signal(width=2)
            child.l0 = leaf(i=child.a, o=child.mid)
            child.l1 = leaf(i=child.a, o=child.z)
            if promote:
                child.mid.vis = h.Visibility.PORT        # an internal node marked port-visible after it was added
            else:
                child.z.vis = h.Visibility.INTERNAL      # a port hidden after it was added
            parent = h.Module(name=f"VisParent{tag}")
            parent.a = h.Input(); parent.z = h.Output(width=2)
            parent.c = child(a=parent.a, z=parent.z)
            return parent
        return mk

    # names that are filed specially by from_proto: a module called like the namespaces' own `name` entry; a parent `Dac` over `Dac.Unit`
    def called_name():
        inner = h.Module(name="name"); inner.i = h.Input(width=2); inner.o = h.Output()
        top = h.Module(name="NameTop"); top.i = h.Input(width=2); top.o = h.Output()
        top.u = inner(i=top.i, o=top.o)
        return top

    def dotted_child():
        unit = h.Module(name="Dac.Unit"); unit.i = h.Input(width=2); unit.o = h.Output()
        dac = h.Module(name="Dac"); dac.i = h.Input(width=4); dac.o = h.Output(width=2)
        dac.u0 = unit(i=dac.i[0:2], o=dac.o[0])
        dac.u1 = unit(i=dac.i[2:4], o=dac.o[1])
        return dac

    return [("late:concat_part_resized", concat_part_resized), ("late:concat_part_resized_after_failure", concat_part_resized_after_failure),
            ("ext:same_cell_from_two_files", ext_same_cell_from_two_files), ("ext:declared_twice_other_width", ext_twice_other_width(False)), ("ext:declared_twice_other_width_wide_first", ext_twice_other_width(True)),
            ("late:ext_ports_grown", ext_ports_grown), ("late:ext_ports_shrunk", ext_ports_shrunk), ("late:signal_narrowed", signal_narrowed),
            ("late:vis_promoted", vis_changed(True)), ("late:vis_hidden", vis_changed(False)),
            ("names:module_called_name", called_name), ("names:parent_over_dotted_child", dotted_child)]

def run(ctx):
    rep = ctx.rep
    # 0. the default pass list composed on one module, then exported (ModulePipe.lean; module_pipeline_wf)
    import modpipe
    modpipe.run(ctx)
    SXD.run(ctx, [gen_ext_decls(ctx.rng) for _ in range(120 if ctx.quick else 2500)])
    rep.extra["rule"] = (
        "every package exported from: generated designs (3 styles), the repository's examples (all packages their main() exports), "
        "Series/MosStack/Wrapper over nser ranges and unit kinds, a sample-PDK compiled design; non-trivial = has at least one instance; "
        "distinct = distinct label/design"
    )
    # 1. generated designs
    n = 200 if ctx.quick else 4000
    c01 = __import__("props.c01", fromlist=["x"])
    cases = [dict(c, accept=True, netlist=False) for c in c01.corpus()] + designs.gen_cases(ctx.rng, n, accept=True, netlist=False)
    nexp = 0
    for c, im, mo in designs.run_designs(ctx, cases):
        if "pkg" not in im:
            continue
        nexp += 1
        judge_pkg(rep, "generated", json.dumps(c["design"])[:4000], im["pkg"], im["accept"], mo["wf_problems"])
    rep.extra["generated_exported"] = nexp
    export_model_stream(ctx, [dict(c, accept=False) for c in cases[: (120 if ctx.quick else 2000)]])
    # 1a. designs that must be refused (C02's single-fault mutants: a missing / extra connection, a width mismatch, an index out of
    # range, a bad reference, …): whatever is exported of them all the same is a package like any other and has to be well-formed
    c02 = __import__("props.c02", fromlist=["x"])
    bases = [c for c in cases if c.get("style", "proc") == "proc"][: (25 if ctx.quick else 400)]
    muts = list(c02.corpus())
    for c in bases:
        try:
            muts += c02.mutants(c["design"], ctx.rng, per_class=2)
        except Exception:  # noqa  (a design without a site for some fault class)
            pass
    mcases = [{"design": m["design"], "style": "proc", "accept": True, "netlist": False, "mutant": m["class"]} for m in muts]
    nmx = 0
    for c, im, mo in designs.run_designs(ctx, mcases):
        rep.count("mutants", json.dumps(c["design"])[:3000] + c["mutant"], nontrivial="pkg" in im)
        if "pkg" in im:
            nmx += 1
            judge_pkg(rep, "mutants_exported", c["mutant"] + ":" + json.dumps(c["design"])[:4000], im["pkg"], im["accept"], mo["wf_problems"])
    rep.extra["mutants"] = {"tried": len(mcases), "exported": nmx}
    # the exporter's traversal with names (exportNamedTops, theorem exported_names_unique) against the real one
    SN.run(ctx, [gen_named_dag(ctx.rng) for _ in range(300 if ctx.quick else 6000)])
    # 1b. lists of tops: random sub-lists and orders of the modules of a design, exported in one call
    lcases = [c for c in designs.gen_cases(ctx.rng, n // 2, styles=("proc",)) if len(c["design"]["modules"]) >= 2]
    for c, res in zip(lcases, common.pmap(export_list, [dict(c, order_seed=k) for k, c in enumerate(lcases)], chunk=4)):
        if "pkg" not in res:
            continue
        (pr,) = lean_problems(ctx, [res["pkg"]])
        judge_pkg(rep, "generated_lists", json.dumps(c["design"])[:3000] + str(res["tops"]), res["pkg"], res["accept"], pr)
    # 2. built-ins, PDK, examples
    labelled = []
    for label, mk in builtin_packages(ctx) + pdk_packages():
        try:
            pkg = h.to_proto(mk())
            labelled.append((label, pkg))
        except Exception as ex:  # noqa
            rep.fail("corr", {"stream": "builtin", "label": label}, f"export raised {type(ex).__name__}: {str(ex)[-200:]}")
    # 2a. late edits: a refusal is as good as a well-formed package
    for label, mk in late_edit_programs():
        rep.count("late_edits", label)
        try:
            labelled.append((label, h.to_proto(mk())))
        except Exception:  # noqa
            pass
    ex_pkgs, ex_errors = examples_packages()
    rep.extra["examples_errors"] = ex_errors
    labelled += [(f"example:{i}", p) for i, p in enumerate(ex_pkgs)]
    pjs = [observe.pkg_json(p) for _, p in labelled]
    probs = lean_problems(ctx, pjs)
    for (label, pkg), pj, pr in zip(labelled, pjs, probs):
        judge_pkg(rep, "builtin" if not label.startswith("example") else "examples", label, pj, accept(pkg), pr)
    rep.sample({"label": labelled[0][0], "pkg": pjs[0]})


def replay(ctx, rp):
    case = rp["case"]
    if case.get("stream") == "export_model":
        return common.replay_by_rerun(ctx, rp, lambda c: export_model_stream(c, [case["case"]]))
    if case.get("stream") == "named_dags":
        return common.Stream.replay(ctx, rp)
    print(json.dumps(rp.get("detail"), default=str)[:3000])
    return 1
