"""C13 — parameter values reach the package unchanged.

Stream `values`:    export_param_value on every accepted Python type: Prefixed with Decimal mantissas of 1-40 digits,
                    exponents -60..60, each of the 21 prefixes (integer-valued, beyond int64, fractional), ints to 64 bits and
                    beyond, floats incl. 0.1 / 1e-7 / subnormals, arbitrary strings, Literals, str- and int-valued Enums,
                    Decimals, None — vs the Lean model; decoded value must equal the original exactly.
Stream `instances`: the same values as parameters of ExternalModules (dict and paramclass form) and of all 11 ideal
                    primitives (Scalar conversion of int / float / Decimal / numeric string / expression string), read back
                    from Instance.parameters of the exported package.
"""
import json
import math
from decimal import Decimal
from enum import Enum
from fractions import Fraction
from typing import Optional

import common
from common import Stream

h = common.repo_env()
import vlsir
from hdl21.proto.exporting import export_param_value
from hdl21.prefix import Prefix, Prefixed

ASSUMPTIONS = [
    "Decimal(str(d)) == d exactly (CPython decimal round trip) — verified on every exported string value",
    "float parameters are compared bit-for-bit (float.hex)",
]
TRUSTED = ["CPython decimal text round trip", "protobuf field storage"]
BYVAL = {m.value: m for m in Prefix.__members__.values()}
VNAME = {v.number: n for n, v in vlsir.SIPrefix.DESCRIPTOR.values_by_name.items()}
IDEAL = {
    "DcVoltageSource": "vdc", "PulseVoltageSource": "vpulse", "SineVoltageSource": "vsin", "CurrentSource": "isource",
    "IdealResistor": "resistor", "IdealCapacitor": "capacitor", "IdealInductor": "inductor",
    "VoltageControlledVoltageSource": "vcvs", "CurrentControlledVoltageSource": "ccvs",
    "VoltageControlledCurrentSource": "vccs", "CurrentControlledCurrentSource": "cccs",
}
PULSE = {"delay": "td", "rise": "tr", "fall": "tf", "width": "tpw", "period": "tper", "v1": "v1", "v2": "v2"}


class Color(Enum):
    RED = "red"
    WEIRD = "a b=c"


class Num(Enum):
    ONE = 1


class Corner(str, Enum):
    """a str-mixin enum: its members are `str` instances whose text is the value, while `str()` of one is `Corner.FAST`"""
    FAST = "ff"
    WEIRD = "a b=c"


class Loud(str):
    """a str subclass whose `str()` is not its text"""
    def __str__(self):
        return "LOUD:" + str.__str__(self)


def dec_of(c, e):
    c = int(c)
    return Decimal((1 if c < 0 else 0, tuple(int(ch) for ch in str(abs(c))), e))


def dec_tuple(d):
    t = d.as_tuple()
    c = int("".join(map(str, t.digits)) or "0")
    return {"c": str(-c if t.sign else c), "e": t.exponent}


def mk_value(v):
    k = v["k"]
    if k == "none":
        return None
    if k == "str":
        return v["s"]
    if k == "literal":
        return h.Literal(v["s"])
    if k == "enum_str":
        if v.get("mix") == "strenum":
            return Corner.FAST if v["s"] == "ff" else Corner.WEIRD
        return Color.RED if v["s"] == "red" else Color.WEIRD
    if k == "str" and v.get("mix") == "loud":
        return Loud(v["s"])
    if k == "enum_other":
        return Num.ONE
    if k == "prefixed":
        return Prefixed(number=dec_of(v["c"], v["e"]), prefix=BYVAL[v["p"]])
    if k == "decimal":
        return dec_of(v["c"], v["e"])
    if k == "int":
        return int(v["i"])
    if k == "float":
        return float.fromhex(v["hex"])
    if k == "other":
        return [1, 2]
    raise ValueError(k)


def canon_pval(pv, kind):
    """vlsir.ParamValue -> the model's JSON shape (+ raw text for string variants)."""
    which = pv.WhichOneof("value")
    if which == "literal":
        if kind == "decimal":
            return {"dec_literal": dec_tuple(Decimal(pv.literal))}, pv.literal
        return {"literal": pv.literal}, None
    if which == "int64_value":
        return {"int64": str(pv.int64_value)}, None
    if which == "double_value":
        return {"double": float(pv.double_value).hex()}, None
    if which == "prefixed":
        pre = VNAME[pv.prefixed.prefix]
        w = pv.prefixed.WhichOneof("number")
        if w == "int64_value":
            return {"prefixed_int": str(pv.prefixed.int64_value), "prefix": pre}, None
        if w == "string_value":
            return {"prefixed_str": dec_tuple(Decimal(pv.prefixed.string_value)), "prefix": pre}, pv.prefixed.string_value
        return {"prefixed_other": w}, None
    return {"unknown": which}, None


def impl_value(case):
    try:
        v = mk_value(case["v"])
        r = export_param_value(v)
    except Exception as ex:  # noqa
        return {"reject": type(ex).__name__}
    if r is None:
        return {"omitted": True}
    c, raw = canon_pval(r, case["v"]["k"])
    return {"ok": c, "raw": raw}


def exact_of(v):
    """The exact rational value of an input, where it has one."""
    if v["k"] == "prefixed":
        return Fraction(int(v["c"])) * Fraction(10) ** (v["e"] + v["p"])
    return None


def judge_value(case, im, mo):
    v = case["v"]
    k = v["k"]
    must_accept = k in ("str", "literal", "enum_str", "prefixed", "decimal", "float") or (k == "int" and -(2**63) <= int(v["i"]) < 2**63)
    if "reject" in im:
        if must_accept:
            yield ("pred", f"accepted parameter type rejected: {im['reject']}", "prefixed-int64" if k == "prefixed" else None)
        elif "reject" not in mo:
            yield ("corr", f"impl rejects, model {mo}")
        return
    if k == "none":
        if "omitted" not in im:
            yield ("pred", "None-valued parameter not omitted")
        return
    if "omitted" in im:
        yield ("pred", "parameter omitted")
        return
    got = im["ok"]
    # the property, directly: the same value
    if k in ("str", "literal", "enum_str"):
        if got != {"literal": v["s"] if k != "enum_str" else v["s"]}:
            yield ("pred", f"string changed: {got}")
    elif k == "int":
        if got != {"int64": v["i"]}:
            yield ("pred", f"integer changed: {got}")
    elif k == "float":
        if got != {"double": v["hex"]}:
            yield ("pred", f"float changed: {got}")
    elif k == "decimal":
        if got != {"dec_literal": {"c": v["c"], "e": v["e"]}}:
            yield ("pred", f"Decimal digits changed: {got} raw {im['raw']}")
    elif k == "prefixed":
        want = exact_of(v)
        if got.get("prefix") != BYVAL[v["p"]].name:
            yield ("pred", f"prefix changed: {got}")
        elif "prefixed_int" in got:
            if Fraction(int(got["prefixed_int"])) * Fraction(10) ** v["p"] != want:
                yield ("pred", f"value changed: {got}")
        elif "prefixed_str" in got:
            d = got["prefixed_str"]
            if d != {"c": v["c"], "e": v["e"]}:
                yield ("pred", f"decimal digits changed: {got} raw {im['raw']}")
        else:
            yield ("pred", f"unexpected prefixed variant {got}")
    if "ok" in mo and got != mo["ok"]:
        yield ("corr", f"impl {got} vs model {mo['ok']}")
    if "ok" not in mo:
        yield ("corr", f"impl {got} vs model {mo}")


SV = Stream("values", impl_value, lambda c: {"prop": "C13", "op": "export_value", "v": c["v"]}, judge_value, chunk=256)


# ------------------------------------------------------------------ instances


def scalar_expect(raw):
    """What `to_scalar` must make of a raw value: ('prefixed', exact Fraction, prefix) or ('literal', text)."""
    if isinstance(raw, Prefixed):
        t = dec_tuple(raw.number)
        return ("prefixed", Fraction(int(t["c"])) * Fraction(10) ** (t["e"] + raw.prefix.value), raw.prefix.name)
    if isinstance(raw, h.Literal):
        return ("literal", raw.text)
    if isinstance(raw, str):
        try:
            d = Decimal(raw)
            if not d.is_finite():
                raise ValueError
        except Exception:
            return ("literal", raw)
        return ("prefixed", Fraction(d), "UNIT")
    if isinstance(raw, Decimal):
        return ("prefixed", Fraction(raw), "UNIT")
    return ("prefixed", Fraction(Decimal(str(raw))), "UNIT")


def pval_exact(pv):
    which = pv.WhichOneof("value")
    if which == "literal":
        return ("literal", pv.literal)
    if which == "prefixed":
        pre = VNAME[pv.prefixed.prefix]
        w = pv.prefixed.WhichOneof("number")
        num = Fraction(pv.prefixed.int64_value) if w == "int64_value" else Fraction(Decimal(pv.prefixed.string_value))
        return ("prefixed", num * Fraction(10) ** Prefix[pre].value, pre)
    if which == "int64_value":
        return ("int", pv.int64_value)
    if which == "double_value":
        return ("float", float(pv.double_value).hex())
    return ("?", which)


RAWS = [3, 0, -7, 0.1, 1e-7, 2.5e3, 5e-324, Decimal("1.50"), Decimal("123456789012345678901234567890.123"), "11", "1e-9", "0.30",
        "w/5", "vdd*2", "x y", "1*2", ".5", "-.5", "+.25e3", "  .75", "5.", "+3", "1_000", "-0.0", "1E+2", 3 * Prefix.NANO, Prefixed(number=Decimal("4.10"), prefix=Prefix.DECA), h.Literal("lit"), 10**30,
        # explicit literals stay literals, whatever their text looks like
        h.Literal("1e-6"), h.Literal("11"), h.Literal(" 2.50 "), h.Literal("1_000")]


def instances_check(ctx):
    rep, rng = ctx.rep, ctx.rng
    import hdl21.primitives as P

    n = 0
    for pname, vname in IDEAL.items():
        prim = getattr(P, pname)
        fields = list(prim.Params.__params__.keys())
        for trial in range(4 if ctx.quick else 40):
            # some fields explicitly None (where the field allows it): None is omitted — the field's default is not written instead
            vals = {f: (None if rng.random() < 0.15 else rng.choice(RAWS)) for f in fields if rng.random() < 0.8}
            try:
                call = prim(**vals)
            except Exception:
                vals = {f: rng.choice(RAWS) for f in fields}
                call = prim(**vals)
            m = h.Module(name="T")
            ports = list(prim.ports.keys())
            for pn in ports:
                m.add(h.Signal(name=pn))
            m.x = call(**{pn: getattr(m, pn) for pn in ports})
            case = {"stream": "instances", "prim": pname, "vals": {k: repr(v) for k, v in vals.items()}}
            rep.count("instances", json.dumps(case))
            n += 1
            try:
                pkg = h.to_proto(m)
            except Exception as ex:
                rep.fail("pred", case, f"export raised {type(ex).__name__}: {ex}")
                continue
            inst = pkg.modules[0].instances[0]
            if (inst.module.external.domain, inst.module.external.name) != ("vlsir.primitives", vname):
                rep.fail("pred", case, f"ideal primitive exported as {inst.module.external}")
            got = {p.name: pval_exact(p.value) for p in inst.parameters}
            want = {}
            for f in fields:
                val = getattr(call.params, f)
                key = PULSE[f] if pname == "PulseVoltageSource" else f
                if f in vals and vals[f] is None:
                    continue
                if f in vals:
                    want[key] = scalar_expect(vals[f])
                elif val is not None:
                    want[key] = scalar_expect(val)  # defaulted
            if got != want:
                rep.fail("pred", case, {"why": "exported parameters differ", "got": {k: str(v) for k, v in got.items()}, "want": {k: str(v) for k, v in want.items()}})
    # external modules: dict params and paramclass params
    @h.paramclass
    class EP:
        a = h.Param(dtype=h.Scalar, desc="a")
        s = h.Param(dtype=str, desc="s", default="dflt")
        n = h.Param(dtype=int, desc="n", default=3)
        f = h.Param(dtype=float, desc="f", default=0.1)
        c = h.Param(dtype=Color, desc="c", default=Color.RED)
        k = h.Param(dtype=Corner, desc="k", default=Corner.FAST)
        o = h.Param(dtype=Optional[h.Scalar], desc="o", default=None)
        # fields which may be given as None although their default is something else: None is omitted, the default is not written
        on = h.Param(dtype=Optional[int], desc="on", default=4)
        os_ = h.Param(dtype=Optional[h.Scalar], desc="os_", default=7)

    for trial in range(30 if ctx.quick else 600):
        dvals = {"p%d" % i: rng.choice([None, "str ing", 5, -(2**63), 2**63 - 1, 0.1, 1e-300, Decimal("2.50"), h.Literal("a+b"), Color.WEIRD, Corner.FAST, Corner.WEIRD, Loud("lo ud"),
                                         3 * Prefix.MILLI, Prefixed(number=Decimal("1E+30"), prefix=Prefix.YOCTO)]) for i in range(rng.randint(1, 5))}
        E1 = h.ExternalModule(name="E1", port_list=[h.Port(name="a")], paramtype=dict)
        E2 = h.ExternalModule(name="E2", port_list=[h.Port(name="a")], paramtype=EP)
        m = h.Module(name="T")
        m.a = h.Signal()
        m.x = E1(dvals)(a=m.a)
        pv = dict(a=rng.choice(RAWS), s=rng.choice(["", "q r", "ü"]), n=rng.randint(-5, 5), f=rng.choice([0.1, 1e-7, 3.0]), c=rng.choice(list(Color)), k=rng.choice(list(Corner)))
        for f_, choices in (("on", [None, None, 0, 9]), ("os_", [None, None, 0, "2.5"])):
            if rng.random() < 0.7:
                pv[f_] = rng.choice(choices)
        # by keywords, or by a ready-made parameter object
        m.y = (E2(**pv) if rng.random() < 0.7 else E2(EP(**pv)))(a=m.a)
        case = {"stream": "instances", "ext": {k: repr(v) for k, v in {**dvals, **pv}.items()}}
        rep.count("instances", json.dumps(case))
        try:
            pkg = h.to_proto(m)
        except Exception as ex:
            rep.fail("pred", case, f"export raised {type(ex).__name__}: {ex}")
            continue
        ix, iy = pkg.modules[0].instances
        got = {p.name: pval_exact(p.value) for p in ix.parameters}
        want = {}
        for k, v in dvals.items():
            if v is None:
                continue
            if isinstance(v, Prefixed):
                want[k] = scalar_expect(v)
            elif isinstance(v, Enum) and isinstance(v, str):
                want[k] = ("literal", v.value)
            elif isinstance(v, (str,)):
                want[k] = ("literal", str.__str__(v))
            elif isinstance(v, h.Literal):
                want[k] = ("literal", v.text)
            elif isinstance(v, Enum):
                want[k] = ("literal", v.value)
            elif isinstance(v, Decimal):
                want[k] = ("literal", str(v))
            elif isinstance(v, int):
                want[k] = ("int", v)
            elif isinstance(v, float):
                want[k] = ("float", v.hex())
        if got != want:
            rep.fail("pred", case, {"why": "dict parameters differ", "got": str(got), "want": str(want)})
        goty = {p.name: pval_exact(p.value) for p in iy.parameters}
        wanty = {"a": scalar_expect(pv["a"]), "s": ("literal", pv["s"]), "n": ("int", pv["n"]), "f": ("float", float(pv["f"]).hex()), "c": ("literal", pv["c"].value),
                 "k": ("literal", pv["k"].value)}
        on_, os__ = pv.get("on", 4), pv.get("os_", 7)
        if on_ is not None:
            wanty["on"] = ("int", on_)
        if os__ is not None:
            wanty["os_"] = scalar_expect(os__)
        if goty != wanty:
            rep.fail("pred", case, {"why": "paramclass parameters differ", "got": str(goty), "want": str(wanty)})
    # the Mos primitive and its Nmos / Pmos wrappers, by keywords and by parameter object
    import dataclasses
    for trial in range(24 if ctx.quick else 400):
        kw = {}
        for f in ("w", "l", "nf", "mult"):
            if rng.random() < 0.5:
                kw[f] = rng.choice([1, 3 * Prefix.MICRO, "2.5", h.Literal("wn/4"), h.Literal("11")])
        if rng.random() < 0.6:
            kw["model"] = rng.choice(["nfet_01v8", "my model", "m"])
        if rng.random() < 0.5:
            kw["vth"] = rng.choice(list(P.MosVth))
        if rng.random() < 0.5:
            kw["family"] = rng.choice(list(P.MosFamily))
        how = rng.choice(["Mos", "Nmos", "Pmos", "Nmos_obj", "Pmos_obj"])
        try:
            if how == "Mos":
                tp = rng.choice(list(P.MosType))
                call, want_tp = h.Mos(tp=tp, **kw), tp
            elif how in ("Nmos", "Pmos"):
                call, want_tp = getattr(h, how)(**kw), (P.MosType.NMOS if how == "Nmos" else P.MosType.PMOS)
            else:
                call, want_tp = getattr(h, how[:4])(P.MosParams(**kw)), (P.MosType.NMOS if how.startswith("N") else P.MosType.PMOS)
        except Exception as ex:  # noqa
            rep.fail("corr", {"stream": "mos", "how": how, "kw": {k: repr(v) for k, v in kw.items()}}, f"construction raised {type(ex).__name__}: {ex}")
            continue
        m = h.Module(name="T")
        for pn in ("d", "g", "s", "b"):
            m.add(h.Signal(name=pn))
        m.x = call(d=m.d, g=m.g, s=m.s, b=m.b)
        case = {"stream": "mos", "how": how, "kw": {k: repr(v) for k, v in kw.items()}}
        rep.count("instances", json.dumps(case))
        n += 1
        try:
            pkg = h.to_proto(m)
        except Exception as ex:  # noqa
            rep.fail("pred", case, f"export raised {type(ex).__name__}: {ex}")
            continue
        got = {p.name: pval_exact(p.value) for p in pkg.modules[0].instances[0].parameters}
        want = {"tp": ("literal", want_tp.value), "vth": ("literal", kw.get("vth", P.MosVth.STD).value), "family": ("literal", kw.get("family", P.MosFamily.NONE).value)}
        for f in ("w", "l", "nf", "mult"):
            if f in kw:
                want[f] = scalar_expect(kw[f])
        if "model" in kw:
            want["model"] = ("literal", kw["model"])
        if got != want:
            rep.fail("pred", case, {"why": "Mos parameters differ", "got": {k: str(v) for k, v in got.items()}, "want": {k: str(v) for k, v in want.items()}})
    rep.extra["instances_checked"] = n


def respelled_check(ctx):
    """One process, one primitive, two calls whose parameters are equal as numbers and written differently (`1*K` / `1000*UNIT`,
    an int / a prefixed number, a string / a number): each instance carries the prefix and value *it* was given, whichever call
    came first — parameters reach the package unchanged, not as an equal value met earlier (seed C13-r8-1: calls shared by equality)."""
    rep = ctx.rep
    import hdl21.primitives as P

    K, MILLI, MICRO, NANO, PICO, UNIT = Prefix.KILO, Prefix.MILLI, Prefix.MICRO, Prefix.NANO, Prefix.PICO, Prefix.UNIT
    pairs = [(1 * K, 1000 * UNIT), (1000 * NANO, 1 * MICRO), (100 * PICO, Decimal("0.10") * NANO), (0 * MILLI, 0 * UNIT), (1000, 1 * K), ("1e3", 1 * K),
             (2 * MILLI, Decimal("0.002") * UNIT), (5, 5 * UNIT)]
    for pname, vname in IDEAL.items():
        prim = getattr(P, pname)
        fields = list(prim.Params.__params__.keys())
        ports = list(prim.ports.keys())
        for f in fields[:2]:
            key = PULSE[f] if pname == "PulseVoltageSource" else f
            for a, b in pairs:
                for first, second in ((a, b), (b, a)):
                    case = {"stream": "respelled", "prim": pname, "field": f, "first": repr(first), "second": repr(second)}
                    rep.count("respelled", json.dumps(case))
                    try:
                        c0, c1 = prim(**{f: first}), prim(**{f: second})
                    except Exception:
                        continue  # not a Scalar field
                    m = h.Module(name="T")
                    for pn in ports:
                        m.add(h.Signal(name=pn))
                    m.x0 = c0(**{pn: getattr(m, pn) for pn in ports})
                    m.x1 = c1(**{pn: getattr(m, pn) for pn in ports})
                    try:
                        pkg = h.to_proto(m)
                    except Exception as ex:
                        rep.fail("pred", case, f"export raised {type(ex).__name__}: {ex}")
                        continue
                    for inst, raw in zip(pkg.modules[0].instances, (first, second)):
                        got = {p_.name: pval_exact(p_.value) for p_ in inst.parameters}.get(key)
                        if got != scalar_expect(raw):
                            rep.fail("pred", case, {"why": f"{inst.name}.{key} is not what this instance was given", "got": str(got), "want": str(scalar_expect(raw))})


def gen_values(rng, n):
    out = []
    P = lambda c, e, p: {"k": "prefixed", "c": str(c), "e": e, "p": p}
    # corpus: pinned-tree witness (integer beyond int64 raised), exactness edge cases
    out += [{"v": P(1, 30, 0)}, {"v": P(2**63, 0, 3)}, {"v": P(2**63 - 1, 0, -9)}, {"v": P(-(2**63), 0, 0)}, {"v": P(10, -1, 3)},
            {"v": P(15, -1, -9)}, {"v": P(0, 0, 0)}, {"v": P(0, -3, 24)}, {"v": {"k": "int", "i": str(2**63)}}, {"v": {"k": "enum_other"}},
            {"v": {"k": "other"}}, {"v": {"k": "none"}}, {"v": {"k": "enum_str", "s": "a b=c"}},
            {"v": {"k": "enum_str", "s": "ff", "mix": "strenum"}}, {"v": {"k": "enum_str", "s": "a b=c", "mix": "strenum"}}, {"v": {"k": "str", "s": "x y", "mix": "loud"}}]
    prefixes = list(BYVAL)
    # numbers of more than 28 significant digits that lie within a hair of an integer (a rounding to the decimal context's 28 digits makes
    # them that integer) (seed C13-r9-2; its other face, exponents beyond the context's range of ±999999, would need exact arithmetic on
    # million-digit numbers on both sides and is left out)
    for p_ in (0, 3, -15):
        for k_ in (1, 2, 500, 2**40):
            for nd in (29, 31, 33, 40):
                out.append({"v": P(k_ * 10 ** nd + 1, -nd, p_)})          # k.000…001
                out.append({"v": P(k_ * 10 ** nd - 1, -nd, p_)})          # (k-1).999…999
                out.append({"v": P(-(k_ * 10 ** nd + 1), -nd, p_)})
    for i in range(n):
        r = rng.random()
        if r < 0.55:
            nd = rng.choice([1, 2, 5, 10, 19, 20, 25, 29, 40])
            c = rng.randrange(10 ** (nd - 1), 10**nd) * rng.choice([1, -1])
            if rng.random() < 0.3:
                c *= 10 ** rng.randint(1, 5)  # trailing zeros: integer-valued with negative exponent
            e = rng.choice([0, 0, -1, -2, -nd, 3, rng.randint(-60, 60)])
            out.append({"v": P(c, e, rng.choice(prefixes))})
        elif r < 0.65:
            out.append({"v": {"k": "int", "i": str(rng.choice([0, 1, -1, 2**63 - 1, -(2**63), 2**63, rng.randrange(-(2**64), 2**64)]))}})
        elif r < 0.75:
            f = rng.choice([0.1, 1e-7, 5e-324, 1.7976931348623157e308, -0.0, 1 / 3, rng.random() * 10 ** rng.randint(-20, 20)])
            out.append({"v": {"k": "float", "hex": float(f).hex()}})
        elif r < 0.85:
            s = "".join(rng.choice("ab =\"'\\\n\tü€1.e-") for _ in range(rng.randint(0, 12)))
            out.append({"v": {"k": rng.choice(["str", "literal"]), "s": s}})
        elif r < 0.93:
            nd = rng.randint(1, 30)
            out.append({"v": {"k": "decimal", "c": str(rng.randrange(10 ** (nd - 1), 10**nd) * rng.choice([1, -1])), "e": rng.randint(-40, 40)}})
        else:
            out.append({"v": rng.choice([{"k": "none"}, {"k": "enum_str", "s": "red"}, {"k": "enum_other"}, {"k": "other"}])})
    return out


def run(ctx):
    ctx.rep.extra["rule"] = (
        "values: generated Prefixed (1-40 digit mantissas, exponents -60..60, 21 prefixes), ints, floats, strings, Literals, Enums, "
        "Decimals, None through export_param_value; instances: all 11 ideal primitives x Scalar-convertible raw values and external "
        "modules with dict/paramclass params, read back from the package; every case non-trivial; distinct = distinct JSON"
    )
    SV.run(ctx, gen_values(ctx.rng, 4000 if ctx.quick else 150000))
    instances_check(ctx)
    respelled_check(ctx)


def replay(ctx, rp):
    return Stream.replay(ctx, rp)
