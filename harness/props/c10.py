"""C10 — bundle ports flatten to the documented names, directions and visibility.

Bundle definition trees (depth ≤ 3, fan-out ≤ 3) with every leaf kind (input, output, inout, undirected port,
role-directed, plain), widths {1, 3}, flips at every level (constructor flag or `flipped()`), roles, used as a
port (`p`) and as an internal instance (`q`) of module Inner, and connected from a parent (`Outer.b` → `i.p`).
Observed: Inner's exported ports (name, width, direction), its internal signals, and the connections of `Outer.i`.
"""
import itertools
import json
from enum import Enum, auto

import common
from common import Stream

h = common.repo_env()
import importlib
hbundle = importlib.import_module("hdl21.bundle")
import observe

ASSUMPTIONS = [
    "port order is compared too, but an order-only difference is reported as a correspondence disagreement, not a violation (the property does not fix the order)",
]
TRUSTED = []
LEAF_KINDS = ["input", "output", "inout", "port", "role_hd", "role_dh", "plain",
              # role-carrying leaves that name one end only
              "role_h_", "role_d_", "role__h", "role__d"]
# how a flip parity is written down: the constructor flag, flipped(), or several of them on top of each other
# … or a copy made by list multiplication (`a, b = 2 * B(flipped=True)`: every copy is what the original is — seed C10-r8-2)
VIAS = {False: ["ctor", "ctor+fn", "fn+fn", "mul"], True: ["ctor", "fn", "ctor+fn+fn", "mul", "fn+mul"]}


class _R(Enum):
    HOST = auto()
    DEVICE = auto()


ROLES = h.RoleSet.from_enum(_R)
ROLE = {"HOST": ROLES.HOST, "DEVICE": ROLES.DEVICE, None: None}
# the same roles as other objects (the enum converted a second time; stand-alone Roles): roles are what they are called
ROLES2 = h.RoleSet.from_enum(_R)
IROLE = {"listed": "listed", "same": ROLE, "again": {"HOST": ROLES2.HOST, "DEVICE": ROLES2.DEVICE, None: None},
         "alone": {"HOST": h.Role(name="HOST"), "DEVICE": h.Role(name="DEVICE"), None: None}}


def leaf_json(name, kind, w):
    d = {"n": name, "w": w, "port": kind in ("input", "output", "inout", "port"), "dir": "none", "src": None, "dest": None}
    if kind in ("input", "output", "inout"):
        d["dir"] = kind
    if kind == "role_hd":
        d["src"], d["dest"] = "HOST", "DEVICE"
    if kind == "role_dh":
        d["src"], d["dest"] = "DEVICE", "HOST"
    if kind in ("role_h_", "role_d_"):
        d["src"] = "HOST" if kind == "role_h_" else "DEVICE"
    if kind in ("role__h", "role__d"):
        d["dest"] = "HOST" if kind == "role__h" else "DEVICE"
    d["kind"] = kind
    return d


def mk_inst(B, flip, via, **kw):
    """An instance of `B` whose flip parity is `flip`, written the way `via` says."""
    f = hbundle.flipped
    if via == "mul":
        return (2 * B(flipped=flip, **kw))[1]
    if via == "fn+mul" and flip:
        return (3 * f(B(**kw)))[2]
    if via == "fn" and flip:
        return f(B(**kw))
    if via == "ctor+fn" and not flip:
        return f(B(flipped=True, **kw))
    if via == "fn+fn" and not flip:
        return f(f(B(**kw)))
    if via == "ctor+fn+fn" and flip:
        return f(f(B(flipped=True, **kw)))
    return B(flipped=flip, **kw)


def build_bundle_listed(tree, name, counter):
    """The same definition written the other documented way: a class body under `@h.bundle` whose roles are made without names
    (`HOST, DEVICE = h.Roles(2)`, or `2 * h.Role()`) and are called what the class body calls them. Every definition has its own."""
    n = next(counter)
    HOST, DEVICE = h.Roles(2) if n % 2 else 2 * h.Role()
    R = {"HOST": HOST, "DEVICE": DEVICE, None: None}
    attrs = {"HOST": HOST, "DEVICE": DEVICE}
    if n % 3 == 2:
        # … or the nameless roles are collected in a RoleSet by a dict, which calls them what its keys say (RoleSet.from_dict)
        attrs = {"roles": h.RoleSet.from_dict({"HOST": HOST, "DEVICE": DEVICE})}
    for s in tree["sigs"]:
        k, w = s["kind"], s["w"]
        mk = {"input": h.Input, "output": h.Output, "inout": h.Inout, "port": h.Port}.get(k)
        attrs[s["n"]] = mk(width=w) if mk else h.Signal(width=w, src=R[s["src"]], dest=R[s["dest"]])
    for sub in tree["subs"]:
        sb = build_bundle_listed(sub["of"], name + "_" + sub["n"], counter)
        role = sb.roles[sub["role"]] if sub["role"] else None
        attrs[sub["n"]] = mk_inst(sb, sub["flip"], sub.get("via"), role=role, port=bool(sub.get("port")))
    return h.bundle(type(f"{name}{n}", (), attrs))


def build_bundle(tree, name, counter, irole=None):
    if irole == "listed":
        return build_bundle_listed(tree, name, counter)
    irole = irole or ROLE
    b = h.Bundle(name=f"{name}{next(counter)}")
    b.roles = ROLES
    for s in tree["sigs"]:
        k, w = s["kind"], s["w"]
        if k == "input":
            sig = h.Input(width=w)
        elif k == "output":
            sig = h.Output(width=w)
        elif k == "inout":
            sig = h.Inout(width=w)
        elif k == "port":
            sig = h.Port(width=w)
        else:
            sig = h.Signal(width=w, src=ROLE[s["src"]], dest=ROLE[s["dest"]])
        setattr(b, s["n"], sig)
    for sub in tree["subs"]:
        sb = build_bundle(sub["of"], name + "_" + sub["n"], counter, irole)
        # a sub-bundle instance may itself be declared `port=True`: port-ness is the top-level instance's alone
        inst = mk_inst(sb, sub["flip"], sub.get("via"), role=irole[sub["role"]], port=bool(sub.get("port")))
        setattr(b, sub["n"], inst)
    return b


DIRS = {0: "input", 1: "output", 2: "inout", 3: "none"}


def build_inner(case, B):
    inner = h.Module(name="Inner")
    irole = IROLE[case.get("role_objs", "same")]
    if irole == "listed":
        irole = {"HOST": B.roles["HOST"], "DEVICE": B.roles["DEVICE"], None: None}
    # port-ness as a boolean, or as the `Visibility` the README offers as the other spelling (INTERNAL is no port)
    as_enum = case.get("port_as") == "enum"
    inner.p = mk_inst(B, case["flip"], case.get("via"), port=(h.Visibility.PORT if as_enum else True), role=irole[case["role"]])
    inner.q = B(port=h.Visibility.INTERNAL) if as_enum else B()
    return inner


def impl(case):
    import vlsir.circuit_pb2 as vckt

    dname = {vckt.Port.Direction.INPUT: "input", vckt.Port.Direction.OUTPUT: "output",
             vckt.Port.Direction.INOUT: "inout", vckt.Port.Direction.NONE: "none"}
    # Inner by itself: its flattened ports and internal signals
    try:
        B0 = build_bundle(case["tree"], "B", itertools.count(), IROLE[case.get("role_objs", "same")])
        pkg0 = h.to_proto(build_inner(case, B0))
    except Exception as ex:  # noqa
        return {"reject": f"{type(ex).__name__}: {str(ex)[-200:]}"}
    pi = observe.find_module(pkg0, "Inner")
    ws = observe.module_widths(pi)
    ports = [{"name": p.signal, "width": ws[p.signal], "dir": dname[p.direction]} for p in pi.ports]
    portnames = {p.signal for p in pi.ports}
    internal = [{"name": s.name, "width": s.width} for s in pi.signals if s.name not in portnames]
    out = {"ports": ports, "internal": internal}
    # ... and under parents
    try:
        B = build_bundle(case["tree"], "B", itertools.count(), IROLE[case.get("role_objs", "same")])
        inner = build_inner(case, B)
        outer = h.Module(name="Outer")
        outer.b = B()
        outer.i = inner(p=outer.b)
        pkg = h.to_proto(outer)
        anon = anon_parent(case, B, inner)
    except Exception as ex:  # noqa
        out["parent_reject"] = f"{type(ex).__name__}: {str(ex)[-200:]}"
        return {"ok": out}
    pi2 = observe.find_module(pkg, "Inner")
    if [(p.signal, p.direction) for p in pi2.ports] != [(p.signal, p.direction) for p in pi.ports]:
        out["ports_differ_under_parent"] = [p.signal for p in pi2.ports]
    po = observe.find_module(pkg, "Outer")
    inst = [i for i in po.instances if i.name == "i"][0]
    conns = []
    for c in inst.connections:
        conns.append([c.portname, c.target.sig if c.target.WhichOneof("stype") == "sig" else "<non-signal>"])
    out.update(conns=conns, anon=anon)
    return {"ok": out}


def anon_parent(case, B, inner):
    """A second parent connecting the bundle port from a re-ordered AnonymousBundle whose members are
    fresh signals, nested anonymous bundles, or instances of the sub-bundle types. Returns the observed
    and the expected (by member path) connections of its instance."""
    import random

    rng = random.Random(case.get("anon_seed", 0))
    outer = h.Module(name="Outer2")
    expected = {}

    def build(tree, bdef, path):
        members = []
        for s in tree["sigs"]:
            sig = h.Signal(width=s["w"])
            outer.add(sig, name="s_" + "_".join(path + [s["n"]]))
            expected["p_" + "_".join(path + [s["n"]])] = sig.name
            members.append((s["n"], sig))
        for sub in tree["subs"]:
            subdef = bdef.bundles[sub["n"]].of
            if rng.random() < 0.5:
                members.append((sub["n"], build(sub["of"], subdef, path + [sub["n"]])))
            else:
                bi = subdef()
                outer.add(bi, name="bb_" + "_".join(path + [sub["n"]]))
                for leafpath in leaf_paths(sub["of"]):
                    expected["p_" + "_".join(path + [sub["n"]] + leafpath)] = bi.name + "_" + "_".join(leafpath)
                members.append((sub["n"], bi))
        rng.shuffle(members)
        return h.AnonymousBundle(**dict(members))

    first = build(case["tree"], B, [])
    outer.i = inner(p=first)
    # a second instance: the very same member objects in the very same order, under permuted names (members of equal width swapped)
    expected2 = None
    names = list(first._namespace)
    objs = list(first._namespace.values())
    sigw = {n: o.width for n, o in zip(names, objs) if isinstance(o, h.Signal)}
    swaps = [(a, b) for a in sigw for b in sigw if a < b and sigw[a] == sigw[b]]
    if swaps:
        a, b = swaps[rng.randrange(len(swaps))]
        ren = {a: b, b: a}
        outer.j = inner(p=h.AnonymousBundle(**{ren.get(n, n): o for n, o in zip(names, objs)}))
        expected2 = dict(expected)
        expected2["p_" + a], expected2["p_" + b] = expected["p_" + b], expected["p_" + a]
    try:
        pkg = h.to_proto(outer)
    except Exception as ex:  # noqa
        return {"reject": f"{type(ex).__name__}: {str(ex)[-160:]}"}
    po = observe.find_module(pkg, "Outer2")
    tgt = lambda c: c.target.sig if c.target.WhichOneof("stype") == "sig" else "<non-signal>"
    inst = [i for i in po.instances if i.name == "i"][0]
    got = {c.portname: tgt(c) for c in inst.connections}
    out = {"got": got, "expected": expected}
    if expected2 is not None:
        inst2 = [i for i in po.instances if i.name == "j"][0]
        out["got2"], out["expected2"] = {c.portname: tgt(c) for c in inst2.connections}, expected2
    return out


def leaf_paths(tree):
    out = [[s["n"]] for s in tree["sigs"]]
    for sub in tree["subs"]:
        out += [[sub["n"]] + p for p in leaf_paths(sub["of"])]
    return out


def line(case):
    return {"prop": "C10", "op": "flatten", "tree": case["tree"], "flip": case["flip"], "role": case["role"]}


def judge(case, im, mo):
    if "reject" in im:
        yield ("corr", f"valid bundle design rejected: {im['reject']}")
        return
    got = im["ok"]
    want_ports = [{"name": p["name"], "width": p["width"], "dir": p["dir"]} for p in mo["ports"]]
    spec_ports = [{"name": p["name"], "width": p["width"], "dir": p["dir"]} for p in mo["spec_ports"]]
    key = lambda p: p["name"]
    if sorted(got["ports"], key=key) != sorted(spec_ports, key=key):
        yield ("pred", f"flattened ports differ from the documented rule: got {got['ports']} want {spec_ports}")
    elif got["ports"] != want_ports:
        yield ("corr", "ports differ from the model (order, or the model itself left the rule)")
    want_int = sorted(({"name": p["name"], "width": p["width"]} for p in mo["internal"]), key=key)
    if sorted(got["internal"], key=key) != want_int:
        yield ("pred", f"leaves of the non-port instance are not internal signals: {got['internal']} vs {want_int}")
    if "parent_reject" in got:
        yield ("corr", f"valid bundle connection rejected: {got['parent_reject']}")
        return
    if "ports_differ_under_parent" in got:
        yield ("pred", f"the module's flattened ports depend on whether it has a parent: {got['ports_differ_under_parent']}")
    an = got["anon"]
    if "reject" in an:
        yield ("corr", f"re-ordered anonymous-bundle connection rejected: {an['reject']}")
    elif an["got"] != an["expected"]:
        bad = {k: (v, an["expected"].get(k)) for k, v in an["got"].items() if an["expected"].get(k) != v}
        yield ("pred", f"anonymous-bundle connection does not pair members by path: {bad}")
    elif an.get("got2") != an.get("expected2"):
        bad = {k: (v, an["expected2"].get(k)) for k, v in an["got2"].items() if an["expected2"].get(k) != v}
        yield ("pred", f"a second anonymous bundle (same signals, names permuted) does not pair members by name: {bad}")
    if sorted(got["conns"]) != sorted(mo["conns"] or []):
        yield ("pred", f"bundle connection does not pair members by path: {sorted(got['conns'])} vs {mo['conns']}")


S = Stream("trees", impl, line, judge, chunk=8)


def rand_tree(rng, depth, fan):
    names = ["x", "y", "z", "u", "v", "w"]
    rng.shuffle(names)
    nsig = rng.randint(0 if depth > 0 else 1, fan)
    sigs = [leaf_json(names[i], rng.choice(LEAF_KINDS), rng.choice([1, 3])) for i in range(nsig)]
    subs = []
    if depth > 0:
        nsub = rng.randint(0 if nsig else 1, fan)
        for i in range(nsub):
            fl = rng.random() < 0.5
            subs.append({"n": names[nsig + i] if nsig + i < len(names) else f"s{i}", "flip": fl,
                         "via": rng.choice(VIAS[fl]), "role": rng.choice([None, "HOST", "DEVICE"]),
                         "port": rng.random() < 0.3, "of": rand_tree(rng, depth - 1, fan)})
    return {"sigs": sigs, "subs": subs}


def exhaustive_small():
    """Every single-leaf chain of depth 0..2 x every leaf kind x every flip pattern x roles (exhaustive)."""
    for kind in LEAF_KINDS:
        for depth in (0, 1, 2):
            for flips in itertools.product([False, True], repeat=depth + 1):
                for roles in itertools.product([None, "HOST", "DEVICE"], repeat=depth + 1):
                    t = {"sigs": [leaf_json("x", kind, 1)], "subs": []}
                    k = len(kind) + depth + sum(flips) + sum(r is not None for r in roles)  # walks through the ways of writing a flip
                    for d in range(depth):
                        t = {"sigs": [], "subs": [{"n": f"l{d}", "flip": flips[d + 1], "via": VIAS[flips[d + 1]][(k + d) % len(VIAS[flips[d + 1]])], "role": roles[d + 1], "of": t,
                                                   "port": (sum(flips) + d) % 2 == 1}]}
                    case = {"tree": t, "flip": flips[0], "via": VIAS[flips[0]][(k + depth + 1) % len(VIAS[flips[0]])], "role": roles[0],
                            "role_objs": ("same", "again", "alone")[(len(kind) + depth + sum(flips)) % 3],
                            "port_as": ("bool", "enum")[(k + len(kind)) % 2]}
                    yield case
                    if kind.startswith("role") and any(roles):
                        # ... and with every definition's roles made nameless in a class body (`HOST, DEVICE = h.Roles(2)`)
                        yield dict(case, role_objs="listed")


def run(ctx):
    rng = ctx.rng
    ctx.rep.extra["rule"] = (
        "exhaustive single-leaf chains (depth 0-2 x 11 leaf kinds, incl. role leaves naming one end only, x all flip patterns, each flip written as constructor flag / flipped() / several on top of each other, x all role assignments) + random trees "
        "(depth<=3, fan-out<=3); a tree is non-trivial if it has a sub-bundle or a directed/role leaf; distinct = distinct JSON"
    )
    cases = list(exhaustive_small())
    ctx.rep.extra["exhaustive_chain_family"] = len(cases)
    n = 250 if ctx.quick else 5000
    for k in range(n):
        cases.append({"anon_seed": k, "tree": rand_tree(rng, rng.choice([0, 1, 1, 2, 2, 3]), rng.choice([1, 2, 3])),
                      "flip": rng.random() < 0.5, "role": rng.choice([None, "HOST", "DEVICE"]),
                      "role_objs": rng.choice(["same", "same", "again", "alone"])})
        cases[-1]["via"] = rng.choice(VIAS[cases[-1]["flip"]])
        cases[-1]["port_as"] = rng.choice(["bool", "bool", "enum"])
        if k % 5 == 4:
            cases[-1]["role_objs"] = "listed"
    cases = [c for c in cases if leafcount(c["tree"]) > 0]
    S.run(ctx, cases)


def leafcount(t):
    return len(t["sigs"]) + sum(leafcount(s["of"]) for s in t["subs"])


def replay(ctx, rp):
    return Stream.replay(ctx, rp)
