"""C18 — Module and Bundle namespaces stay coherent under any edit sequence.

Random operation sequences (setattr / add / get / getattr / delattr / elaborate) over a small
alphabet of names (so re-use is frequent, incl. reserved names) and a pool of objects of every
attribute kind plus non-HDL values, on `hdl21.Module` and `hdl21.Bundle`.  After every operation
the complete observable state of the real object is compared with the Lean model's, and the
coherence predicate is evaluated on the implementation's own state.
"""
import json

import common
from common import Stream

h = common.repo_env()

ASSUMPTIONS = [
    "operation alphabet = setattr/add/get/getattr on names not starting with '_' (underscore names are Python-private by design), delattr on any name; "
    "Signal.vis is not mutated after the signal is added; `m.name = <str>` is not an HDL attribute operation",
]
TRUSTED = []
M_KINDS = ["port", "signal", "instance", "instarray", "instbundle", "bundle"]
B_KINDS = ["signal", "bundle"]
M_NAMES = ["a", "b", "c", "ports", "add", "name", "props", "bundle_ports"]
B_NAMES = ["a", "b", "c", "signals", "add", "props", "roles", "name"]


def make_obj(kind, name):
    Inner = h.Module(name="Inner")

    @h.bundle
    class BB:
        x = h.Signal()

    if kind == "signal":
        return h.Signal(name=name)
    if kind == "port":
        return h.Port(name=name)
    if kind == "instance":
        return h.Instance(of=Inner, name=name)
    if kind == "instarray":
        return h.InstanceArray(Inner, 2, name=name)
    if kind == "instbundle":
        return h.Pair(Inner, name=name)
    if kind == "bundle":
        return BB(name=name)
    raise ValueError(kind)


def snapshot(c, names, kinds, objs, cfg):
    idx = {id(o): i for i, o in enumerate(objs)}
    f = lambda o: None if o is None else idx.get(id(o), "foreign")
    views = {
        "port": "ports", "signal": "signals", "instance": "instances",
        "instarray": "instarrays", "instbundle": "instbundles", "bundle": "bundles",
    }
    parent_attr = "_parent_module" if cfg == "module" else "_parent_bundle"
    return {
        "ns": {n: f(c.namespace.get(n)) for n in names},
        "views": {k: {n: f(getattr(c, views[k]).get(n)) for n in names} for k in kinds},
        "names": [o.name for o in objs],
        "parented": [getattr(o, parent_attr, None) is c for o in objs],
        "frozen": (c._elaborated is not None) if cfg == "module" else bool(c._elaborated),
    }


def impl(case):
    cfg, names = case["cfg"], case["names"]
    kinds = M_KINDS if cfg == "module" else B_KINDS
    objs = [make_obj(o["kind"], o["name"]) for o in case["objs"]]
    c = h.Module(name="Top") if cfg == "module" else h.Bundle(name="Top")
    other_c = h.Module(name="Other") if cfg == "module" else h.Bundle(name="Other")
    idx = {id(o): i for i, o in enumerate(objs)}
    others = [3, "str", None, h.Module(name="NotAnAttr"), 1.5]
    trace = []
    for k, op in enumerate(case["ops"]):
        val = lambda v: others[k % len(others)] if v == "other" else objs[v]
        try:
            if op["op"] == "setattr":
                setattr(c, op["key"], val(op["v"]))
                out = "ok"
            elif op["op"] == "add":
                c.add(val(op["v"]), name=op.get("name"))
                out = "ok"
            elif op["op"] == "get":
                r = c.get(op["name"])
                out = {"value": None if r is None else idx.get(id(r), "foreign")}
            elif op["op"] == "getattr":
                r = getattr(c, op["name"])
                out = {"value": idx[id(r)]} if id(r) in idx else "native"
            elif op["op"] == "delattr":
                delattr(c, op["name"])
                out = "ok"
            elif op["op"] == "elaborate":
                if cfg == "module":
                    h.elaborate(c)
                else:
                    # a bundle definition is elaborated when a design that uses an instance of it is
                    user = h.Module(name="UsesIt")
                    user.bi = c()
                    h.elaborate(user)
                out = "ok"
            elif op["op"] == "revis":
                # the visibility of a Signal edited on the object itself (it stays filed where it is until it is added again)
                o_ = objs[op["v"]]
                o_.vis = h.Visibility.INTERNAL if o_.vis == h.Visibility.PORT else h.Visibility.PORT
                out = {"value": None}   # (the model's step for it is a look-up of the empty name: nothing changes)
            elif op["op"] == "steal":
                v = val(op["v"])
                if op["v"] == "other":
                    raise TypeError("not an attribute")
                # a fresh container each time, so that its own checks never interfere
                oc = h.Module(name="Other") if cfg == "module" else h.Bundle(name="Other")
                setattr(oc, op["key"], v)
                out = "ok"
        except Exception as ex:  # noqa
            out = "reject"
        try:
            st = snapshot(c, names, kinds, objs, cfg)
        except Exception as ex:  # the container itself is broken (e.g. a native attribute was deleted)
            st = {"corrupt": f"{type(ex).__name__}: {ex}"}
        trace.append({"out": out, "state": st})
        if "corrupt" in st:
            break
    return {"trace": trace}


def line(case):
    return {"prop": "C18", "op": "ns_run", **case}


def coherent(case, st, stolen=(), kinds_now=None):
    """The property predicate on an implementation state. Returns None or a reason.
    `stolen`: objects that another container has adopted meanwhile (their name / parent are its)."""
    kinds = M_KINDS if case["cfg"] == "module" else B_KINDS
    bound = [o for o in st["ns"].values() if o is not None]
    if len(bound) != len(set(bound)):
        return f"one object is bound under two names: {st['ns']}"
    for n in case["names"]:
        o = st["ns"][n]
        if o == "foreign":
            return f"name {n} bound to an unknown object"
        for k in kinds:
            want = o if (o is not None and (kinds_now or {}).get(o, case["objs"][o]["kind"]) == k) else None
            if st["views"][k][n] != want:
                return f"view {k}[{n}] = {st['views'][k][n]} but namespace[{n}] = {o}"
        if o is not None and o not in stolen:
            if st["names"][o] != n:
                return f"object {o} bound at {n} is named {st['names'][o]}"
            if not st["parented"][o]:
                return f"object {o} bound at {n} does not report the container as its parent"
    return None


def judge(case, im, mo):
    reserved = set(M_NAMES[3:] if case["cfg"] == "module" else B_NAMES[3:])
    stolen = set()
    # the kind each Signal is *filed* under: what it was when it was last added (a later edit of its `vis` re-files nothing)
    vis_now = {i: o["kind"] for i, o in enumerate(case["objs"])}
    filed = dict(vis_now)
    for k, (op, a, b) in enumerate(zip(case["ops"], im["trace"], mo["trace"])):
        if op["op"] == "revis":
            vis_now[op["v"]] = {"signal": "port", "port": "signal"}.get(vis_now[op["v"]], vis_now[op["v"]])
        if op["op"] in ("setattr", "add") and a["out"] == "ok" and op["v"] != "other" and not (op["op"] == "setattr" and op["key"].startswith("_")):
            filed[op["v"]] = vis_now[op["v"]]
        if op["op"] == "steal" and op["v"] != "other":
            stolen.add(op["v"])
        if op["op"] in ("setattr", "add") and a["out"] == "ok" and op["v"] != "other" and not (op["op"] == "setattr" and op["key"].startswith("_")):
            stolen.discard(op["v"])   # filed here again (an assignment to an underscore name files nothing)
        if "corrupt" in a["state"]:
            yield ("pred", f"after op {k} {op}: the container can no longer be inspected: {a['state']['corrupt']}")
            return
        why = coherent(case, a["state"], stolen, filed)
        if why:
            yield ("pred", f"after op {k} {op}: {why}", None)
            return
        # explicit rejection clauses
        if op["op"] == "setattr" and op["key"].startswith("_"):
            pass  # a plain Python attribute of the object: nothing is added to the container (coherence above still applies)
        elif op["op"] in ("setattr", "add") and a["out"] == "ok":
            cur = (im["trace"][k - 1]["state"]["names"] if k > 0 else [o["name"] for o in case["objs"]])
            key = op.get("key") or op.get("name") or (cur[op["v"]] if op["v"] != "other" else None)
            if op["v"] == "other" and not (op["op"] == "setattr" and key.startswith("_")):
                yield ("pred", f"op {k} {op}: non-HDL value accepted")
                return
            if key in reserved or (key or "").startswith("_") and op["op"] == "add":
                yield ("pred", f"op {k} {op}: reserved name accepted")
                return
            if k > 0 and im["trace"][k - 1]["state"]["frozen"]:
                yield ("pred", f"op {k} {op}: addition after elaboration accepted")
                return
        if op["op"] == "delattr" and a["out"] != "reject":
            yield ("pred", f"op {k}: attribute deletion accepted")
            return
        if op["op"] in ("get", "getattr") and isinstance(a["out"], dict):
            n = op["name"]
            if a["out"]["value"] != a["state"]["ns"][n]:
                yield ("pred", f"op {k} {op}: returns {a['out']} but namespace has {a['state']['ns'][n]}")
                return
        if a != b:
            yield ("corr", f"op {k} {op}: impl {json.dumps(a)[:300]} vs model {json.dumps(b)[:300]}")
            return


S = Stream("ops", impl, line, judge, chunk=32)


def gen_case(rng, cfg, nops, with_elab):
    kinds = M_KINDS if cfg == "module" else B_KINDS
    names = M_NAMES if cfg == "module" else B_NAMES
    if with_elab:
        kinds = [k for k in kinds if k in ("port", "signal")]
    nobj = rng.randint(2, 6)
    objs = []
    for i in range(nobj):
        objs.append({"kind": rng.choice(kinds), "name": rng.choice([None, None, "a", "b", "c", names[3]])})
    ops = []
    for k in range(nops):
        r = rng.random()
        nm = rng.choice(names[:3]) if rng.random() < 0.8 else rng.choice(names[3:])
        v = rng.randrange(nobj) if rng.random() < 0.9 else "other"
        if r < 0.4:
            if nm == "name" and v == "other":
                nm = "a"   # `x.name = "text"` renames the container; an HDL object there is refused like any reserved name
            if rng.random() < 0.06:
                nm = rng.choice(["_x", "_a"])   # a plain Python attribute: accepted, nothing filed
            ops.append({"op": "setattr", "key": nm, "v": v})
        elif r < 0.7:
            nm2 = rng.choice([None, None, nm])
            if rng.random() < 0.08:
                nm2 = rng.choice(["_x", "_a", "__len__"])   # never an HDL name: refused
            ops.append({"op": "add", "v": v, "name": nm2})
        elif r < 0.8:
            ops.append({"op": "get", "name": nm})
        elif r < 0.9:
            ops.append({"op": "getattr", "name": nm})
        elif r < 0.93:
            # (attribute deletion is refused whatever the name: HDL attribute, reserved, native or private)
            ops.append({"op": "delattr", "name": rng.choice([nm, nm, "_initialized", "_private", "namespace"])})
        elif r < 0.95 and cfg == "module" and not with_elab and any(o["kind"] in ("signal", "port") for o in objs):
            ops.append({"op": "revis", "v": rng.choice([i for i, o in enumerate(objs) if o["kind"] in ("signal", "port")])})
        elif r < 0.97 and not with_elab:
            ops.append({"op": "steal", "v": v, "key": rng.choice(names[:3])})
        elif with_elab:
            ops.append({"op": "elaborate"})
        else:
            ops.append({"op": "get", "name": nm})
    return {"cfg": cfg, "names": names, "objs": objs, "ops": ops}


def corpus():
    return [
        # pinned-tree witnesses: kind-changing re-use; one object under two names; reserved name via add()
        {"cfg": "module", "names": M_NAMES, "objs": [{"kind": "signal", "name": None}, {"kind": "instance", "name": None}],
         "ops": [{"op": "setattr", "key": "a", "v": 0}, {"op": "setattr", "key": "a", "v": 1}, {"op": "get", "name": "a"}]},
        {"cfg": "module", "names": M_NAMES, "objs": [{"kind": "signal", "name": None}],
         "ops": [{"op": "setattr", "key": "a", "v": 0}, {"op": "setattr", "key": "b", "v": 0}]},
        {"cfg": "module", "names": M_NAMES, "objs": [{"kind": "signal", "name": "ports"}],
         "ops": [{"op": "add", "v": 0, "name": None}, {"op": "getattr", "name": "ports"}]},
        {"cfg": "bundle", "names": B_NAMES, "objs": [{"kind": "signal", "name": None}, {"kind": "bundle", "name": None}],
         "ops": [{"op": "setattr", "key": "a", "v": 0}, {"op": "setattr", "key": "a", "v": 1}, {"op": "setattr", "key": "add", "v": 0}]},
        {"cfg": "module", "names": M_NAMES, "objs": [{"kind": "signal", "name": None}, {"kind": "port", "name": None}],
         "ops": [{"op": "setattr", "key": "a", "v": 0}, {"op": "elaborate"}, {"op": "setattr", "key": "b", "v": 1}]},
        # an object adopted by another module in between must still not get a second name here
        {"cfg": "module", "names": M_NAMES, "objs": [{"kind": "signal", "name": None}],
         "ops": [{"op": "setattr", "key": "a", "v": 0}, {"op": "steal", "v": 0, "key": "c"}, {"op": "setattr", "key": "b", "v": 0}]},
        {"cfg": "bundle", "names": B_NAMES, "objs": [{"kind": "signal", "name": None}],
         "ops": [{"op": "setattr", "key": "a", "v": 0}, {"op": "add", "v": 0, "name": None}, {"op": "setattr", "key": "a", "v": 0}]},
    ]


def class_style(ctx):
    """`@h.module` / `@h.bundle` class bodies equal the equivalent procedural definition."""
    rep = ctx.rep
    for k in range(80 if ctx.quick else 800):
        rng = ctx.rng
        attrs = []
        for n in rng.sample(["a", "b", "c", "d", "e"], rng.randint(1, 5)):
            # a value may carry a name of its own already — another key of the body, or something else: the key it is stored under wins
            preset = rng.choice([None, None, "a", "b", "c", "zz", n])
            attrs.append((n, rng.choice(["signal", "port", "bundle", "instance"]), rng.randint(1, 4), preset))
        as_bundle = k % 2 == 1
        if as_bundle:
            attrs = [a for a in attrs if a[1] in ("signal", "bundle")] or [("a", "signal", 1, "b")]
        inner = h.Module(name="Inner")
        BB = h.Bundle(name="BB")
        BB.x = h.Signal()

        def mk(kind, w, preset):
            return {"signal": lambda: h.Signal(width=w, name=preset), "port": lambda: h.Port(width=w, name=preset),
                    "bundle": lambda: BB(name=preset), "instance": lambda: h.Instance(of=inner, name=preset)}[kind]()

        body = {n: mk(kind, w, preset) for n, kind, w, preset in attrs}
        alias = None
        if rng.random() < 0.25:
            # one object bound under a second name in the class body: refused, as the procedural form refuses it
            alias = (rng.choice([a[0] for a in attrs]), rng.choice(["alias", "z2"]))
            body[alias[1]] = body[alias[0]]
        try:
            mc = (h.bundle if as_bundle else h.module)(type("Top", (), body))
        except RuntimeError:
            mc = None
        if alias is not None:
            rep.count("class_vs_procedural", json.dumps([as_bundle, attrs, alias]))
            if mc is not None:
                rep.fail("pred", {"stream": "class_vs_procedural", "bundle": as_bundle, "attrs": attrs, "alias": alias},
                         f"a class body binding one object under two names was accepted: {sorted(mc.namespace)}")
            continue
        if mc is None:
            rep.fail("corr", {"stream": "class_vs_procedural", "bundle": as_bundle, "attrs": attrs}, "a class body without aliases was refused")
            continue
        mp = (h.Bundle if as_bundle else h.Module)(name="Top")
        for n, kind, w, preset in attrs:
            setattr(mp, n, mk(kind, w, preset))
        parent = "_parent_bundle" if as_bundle else "_parent_module"

        def shape(m):
            def d(o):
                if isinstance(o, h.Signal):
                    return (type(o).__name__, o.width, str(o.vis), o.name, getattr(o, parent) is m)
                return (type(o).__name__, o.name, getattr(o, parent) is m)
            views = ("signals", "bundles", "namespace") if as_bundle else ("ports", "signals", "instances", "bundles", "namespace")
            return {v: [(n, d(o)) for n, o in getattr(m, v).items()] for v in views}

        rep.count("class_vs_procedural", json.dumps([as_bundle, attrs]))
        if shape(mc) != shape(mp) or mc.name != mp.name:
            rep.fail("pred", {"stream": "class_vs_procedural", "bundle": as_bundle, "attrs": attrs}, {"class": shape(mc), "procedural": shape(mp)})
        # every attribute is stored under the key it was written under, and carries that name
        for n, kind, w, preset in attrs:
            o = mc.namespace.get(n)
            if o is None or o.name != n:
                rep.fail("pred", {"stream": "class_vs_procedural", "bundle": as_bundle, "attrs": attrs},
                         f"class-body attribute {n!r} is {'missing' if o is None else 'named ' + repr(o.name)}")
                break
    # sub-classing is rejected
    for base in (h.Module, h.Bundle):
        rep.count("subclassing", base.__name__)
        try:
            type("Sub", (base,), {})
            rep.fail("pred", {"stream": "subclassing", "base": base.__name__}, "sub-classing accepted")
        except RuntimeError:
            pass


def vis_then_replace(ctx):
    """A Signal's `vis` is edited on the held object (outside the property's alphabet: the edit itself is not judged), then its name is
    assigned again — with an object of every kind, or with the very same object: from there on the name is in exactly one view, the
    one of what it now holds (a Signal: by the visibility it has now), and what was replaced is in none (seed C18-r8-2: the old
    object looked for in the view its *present* visibility selects). Exhaustive over first kind x edit x second kind x setattr/add."""
    rep = ctx.rep
    views = {"port": "ports", "signal": "signals", "instance": "instances", "instarray": "instarrays", "instbundle": "instbundles", "bundle": "bundles"}
    for first in ("signal", "port"):
        for edit in (True, False):
            for second in M_KINDS + ["same"]:
                for how in ("setattr", "add"):
                    case = {"stream": "vis_then_replace", "first": first, "edited": edit, "second": second, "how": how}
                    rep.count("vis_then_replace", json.dumps(case))
                    m = h.Module(name="V")
                    old = make_obj(first, "x")
                    m.add(old)
                    if edit:
                        old.vis = h.Visibility.INTERNAL if first == "port" else h.Visibility.PORT
                    new = old if second == "same" else make_obj(second, None if how == "setattr" else "x")
                    try:
                        if how == "setattr":
                            m.x = new
                        else:
                            if second == "same":
                                continue  # add() of an object that is held already is refused: not this family's business
                            m.add(new)
                    except Exception as ex:  # noqa
                        rep.fail("corr", case, f"the re-assignment raised {type(ex).__name__}: {str(ex)[:120]}")
                        continue
                    if isinstance(new, h.Signal):
                        kind = "port" if new.vis == h.Visibility.PORT else "signal"
                    else:
                        kind = second
                    held = {k: getattr(m, v).get("x") for k, v in views.items()}
                    wrong = [k for k, o in held.items() if (o is not None) != (k == kind) or (o is not None and o is not new)]
                    if wrong or m.get("x") is not new or m.namespace.get("x") is not new:
                        rep.fail("pred", case, {"why": f"after the re-assignment `x` should be held in `{views[kind]}` alone",
                                                "views_holding_x": [views[k] for k, o in held.items() if o is not None],
                                                "holding_the_replaced_object": [views[k] for k, o in held.items() if o is old and old is not new]})


def run(ctx):
    rng = ctx.rng
    ctx.rep.extra["rule"] = (
        "random op sequences (<=25 ops quick, <=150 thorough) over 3 free + 5 reserved names and 2-6 objects of every kind; "
        "full state compared after every op; a sequence is non-trivial if it re-uses a name; distinct = distinct JSON"
    )
    n = 600 if ctx.quick else 12000
    maxops = 25 if ctx.quick else 150
    cases = corpus()
    for k in range(n):
        cfg = "module" if k % 3 else "bundle"
        cases.append(gen_case(rng, cfg, rng.randint(3, maxops), with_elab=(k % 5 == 0)))
    S.nontrivial = lambda c: len({(o.get("key") or o.get("name")) for o in c["ops"] if o["op"] in ("setattr", "add")}) < sum(1 for o in c["ops"] if o["op"] in ("setattr", "add"))
    S.run(ctx, cases)
    vis_then_replace(ctx)
    class_style(ctx)


def replay(ctx, rp):
    return Stream.replay(ctx, rp)
