"""C17 — simulation input export is complete and faithful.

Random `Sim`s over every attribute type (analyses incl. nested sweeps / Monte-Carlos to depth 3, controls with every SaveTarget form,
options of every value type), every Scalar form of the numeric fields (int, float, numeric string, Decimal, Prefixed with any SI
prefix), built procedurally, with `@sim` class bodies, through the add-methods and `Sim.add`, exported alone and in lists that share or
do not share testbenches; and testbenches with zero / two / bus ports.

  (C) the SimInput the implementation returns — top, every analysis with its name, variables, sweep kind, nesting; every control; every
      option; in order — equals what the Lean model (SimExport.lean) exports for the same Sim; the model's refusal is the implementation's;
  (P) on the real SimInput: top names the testbench, which is in the package exactly once; one entry per attribute; all analysis names
      distinct whenever the designer's are; every numeric field is the double nearest the exact value (against fractions.Fraction).
"""
import copy
import json
import random
from decimal import Decimal
from fractions import Fraction

import common
import observe

h = common.repo_env()

ASSUMPTIONS = [
    "a numeric field holding a Literal (an expression, not a number) cannot be a float: the exporter's refusal is not judged",
    "SaveMode.SELECTED has no VLSIR counterpart and is not generated; Noise outputs are signals, names and pairs (a Diff bundle instance is not generated)",
    "analysis names given by the designer are non-empty",
]
TRUSTED = ["the harness's construction of Sim objects in the four styles and its reading of vlsir.spice.SimInput"]

PREFIXES = ["YOCTO", "ZEPTO", "ATTO", "FEMTO", "PICO", "NANO", "MICRO", "MILLI", "CENTI", "DECI", "UNIT", "DECA", "HECTO", "KILO", "MEGA", "GIGA", "TERA", "PETA", "EXA", "ZETTA", "YOTTA"]


# ------------------------------------------------------------------------------------------------ generator

def midpoint_num(rng):
    """A Prefixed (or Decimal) with a long mantissa, 1e-60 (relative) to one side of the midpoint of two adjacent doubles:
    anything but one exact conversion rounds it to the wrong neighbour."""
    import math
    from decimal import localcontext

    x = rng.uniform(1, 10) * 10.0 ** rng.randint(-12, 6)
    y = math.nextafter(x, math.inf)
    mid = (Fraction(x) + Fraction(y)) / 2
    mag = math.floor(math.log10(x))
    v = mid + rng.choice([1, -1]) * Fraction(1, 10 ** (60 - mag))
    with localcontext() as ctx:
        ctx.prec = 2000
        dec = Decimal(v.numerator) / Decimal(v.denominator)
        assert Fraction(dec) == v
        if rng.random() < 0.7:
            pre = rng.choice(PREFIXES)
            exp = h.prefix.Prefix[pre].value
            return {"form": "prefixed", "py": [str(dec.scaleb(-exp)), pre], "val": str(v)}
        return {"form": "decimal", "py": str(dec), "val": str(v)}


def gen_num(rng, positive=True):
    if rng.random() < 0.08:
        return midpoint_num(rng)
    form = rng.choice(["int", "float", "str", "decimal", "prefixed", "prefixed", "prefixed_dec"])
    if form == "int":
        v = rng.randint(1, 2000)
        return {"form": form, "py": v, "val": str(Fraction(v))}
    if form == "float":
        v = rng.choice([1e-9, 0.5, 2.5e6, 1e-12, 3.3, 1e3, 0.1, 1.1e-11, 123.456, 7e-15, 2e18])
        return {"form": form, "py": v, "val": str(Fraction(Decimal(str(v))))}
    if form == "str":
        v = rng.choice(["1e-9", "2.5", "100", "0.001", "4.7e3", "11e-12"])
        return {"form": form, "py": v, "val": str(Fraction(Decimal(v)))}
    if form == "decimal":
        v = rng.choice(["0.001", "1.5", "1E-15", "12345.678"])
        return {"form": form, "py": v, "val": str(Fraction(Decimal(v)))}
    pre = rng.choice(PREFIXES)
    exp = h.prefix.Prefix[pre].value
    if form == "prefixed":
        k = rng.randint(1, 999)
        return {"form": form, "py": [str(k), pre], "val": str(Fraction(k) * Fraction(10) ** exp)}
    d = rng.choice(["1.5", "0.37", "11.11", "3.0001", "0.1"])
    return {"form": "prefixed", "py": [d, pre], "val": str(Fraction(Decimal(d)) * Fraction(10) ** exp)}


def gen_sweep(rng):
    k = rng.choice(["linear", "log", "points"])
    if k == "linear":
        return {"k": k, "start": gen_num(rng), "stop": gen_num(rng), "step": gen_num(rng)}
    if k == "log":
        return {"k": k, "start": gen_num(rng), "stop": gen_num(rng), "npts": rng.randint(1, 50)}
    return {"k": k, "pts": [gen_num(rng) for _ in range(rng.randint(1, 4))]}


NAMES = ["a1", "tr", "Analysis0", "Analysis1", "Analysis2", "Analysis4", "x", "mydc", "swp", "mc"]


def gen_an(rng, depth, pool):
    name = None
    if rng.random() < 0.5 and pool:
        name = pool.pop(rng.randrange(len(pool)))
    k = rng.choice(["op", "dc", "ac", "tran", "noise", "custom"] + (["sweep", "monte", "sweep"] if depth > 0 else []))
    a = {"k": k, "name": name}
    if k == "dc":
        a.update(var=rng.choice(["x", "vdd", "temp"]), var_by=rng.choice(["str", "param"]), sweep=gen_sweep(rng))
    elif k == "ac":
        a.update(start=gen_num(rng), stop=gen_num(rng), npts=rng.randint(1, 100))
    elif k == "tran":
        a.update(tstop=gen_num(rng), tstep=gen_num(rng) if rng.random() < 0.6 else None)
    elif k == "noise":
        a.update(out=rng.choice(["signal", "name", "pair"]), src=rng.choice(["inst", "name"]), start=gen_num(rng), stop=gen_num(rng), npts=rng.randint(1, 100))
    elif k == "custom":
        a.update(cmd=rng.choice([".pz v(a) v(b)", "hb tones=[1G]", "custom_cmd"]))
    elif k == "sweep":
        a.update(var=rng.choice(["x", "temp"]), var_by=rng.choice(["str", "param"]), sweep=gen_sweep(rng), inner=[gen_an(rng, depth - 1, pool) for _ in range(rng.randint(1, 3))])
    elif k == "monte":
        a.update(npts=rng.randint(1, 20), inner=[gen_an(rng, depth - 1, pool) for _ in range(rng.randint(1, 3))])
    return a


def gen_attr(rng, pool):
    r = rng.random()
    if r < 0.45:
        return {"t": "an", "a": gen_an(rng, 3 if rng.random() < 0.4 else 0, pool)}
    if r < 0.85:
        k = rng.choice(["include", "lib", "save", "save", "meas", "param", "literal"])
        c = {"k": k}
        if k == "include":
            # spellings a path-normaliser would rewrite: up-level steps (another file when the skipped directory is a symlink),
            # doubled and trailing separators as pathlib keeps or drops them, environment variables, a leading `~`, spaces
            c["path"] = rng.choice(["/home/models", "models/a.sp", "./x", "models/current/../corners.lib", "../pdk/x.sp", "$PDK_ROOT/libs.tech/../libs.ref/x.spice",
                                    "~/models/a.sp", "a//b.sp", "/pdk/my models/tt.sp", "..", "a/./b/../c.sp"])
        elif k == "lib":
            c.update(path=rng.choice(["/pdk/lib.sp", "lib", "/pdk/models/current/../corners.lib", "../../lib.sp", "${PDK}/x/../lib.sp"]), section=rng.choice(["fast", "tt"]))
        elif k == "save":
            c["t"] = {"k": rng.choice(["all", "none", "signal", "signals", "name", "names"])}
        elif k == "meas":
            c.update(an=rng.choice(["tran", "dc", "ac", "op"]), an_by=rng.choice(["str", "obj"]), name=rng.choice(["m1", "delay", "gain"]), expr=rng.choice(["trig_targ", "max(v(a))"]))
        elif k == "param":
            c.update(name=rng.choice(["x", "y", "vdd"]), val=gen_num(rng))
        else:
            c["text"] = rng.choice([".option foo", "* a comment", "raw text"])
        return {"t": "ctrl", "c": c}
    vk = rng.choice(["bool", "num", "str", "literal"])
    o = {"t": "opt", "name": rng.choice(["reltol", "temp", "method", "gmin"]), "vk": vk}
    if vk == "bool":
        o["py"] = rng.random() < 0.5
    elif vk == "num":
        o["num"] = gen_num(rng)
    else:
        o["py"] = rng.choice(["gear", "some expr", "trap"])
    return o


def gen_sim(rng, k):
    tbk = "good" if rng.random() < 0.82 else rng.choice(["bus", "noport", "twoports", "bundleport", "bundleport"])
    pool = list(NAMES)
    rng.shuffle(pool)
    sim = {"tb": {"kind": tbk, "name": f"tb{k}"}, "style": rng.choice(["proc", "class", "methods", "add"]),
           "attrs": [gen_attr(rng, pool) for _ in range(rng.randint(0, 8))]}
    if sim["style"] in ("proc", "add"):
        # one unnamed analysis object listed more than once: again at the top level, or as the inner of a sweep / Monte-Carlo
        tops = [i for i, a in enumerate(sim["attrs"]) if a["t"] == "an" and a["a"]["name"] is None and a["a"]["k"] not in ("sweep", "monte")]
        if tops and rng.random() < 0.4:
            i = rng.choice(tops)
            if rng.random() < 0.5:
                sim["attrs"].append(dict(copy.deepcopy(sim["attrs"][i]), same_as=i))
            else:
                inner = dict(copy.deepcopy(sim["attrs"][i]["a"]), ref_top=i)
                sim["attrs"].append({"t": "an", "a": {"k": "monte", "name": None, "npts": 3, "inner": [inner]}})
    return sim


def make_cases(rng, n):
    cases = []
    for k in range(n):
        if rng.random() < 0.2:
            sims = [gen_sim(rng, f"{k}_{j}") for j in range(rng.randint(2, 3))]
            r = rng.random()
            if r < 0.4:  # share one testbench
                for s in sims[1:]:
                    s["tb"] = dict(sims[0]["tb"], shared=True)
            elif r < 0.65:
                # two different testbenches under one bare name: `sim.tb(name)` lives in hdl21.sim.data, the designer's own module elsewhere
                sims[0]["tb"] = {"kind": "good", "name": f"same{k}"}
                sims[1]["tb"] = {"kind": "user", "name": f"same{k}"}
            cases.append({"sims": sims, "as_list": True})
        else:
            cases.append({"sims": [gen_sim(rng, str(k))], "as_list": rng.random() < 0.1})
    return cases


# ------------------------------------------------------------------------------------------------ model form

def an_type(k):
    return {"op": "op", "dc": "dc", "ac": "ac", "tran": "tran", "noise": "noise", "custom": "custom", "sweep": "sweep", "monte": "monte"}[k]


def model_an(a, class_key=None):
    name = class_key if class_key is not None else a["name"]
    k = a["k"]
    m = {"k": k, "name": name}
    sw = lambda s: ({"k": "linear", "start": s["start"]["val"], "stop": s["stop"]["val"], "step": s["step"]["val"]} if s["k"] == "linear" else
                    {"k": "log", "start": s["start"]["val"], "stop": s["stop"]["val"], "npts": s["npts"]} if s["k"] == "log" else
                    {"k": "points", "pts": [p["val"] for p in s["pts"]]})
    if k == "dc":
        m.update(var=a["var"], sweep=sw(a["sweep"]))
    elif k == "ac":
        m.update(start=a["start"]["val"], stop=a["stop"]["val"], npts=a["npts"])
    elif k == "tran":
        m.update(tstop=a["tstop"]["val"], tstep=a["tstep"]["val"] if a["tstep"] else None)
    elif k == "noise":
        m.update(outp="a", outn="b" if a["out"] == "pair" else "", src="v", start=a["start"]["val"], stop=a["stop"]["val"], npts=a["npts"])
    elif k == "custom":
        m.update(cmd=a["cmd"])
    elif k == "sweep":
        m.update(var=a["var"], sweep=sw(a["sweep"]), inner=[model_an(x) for x in a["inner"]])
    elif k == "monte":
        m.update(npts=a["npts"], inner=[model_an(x) for x in a["inner"]])
    return m


def opt_value(o):
    if o["vk"] == "bool":
        return "I:1" if o["py"] else "I:0"
    if o["vk"] == "num":
        return "P:" + o["num"]["val"]
    return "L:" + o["py"]


def class_keys(sim):
    """attribute names a class-style definition gives: k0, k1, …, one of them possibly `_`"""
    n = len(sim["attrs"])
    # some keys start with an underscore (only the key `_` itself means "leave unnamed")
    return [(f"_k{i}" if (i * 7 + n) % 4 == 0 else f"k{i}") for i in range(n)]


def model_line(sim, tb_ports, tb_name):
    attrs = []
    keys = class_keys(sim) if sim["style"] == "class" else [None] * len(sim["attrs"])
    for a, key in zip(sim["attrs"], keys):
        if a["t"] == "an":
            attrs.append({"t": "an", "a": model_an(a["a"], key)})
        elif a["t"] == "ctrl":
            c = dict(a["c"])
            if c["k"] == "save":
                t = c["t"]["k"]
                c = {"k": "save", "t": {"k": t, "v": {"signal": "a", "name": "xyz", "signals": ["a", "b"], "names": ["n1", "n2", "n3"]}.get(t, "")}}
            elif c["k"] == "param":
                c = {"k": "param", "name": key if key is not None else c["name"], "val": "P:" + c["val"]["val"]}
            elif c["k"] == "meas":
                c = {"k": "meas", "an": c["an"], "name": key if key is not None else c["name"], "expr": c["expr"]}
            elif c["k"] in ("include", "lib"):
                from pathlib import Path
                c["path"] = str(Path(c["path"]))  # the field's type is pathlib.Path: `./x` is the path `x`
            attrs.append({"t": "ctrl", "c": c})
        else:
            attrs.append({"t": "opt", "name": key if key is not None else a["name"], "value": opt_value(a)})
    return {"prop": "C17", "op": "export", "tb_ports": tb_ports, "tb_name": tb_name, "attrs": attrs}


# ------------------------------------------------------------------------------------------------ implementation

def py_num(n):
    if n is None:
        return None
    f = n["form"]
    if f in ("int", "float", "str"):
        return n["py"]
    if f == "decimal":
        return Decimal(n["py"])
    return h.Prefixed(number=Decimal(n["py"][0]), prefix=h.prefix.Prefix[n["py"][1]])


def build_tb(spec, cache):
    import hdl21.sim as hs

    if spec.get("shared") and spec["name"] in cache:
        return cache[spec["name"]]
    k = spec["kind"]
    if k == "good":
        t = hs.tb(spec["name"])
    else:
        t = h.Module(name=spec["name"])
        if k == "bus":
            t.VSS = h.Port(width=2)
        elif k == "twoports":
            t.VSS, t.other = h.Port(), h.Port()
        elif k == "user":
            t.VSS = h.Port()
        elif k == "bundleport":
            # one scalar port now — and two more once the bundle-valued port is flattened
            t.VSS = h.Port()
            t.d = h.Diff(port=True)
        else:
            t.VSS = h.Signal()
    t.a, t.b = h.Signal(), h.Signal()
    vss = t.VSS[0] if k == "bus" else t.VSS
    t.r = h.R(r=1)(p=t.a, n=vss)
    t.r2 = h.R(r=1)(p=t.b, n=vss)
    t.v = h.Vdc(dc=1)(p=t.a, n=vss)
    cache[spec["name"]] = t
    return t


def build_attr(a, t, built=()):
    import hdl21.sim as hs

    if a.get("same_as") is not None:
        return built[a["same_as"]]  # the very same (unnamed) analysis object, listed again

    def sweep(s):
        if s["k"] == "linear":
            return hs.LinearSweep(py_num(s["start"]), py_num(s["stop"]), py_num(s["step"]))
        if s["k"] == "log":
            return hs.LogSweep(py_num(s["start"]), py_num(s["stop"]), s["npts"])
        return hs.PointSweep([py_num(p) for p in s["pts"]])

    def an(x):
        k = x["k"]
        var = lambda: (hs.Param(5, name=x["var"]) if x.get("var_by") == "param" else x["var"])
        if k == "op":
            return hs.Op(name=x["name"])
        if k == "dc":
            return hs.Dc(var=var(), sweep=sweep(x["sweep"]), name=x["name"])
        if k == "ac":
            return hs.Ac(sweep=hs.LogSweep(py_num(x["start"]), py_num(x["stop"]), x["npts"]), name=x["name"])
        if k == "tran":
            return hs.Tran(tstop=py_num(x["tstop"]), tstep=py_num(x["tstep"]), name=x["name"])
        if k == "noise":
            out = {"signal": t.a, "name": "a", "pair": (t.a, t.b)}[x["out"]]
            return hs.Noise(output=out, input_source=t.v if x["src"] == "inst" else "v", sweep=hs.LogSweep(py_num(x["start"]), py_num(x["stop"]), x["npts"]), name=x["name"])
        if k == "custom":
            return hs.CustomAnalysis(cmd=x["cmd"], name=x["name"])
        inner = lambda: [(built[i["ref_top"]] if i.get("ref_top") is not None else an(i)) for i in x["inner"]]
        if k == "sweep":
            return hs.SweepAnalysis(inner=inner(), var=var(), sweep=sweep(x["sweep"]), name=x["name"])
        return hs.MonteCarlo(inner=inner(), npts=x["npts"], name=x["name"])

    if a["t"] == "an":
        return an(a["a"])
    if a["t"] == "opt":
        v = a["py"] if a["vk"] in ("bool", "str") else (h.Literal(a["py"]) if a["vk"] == "literal" else py_num(a["num"]))
        return hs.Options(v, name=a["name"])
    c = a["c"]
    k = c["k"]
    if k == "include":
        return hs.Include(c["path"])
    if k == "lib":
        return hs.Lib(c["path"], c["section"])
    if k == "save":
        targ = {"all": hs.SaveMode.ALL, "none": hs.SaveMode.NONE, "signal": t.a, "signals": [t.a, t.b], "name": "xyz", "names": ["n1", "n2", "n3"]}[c["t"]["k"]]
        return hs.Save(targ)
    if k == "meas":
        if c["an_by"] == "obj":
            tgt = {"tran": hs.Tran(tstop=1), "dc": hs.Dc(var="x", sweep=hs.PointSweep([1])), "ac": hs.Ac(sweep=hs.LogSweep(1, 10, 2)), "op": hs.Op()}[c["an"]]
        else:
            tgt = c["an"]
        return hs.Meas(analysis=tgt, expr=c["expr"], name=c["name"])
    if k == "param":
        return hs.Param(py_num(c["val"]), name=c["name"])
    return h.Literal(c["text"])


METHOD = {"Op": "op", "Dc": "dc", "Ac": "ac", "Tran": "tran", "Noise": "noise", "SweepAnalysis": "sweepanalysis", "MonteCarlo": "montecarlo",
          "CustomAnalysis": "customanalysis", "Save": "save", "Meas": "meas", "Include": "include", "Lib": "lib", "Param": "param", "Literal": "literal", "Options": "options"}


def build_sim(spec, cache):
    import hdl21.sim as hs
    import dataclasses

    t = build_tb(spec["tb"], cache)
    attrs = []
    for a in spec["attrs"]:
        attrs.append(build_attr(a, t, attrs))
    style = spec["style"]
    if style == "proc":
        return hs.Sim(tb=t, attrs=attrs)
    if style == "add":
        s = hs.Sim(tb=t)
        k = 0
        while k < len(attrs):
            if k + 1 < len(attrs) and k % 3 == 0:
                s.add(attrs[k], attrs[k + 1])
                k += 2
            else:
                s.add(attrs[k])
                k += 1
        return s
    if style == "methods":
        s = hs.Sim(tb=t)
        for a in attrs:
            fields = {f.name: getattr(a, f.name) for f in dataclasses.fields(a)}
            getattr(s, METHOD[type(a).__name__])(**fields)
        return s
    ns = {"tb": t}
    for key, a in zip(class_keys(spec), attrs):
        ns[key] = a
    return hs.sim(type("GenSim", (), ns))


def num_hex(x):
    return float(x).hex()


def read_siminput(inp):
    def sweep(s):
        k = s.WhichOneof("tp")
        if k == "linear":
            return {"k": "linear", "start": num_hex(s.linear.start), "stop": num_hex(s.linear.stop), "step": num_hex(s.linear.step)}
        if k == "log":
            return {"k": "log", "start": num_hex(s.log.start), "stop": num_hex(s.log.stop), "npts": num_hex(s.log.npts)}
        return {"k": "points", "pts": [num_hex(p) for p in s.points.points]}

    def an(a):
        k = a.WhichOneof("an")
        x = getattr(a, k)
        o = {"k": k, "name": x.analysis_name}
        if k == "dc":
            o.update(var=x.indep_name, sweep=sweep(x.sweep))
        elif k == "ac":
            o.update(start=num_hex(x.fstart), stop=num_hex(x.fstop), npts=x.npts)
        elif k == "tran":
            o.update(tstop=num_hex(x.tstop), tstep=num_hex(x.tstep))
        elif k == "noise":
            o.update(outp=x.output_p, outn=x.output_n, src=x.input_source, start=num_hex(x.fstart), stop=num_hex(x.fstop), npts=x.npts)
        elif k == "custom":
            o.update(cmd=x.cmd)
        elif k == "sweep":
            o.update(var=x.variable, sweep=sweep(x.sweep), inner=[an(i) for i in x.an])
        elif k == "monte":
            o.update(npts=x.npts, inner=[an(i) for i in x.an])
        return o

    def ctrl(c):
        k = c.WhichOneof("ctrl")
        if k == "include":
            return {"k": k, "path": c.include.path}
        if k == "lib":
            return {"k": k, "path": c.lib.path, "section": c.lib.section}
        if k == "save":
            w = c.save.WhichOneof("save")
            import vlsir.spice_pb2 as vsp
            return {"k": k, "t": {"mode": vsp.Save.SaveMode.Name(c.save.mode)} if w == "mode" else {"signal": c.save.signal}}
        if k == "meas":
            return {"k": k, "an": c.meas.analysis_type, "name": c.meas.name, "expr": c.meas.expr}
        if k == "param":
            return {"k": k, "name": c.param.name, "val": observe.canon_param(c.param.value)}
        return {"k": "literal", "text": c.literal}

    return {"top": inp.top, "an": [an(a) for a in inp.an], "ctrls": [ctrl(c) for c in inp.ctrls],
            "opts": [[o.name, observe.canon_param(o.value)] for o in inp.opts],
            "pkg_modules": [m.name for m in inp.pkg.modules]}


def impl_sim(case):
    import hdl21.sim as hs

    cache = {}
    out = {"sims": []}
    try:
        sims = [build_sim(s, cache) for s in case["sims"]]
    except Exception as ex:  # noqa  (a class-defined Sim checks its testbench when it is defined)
        import traceback
        return {"refused": common.errstr(ex) + " @ " + traceback.format_exc()[-300:], "sims": [], "at_construction": True}
    out["tb_names"] = [s.tb.name for s in sims]
    out["nattrs"] = [len(s.attrs) for s in sims]
    try:
        res = hs.to_proto(sims if case["as_list"] else sims[0])
        if not case["as_list"]:
            res = [res]
        out["sims"] = [read_siminput(r) for r in res]
    except Exception as ex:  # noqa
        out["refused"] = common.errstr(ex)
    # the testbenches' ports after elaboration, for the model
    out["tb_ports"] = []
    for s in sims:
        try:
            out["tb_ports"].append([p.width for p in s.tb.ports.values()])
        except Exception:  # noqa
            out["tb_ports"].append(None)
    return out


# ------------------------------------------------------------------------------------------------ judge

def near(val):
    return float(Fraction(val)).hex()


def expect_from_model(mo):
    """model output -> the shape read_siminput produces (exact values -> nearest doubles)"""
    def sweep(s):
        if s["k"] == "linear":
            return {"k": "linear", "start": near(s["start"]), "stop": near(s["stop"]), "step": near(s["step"])}
        if s["k"] == "log":
            return {"k": "log", "start": near(s["start"]), "stop": near(s["stop"]), "npts": float(s["npts"]).hex()}
        return {"k": "points", "pts": [near(p) for p in s["pts"]]}

    def an(a):
        o = {"k": a["k"], "name": a["name"]}
        k = a["k"]
        if k == "dc":
            o.update(var=a["var"], sweep=sweep(a["sweep"]))
        elif k == "ac":
            o.update(start=near(a["start"]), stop=near(a["stop"]), npts=a["npts"])
        elif k == "tran":
            o.update(tstop=near(a["tstop"]), tstep=near(a["tstep"]) if a["tstep"] is not None else float(0).hex())
        elif k == "noise":
            o.update(outp=a["outp"], outn=a["outn"], src=a["src"], start=near(a["start"]), stop=near(a["stop"]), npts=a["npts"])
        elif k == "custom":
            o.update(cmd=a["cmd"])
        elif k == "sweep":
            o.update(var=a["var"], sweep=sweep(a["sweep"]), inner=[an(i) for i in a["inner"]])
        elif k == "monte":
            o.update(npts=a["npts"], inner=[an(i) for i in a["inner"]])
        return o

    return {"an": [an(a) for a in mo["an"]], "ctrls": mo["ctrls"], "opts": mo["opts"]}


def adopt_invented(spec_ans, exp_ans, got_ans):
    """Walk the designer's analyses, the expected entries and the exported entries together; where the designer gave no name, the
    exported name becomes the expected one. Returns the names taken over."""
    out = []
    for sa, ea, ga in zip(spec_ans, exp_ans, got_ans):
        if not sa.get("name") and isinstance(ga, dict) and isinstance(ea, dict) and ga.get("name"):
            ea["name"] = ga["name"]
            out.append(ga["name"])
        if isinstance(ea, dict) and isinstance(ga, dict):
            out += adopt_invented(sa.get("inner", []), ea.get("inner", []), ga.get("inner", []))
    return out


def all_names(ans):
    out = []
    for a in ans:
        out.append(a["name"])
        out += all_names(a.get("inner", []))
    return out


def user_names(ans):
    out = []
    for a in ans:
        if a["name"]:
            out.append(a["name"])
        out += user_names(a.get("inner", []))
    return out


def first_diff(a, b, path=""):
    if type(a) != type(b):
        return f"{path}: {a!r} != {b!r}"
    if isinstance(a, dict):
        for k in sorted(set(a) | set(b)):
            if k not in a or k not in b:
                return f"{path}.{k}: missing on one side"
            d = first_diff(a[k], b[k], f"{path}.{k}")
            if d:
                return d
        return None
    if isinstance(a, list):
        if len(a) != len(b):
            return f"{path}: {len(a)} entries vs {len(b)}"
        for i, (x, y) in enumerate(zip(a, b)):
            d = first_diff(x, y, f"{path}[{i}]")
            if d:
                return d
        return None
    return None if a == b else f"{path}: {a!r} != {b!r}"


def judge(case, im, mos):
    if "build_error" in im:
        yield ("corr", f"harness could not build the Sim: {im['build_error']}")
        return
    rejects = [("reject" in mo) for mo in mos]
    if "refused" in im:
        if not any(rejects):
            yield ("corr", f"a Sim the model exports is refused: {im['refused'][-300:]}")
        return
    if any(rejects):
        yield ("pred", {"why": "a testbench that does not have exactly one scalar port was exported", "tb_ports": im["tb_ports"]})
        return
    for k, (spec, got, mo) in enumerate(zip(case["sims"], im["sims"], mos)):
        # ---- (P)
        want_top = im["tb_names"][k]
        if got["top"].split(".")[-1] != want_top:
            yield ("pred", {"why": f"top {got['top']} does not name the testbench {want_top}"})
        if got["pkg_modules"].count(got["top"]) != 1:
            yield ("pred", {"why": f"testbench {got['top']} is in the package {got['pkg_modules'].count(got['top'])} times", "modules": got["pkg_modules"]})
        if len(got["an"]) + len(got["ctrls"]) + len(got["opts"]) != len(spec["attrs"]):
            yield ("pred", {"why": f"{len(spec['attrs'])} attributes, {len(got['an'])}+{len(got['ctrls'])}+{len(got['opts'])} entries"})
        names = all_names(got["an"])
        model_in = model_line(spec, [1], "x")["attrs"]
        un = user_names([a["a"] for a in model_in if a["t"] == "an"])
        if len(set(un)) == len(un) and len(set(names)) != len(names):
            yield ("pred", {"why": "two analyses share a name although the designer's names are distinct", "names": names})
        # ---- (C) + numeric (P)
        exp = expect_from_model(mo["ok"])
        # Which names unnamed analyses receive is the exporter's business ("unnamed analyses receive distinct names"): the names it
        # chose are taken over into the expected entry once they are fresh — none of the designer's, no two alike (checked above and here).
        spec_ans = [a["a"] for a in model_in if a["t"] == "an"]
        invented = adopt_invented(spec_ans, exp["an"], got["an"])
        if len(set(un)) == len(un) and (set(invented) & set(un) or len(set(invented)) != len(invented)):
            yield ("pred", {"why": "a name invented for an unnamed analysis is a designer's name or is invented twice", "invented": invented, "designer": un})
        d = first_diff(exp, {"an": got["an"], "ctrls": got["ctrls"], "opts": got["opts"]})
        if d:
            kind = "pred" if any(t in d for t in ("start", "stop", "step", "tstop", "tstep", "pts", "npts")) else "corr"
            # structure, names, order: model vs implementation; numeric fields: exact value vs exported double
            yield (kind if kind == "pred" else "pred", {"why": "exported SimInput differs from the Sim (model = expected entry; numbers = nearest double of the exact value)", "first_difference": d, "sim": k})


def run_cases(ctx, cases):
    impls = common.pmap(impl_sim, cases, chunk=8)
    lines, idx = [], []
    for c, im in zip(cases, impls):
        ix = []
        for k, s in enumerate(c["sims"]):
            ports = (im.get("tb_ports") or [None] * len(c["sims"]))[k] if "build_error" not in im else None
            if ports is None or s["tb"]["kind"] == "bundleport":
                # (bundleport: whatever state a refusal left the module in — flattened, it has three ports)
                ports = {"good": [1], "bus": [2], "noport": [], "twoports": [1, 1], "bundleport": [1, 1, 1], "user": [1]}[s["tb"]["kind"]]
            ix.append(len(lines))
            lines.append(model_line(s, ports, (im.get("tb_names") or ["?"] * len(c["sims"]))[k] if "build_error" not in im else "?"))
        idx.append(ix)
    outs = ctx.drv.run(lines)
    return [(c, im, [outs[i] for i in ix]) for c, im, ix in zip(cases, impls, idx)]


def corpus():
    tb = {"kind": "good", "name": "tbc"}
    save = lambda k: {"t": "ctrl", "c": {"k": "save", "t": {"k": k}}}
    c1 = {"sims": [{"tb": tb, "style": "proc", "attrs": [save("signals"), save("names"), save("name"), save("signal"), save("all"), save("none")]}], "as_list": False}
    c2 = {"sims": [{"tb": dict(tb, name="tbd"), "style": "proc", "attrs": [{"t": "an", "a": {"k": "op", "name": "Analysis0"}}, {"t": "an", "a": {"k": "op", "name": None}},
          {"t": "an", "a": {"k": "monte", "name": None, "npts": 3, "inner": [{"k": "op", "name": "Analysis2"}, {"k": "op", "name": None}]}}]}], "as_list": False}
    return [c1, c2]


def run(ctx):
    rep = ctx.rep
    rep.extra["rule"] = (
        "random Sims: 0-8 attributes over all analysis / control / option types, nesting <= 3, every SaveTarget form, every Scalar form of "
        "numeric fields (int, float, numeric str, Decimal, Prefixed x 21 SI prefixes), 4 construction styles, alone and in lists sharing / not "
        "sharing testbenches, good and bad testbenches; non-trivial = exported; distinct = distinct case JSON"
    )
    n = 300 if ctx.quick else 6000
    cases = corpus() + make_cases(ctx.rng, n)
    stats = {"exported": 0, "refused": 0, "model_rejects": 0, "styles": {}, "attr_kinds": {}, "num_forms": {}, "lists": 0, "max_depth": 0}

    def walk_nums(x):
        if isinstance(x, dict):
            if "form" in x and "val" in x:
                stats["num_forms"][x["form"]] = stats["num_forms"].get(x["form"], 0) + 1
            for v in x.values():
                walk_nums(v)
        elif isinstance(x, list):
            for v in x:
                walk_nums(v)

    for c, im, mos in run_cases(ctx, cases):
        stats["exported" if im.get("sims") else "refused"] += 1
        stats["model_rejects"] += any("reject" in m for m in mos)
        stats["lists"] += c["as_list"]
        for s in c["sims"]:
            stats["styles"][s["style"]] = stats["styles"].get(s["style"], 0) + 1
            for a in s["attrs"]:
                kk = a["t"] + ":" + (a["a"]["k"] if a["t"] == "an" else a["c"]["k"] + ("/" + a["c"]["t"]["k"] if a["c"]["k"] == "save" else "") if a["t"] == "ctrl" else a["vk"])
                stats["attr_kinds"][kk] = stats["attr_kinds"].get(kk, 0) + 1
        walk_nums(c)
        rep.count("sims", json.dumps(c), nontrivial=bool(im.get("sims")))
        for v in judge(c, im, mos):
            rep.fail(v[0], {"stream": "sims", "case": c}, {"detail": v[1], "refused": im.get("refused")})
    if (rep.corr_disagreements or rep.proof_broken) and not any(f["kind"] == "pred" for f in rep.failures):
        import time
        t0, extra, found, seed = time.time(), 0, False, ctx.seed
        budget = 60 if ctx.quick else 300
        while time.time() - t0 < budget and not found:
            seed += 1000
            for c, im, mos in run_cases(ctx, make_cases(random.Random(seed), 400)):
                extra += 1
                for v in judge(c, im, mos):
                    if v[0] == "pred" and not found:
                        rep.fail("pred", {"stream": "sims", "case": c}, {"detail": v[1], "found_by": "failing-input search"})
                        found = True
        rep.extra["failing_input_search"] = {"cases": extra, "found": found, "seconds": round(time.time() - t0, 1)}
    rep.extra["sim_stats"] = stats
    rep.sample({"case": cases[3] if len(cases) > 3 else cases[0]})


def replay(ctx, rp):
    case = rp["case"]["case"]
    (c, im, mos), = run_cases(ctx, [case])
    fails = list(judge(c, im, mos))
    print(json.dumps({"failures": fails, "refused": im.get("refused")}, default=str)[:3000])
    if any(f[0] == "pred" for f in fails):
        print(f"VIOLATION property=C17 replay={rp.get('_path')}")
        return 1
    return 1 if fails else 0
