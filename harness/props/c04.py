"""C04 — the last connection made to a port is the one that gets built.

For a valid generated design D (its `conns` are the *final* map) a random operation history is generated per module:
every port sees up to three dead connections — drawn from every connectable kind that occurs in the module (signals, slices,
concatenations, port references, bundles, bundle references, anonymous bundles, no-connects) — made by call, by assignment,
by connect(), by dict shorthand and by replace(), interleaved with disconnects (also of ports that end unconnected, and
illegal ones that must raise KeyError), before and after the instance is added to its module, and across `n * inst`
array conversion; each port's last operation establishes D's connection.

  (C) after every single operation the implementation's state — `conns` of every instance in dict order, `_connected_ports`
      of every connectable ever created, `Refs.all/portrefs/connrefs` — equals the state of the Lean model (InstOps.lean);
  (P) `Inv` (back-references = inverse of conns) and "conns = final map of D" are evaluated on the implementation's state;
      the package of the history-built design has the nets of D (Sem.pkg = Sem.src, Lean) and — up to the order of signals and
      of an instance's connections — is the package of D built directly.
"""
import copy
import json
import random

import common
import designs
import build
import observe
import gen_design
from props import c01

h = common.repo_env()

ASSUMPTIONS = [
    "dead connections only reference ports that exist (`inst.nosuchport` is a designer error, not a trace)",
    "a history-built design that is rejected while the directly built one is accepted counts as broken correspondence",
    "package equality is taken up to the names and order of internal signals and the order of an instance's connections: which "
    "implicit net gets which invented name follows the dict order of `conns`, which is history-dependent by construction and "
    "carries no connectivity (module ports, instances, parameters, widths and the net partition are compared exactly)",
]
TRUSTED = ["harness/build.py (IR -> hdl21 objects, history executor hooks)", "observe.pkg_json"]


# --------------------------------------------------------------------------------------------- history generation

def conn_prefs(c):
    """(inst, port) of every port reference inside a connection IR."""
    if c["k"] == "pref":
        yield (c["inst"], c["port"])
    if c["k"] == "slice":
        yield from conn_prefs(c["p"])
    if c["k"] == "concat":
        for p in c["ps"]:
            yield from conn_prefs(p)
    if c["k"] == "anon":
        for _, v in c["fields"]:
            yield from conn_prefs(v)


def gen_history(rng, design, intensity=1.0):
    """-> {module name: {"pre": [op...], "post": [op...]}}"""
    out = {}
    for m in design["modules"]:
        pool = [c for i in m["insts"] for _, c in i["conns"] if c["k"] != "orphan"]
        pool += [{"k": "sig", "n": s["n"]} for s in m["sigs"]]
        pool += [{"k": "slice", "p": {"k": "sig", "n": s["n"]}, "i": {"i": rng.randrange(s["w"])}} for s in m["sigs"]]
        pool += [{"k": "bundle", "n": b["n"]} for b in m["bundles"]]
        pool += [{"k": "noconn"}, {"k": "noconn", "name": "ncx"}, {"k": "noconn", "id": 900, "name": None}]
        for i in m["insts"]:
            for p, path, w in gen_design.iface_of(design, i["of"]):
                if not path and not ("array" in i and p == "n"):  # `array.n` is the array's size, not a port reference
                    pool.append({"k": "pref", "inst": i["n"], "port": p})
                    if rng.random() < 0.5:
                        pool.append({"k": "slice", "p": {"k": "pref", "inst": i["n"], "port": p}, "i": {"i": 0}})
                    if rng.random() < 0.3 and m["sigs"]:
                        pool.append({"k": "concat", "ps": [{"k": "pref", "inst": i["n"], "port": p}, {"k": "sig", "n": rng.choice(m["sigs"])["n"]}]})
                    if rng.random() < 0.2:
                        pool.append({"k": "anon", "fields": [["x", {"k": "pref", "inst": i["n"], "port": p}]]})
        plans = []
        for i in m["insts"]:
            final = dict((p, c) for p, c in i["conns"])
            ports = list(dict.fromkeys([p for p, _ in i["conns"]] + [p for p, path, w in gen_design.iface_of(design, i["of"]) if not path]))
            for p in ports:
                plan, connected = [], False
                ndead = rng.choice([0, 0, 1, 1, 2, 3]) if rng.random() < intensity else 0
                for _ in range(ndead):
                    r = rng.random()
                    if not connected and r < 0.15:
                        plan.append({"k": rng.choice(["disconnect", "replace"]), "bad": True, "form": rng.choice(["connect", "dict"]), "inst": i["n"], "port": p, "c": copy.deepcopy(rng.choice(pool))})
                        continue
                    c = copy.deepcopy(rng.choice(pool))
                    if connected and r < 0.3:
                        plan.append({"k": "replace", "form": rng.choice(["connect", "dict"]), "inst": i["n"], "port": p, "c": c})
                    else:
                        plan.append({"k": "connect", "form": rng.choice(["connect", "setattr", "call", "dict"]), "inst": i["n"], "port": p, "c": c})
                    connected = True
                    if rng.random() < 0.3:
                        plan.append({"k": "disconnect", "inst": i["n"], "port": p})
                        connected = False
                if p in final:
                    c = copy.deepcopy(final[p])
                    if connected and rng.random() < 0.4:
                        plan.append({"k": "replace", "form": rng.choice(["connect", "dict"]), "inst": i["n"], "port": p, "c": c})
                    else:
                        plan.append({"k": "connect", "form": rng.choice(["connect", "setattr", "call", "dict"]), "inst": i["n"], "port": p, "c": c})
                    if rng.random() < 0.1 * intensity:  # … taken off and put back
                        plan.append({"k": "disconnect", "inst": i["n"], "port": p})
                        plan.append({"k": "connect", "form": "connect", "inst": i["n"], "port": p, "c": copy.deepcopy(final[p])})
                elif connected:
                    plan.append({"k": "disconnect", "inst": i["n"], "port": p})
                if plan:
                    plans.append(plan)
        # random merge preserving each port's own order
        ops = []
        while plans:
            k = rng.randrange(len(plans))
            ops.append(plans[k].pop(0))
            if not plans[k]:
                plans.pop(k)
        # fuse some neighbouring connects of one instance into a multi-keyword call
        fused = []
        for op in ops:
            if (fused and op["k"] == "connect" and op.get("form") == "call" and fused[-1]["k"] in ("connect", "callmulti") and fused[-1]["inst"] == op["inst"]
                    and fused[-1].get("form", "call") == "call" and rng.random() < 0.6):
                prev = fused.pop()
                kw = prev["kw"] if prev["k"] == "callmulti" else [[prev["port"], prev["c"]]]
                if op["port"] not in [p for p, _ in kw]:
                    fused.append({"k": "callmulti", "inst": op["inst"], "kw": kw + [[op["port"], op["c"]]]})
                    continue
                fused.append(prev)
            fused.append(op)
        ops = fused
        cut = rng.choice([0, 0, len(ops), rng.randrange(len(ops) + 1)])
        pre, post = ops[:cut], ops[cut:]
        # arrays born as `n * inst`: the conversion happens before anything refers to the instance's ports
        for i in m["insts"]:
            if "array" in i and rng.random() < 0.5 * intensity:
                def refs_i(op):
                    cs = [op["c"]] if "c" in op else [c for _, c in op.get("kw", [])]
                    return any(t[0] == i["n"] for c in cs for t in conn_prefs(c))
                first = next((k for k, op in enumerate(pre) if refs_i(op)), len(pre))
                pre.insert(rng.randrange(first + 1), {"k": "mult", "inst": i["n"], "n": i["array"], "left": rng.random() < 0.5})
        out[m["name"]] = {"pre": pre, "post": post}
    return out


# --------------------------------------------------------------------------------------------- history execution

class Hist:
    """Executes a history on the real objects, recording the model-level operations and a snapshot after each."""

    def __init__(self, design, history):
        self.design, self.history = design, history
        self.keep, self.ident = [], {}          # connectables by identity
        self.prefobj = {}                       # (instance, port) -> the first PortRef object seen for it
        self.insts, self.inst_idx = [], {}      # every _Instance object that ever existed
        self.ports = {}
        self.ops, self.marks, self.problems = [], [], []

    # -- numbering
    def iidx(self, inst):
        if id(inst) not in self.inst_idx:
            self.inst_idx[id(inst)] = len(self.insts)
            self.insts.append(inst)
        return self.inst_idx[id(inst)]

    def pidx(self, name):
        return self.ports.setdefault(name, len(self.ports))

    def conn_of(self, obj):
        from hdl21.portref import PortRef

        if isinstance(obj, PortRef):
            key = (self.iidx(obj.inst), self.pidx(obj.portname))
            if self.prefobj.setdefault(key, obj) is not obj:
                msg = f"a second PortRef object exists for port {key} (one object per (instance, port) is what keeps references in step)"
                if msg not in self.problems:
                    self.problems.append(msg)
            return {"pref": list(key)}
        if id(obj) not in self.ident:
            self.ident[id(obj)] = len(self.keep)
            self.keep.append(obj)
        return {"obj": self.ident[id(obj)]}

    def watch(self):
        w = [{"obj": k} for k in range(len(self.keep))]
        for inst in list(self.insts):
            for ref in list(inst._refs.all.values()) + list(inst._refs.portrefs.values()) + list(inst._refs.connrefs.values()):
                self.conn_of(ref)
        return w + [{"pref": list(k)} for k in sorted(self.prefobj)]

    def obj_of(self, c):
        if "obj" in c:
            return self.keep[c["obj"]]
        return self.prefobj[tuple(c["pref"])]

    def snapshot(self, raised=None):
        snap = {"conns": {}, "prefs": {}, "crefs": {}, "all": {}, "back": [], "raised": raised}
        for k, inst in enumerate(self.insts):
            snap["conns"][k] = [[self.pidx(p), self.conn_of(c)] for p, c in inst.conns.items()]
            for fld, d in (("prefs", inst._refs.portrefs), ("crefs", inst._refs.connrefs), ("all", inst._refs.all)):
                snap[fld][k] = sorted(self.pidx(p) for p in d)
                for name, ref in d.items():
                    if ref is not inst._refs.all.get(name) or ref.inst is not inst or ref.portname != name:
                        self.problems.append(f"instance {k}: {fld}[{name}] is not the one PortRef object of that port")
        w = self.watch()
        for c in w:
            o = self.obj_of(c)
            snap["back"].append([c, sorted([self.iidx(r.inst), self.pidx(r.portname)] for r in o._connected_ports)])
        snap["fresh"] = not self.marks or self.marks[-1][0] != len(self.ops)  # did this step add model operations?
        self.marks.append([len(self.ops), snap])

    # -- callbacks from build.Incremental
    def getref(self, mj, inst, port):
        self.ops.append({"k": "getref", "p": [self.iidx(self.cur_insts[inst]), self.pidx(port)]})

    def pre(self, mj, insts, attrs, ns, mk):
        self.cur_insts = insts
        for op in self.history[mj["name"]]["pre"]:
            if op["k"] == "mult":
                old = insts[op["inst"]]
                self._swap(op["inst"], old, h.Instance(of=old.of), insts, attrs, ns)
        for o in insts.values():
            self.iidx(o)
        self.exec_ops(mj, self.history[mj["name"]]["pre"], insts, mk, attrs, ns)

    def post(self, mj, insts, mk):
        self.cur_insts = insts
        self.exec_ops(mj, self.history[mj["name"]]["post"], insts, mk, None, None)
        # the final state of this module's instances: exactly D's map?
        for ij in mj["insts"]:
            got = sorted(insts[ij["n"]].conns.keys())
            want = sorted(p for p, _ in ij["conns"])
            if got != want:
                self.problems.append(f"{mj['name']}.{ij['n']}: connected ports {got} are not the final map's {want}")

    def value(self, c, mk, form):
        if form == "dict" and c["k"] == "anon":
            return {f: mk(v) for f, v in c["fields"]}
        return mk(c)

    def exec_ops(self, mj, ops, insts, mk, attrs, ns):
        for op in ops:
            k = op["k"]
            raised = None
            if k == "mult":
                single = insts[op["inst"]]  # the lone instance the designer started with (swapped in by `pre`)
                arr = (op["n"] * single) if op["left"] else (single * op["n"])
                self._swap(op["inst"], single, arr, insts, attrs, ns)
                ai = self.iidx(arr)
                for p, c in arr.conns.items():  # `InstanceArray(...)(**inst.conns)`
                    self.ops.append({"k": "connect", "p": [ai, self.pidx(p)], "c": self.conn_of(c)})
                self.snapshot()
                continue
            inst = insts[op["inst"]]
            ii = self.iidx(inst)
            try:
                if k == "connect":
                    v = self.value(op["c"], mk, op["form"])
                    if op["form"] == "setattr" and op["port"] not in inst._specialcases and not op["port"].startswith("_"):
                        setattr(inst, op["port"], v)
                    elif op["form"] == "call":
                        inst(**{op["port"]: v})
                    else:
                        inst.connect(op["port"], v)
                    self.ops.append({"k": "connect", "p": [ii, self.pidx(op["port"])], "c": self.conn_of(inst.conns[op["port"]])})
                elif k == "callmulti":
                    kw = {p: self.value(c, mk, "call") for p, c in op["kw"]}
                    inst(**kw)
                    for p in kw:
                        self.ops.append({"k": "connect", "p": [ii, self.pidx(p)], "c": self.conn_of(inst.conns[p])})
                elif k == "replace":
                    v = self.value(op["c"], mk, op.get("form", "connect"))
                    if isinstance(v, dict):
                        # replace(port, {member: connectable}): the anonymous bundle is made inside `replace`
                        try:
                            inst.replace(op["port"], v)
                            self.ops.append({"k": "replace", "p": [ii, self.pidx(op["port"])], "c": self.conn_of(inst.conns[op["port"]])})
                        except KeyError:
                            self.ops.append({"k": "replace", "p": [ii, self.pidx(op["port"])], "c": self.conn_of(h.AnonymousBundle())})
                            raise
                    else:
                        self.ops.append({"k": "replace", "p": [ii, self.pidx(op["port"])], "c": self.conn_of(v)})
                        old = inst.replace(op["port"], v)
                elif k == "disconnect":
                    self.ops.append({"k": "disconnect", "p": [ii, self.pidx(op["port"])]})
                    inst.disconnect(op["port"])
            except KeyError as ex:
                raised = "KeyError"
            self.snapshot(raised)

    def _swap(self, name, old, new, insts, attrs, ns):
        insts[name] = new
        ns[name] = new
        for k, (n, o) in enumerate(attrs):
            if o is old:
                attrs[k] = (n, new)


def jbits(t, widths):
    if "sig" in t:
        return [(t["sig"], k) for k in range(widths[t["sig"]])]
    if "slice" in t:
        sig, top, bot = t["slice"]
        return [(sig, k) for k in range(bot, top + 1)]
    out = []
    for part in reversed(t["concat"]):
        out.extend(jbits(part, widths))
    return out


def canon_pkg(pj):
    """Name-free form of a package: per module its ports, instances (name, target, parameters, connected ports) and the
    partition of instance-port bits and module-port bits into nets; internal signals appear only as a multiset of widths
    (which implicit net gets which invented name depends on dict order of `conns`, and carries no connectivity)."""
    out = []
    for m in pj["modules"]:
        widths = {s["n"]: s["w"] for s in m["signals"]}
        ports = {p["n"] for p in m["ports"]}
        nets = {}
        for p in m["ports"]:
            for k in range(widths[p["n"]]):
                nets.setdefault((p["n"], k), []).append(f"P:{p['n']}[{k}]")
        for i in m["instances"]:
            for port, t in i["conns"]:
                for k, b in enumerate(jbits(t, widths)):
                    nets.setdefault(b, []).append(f"{i['n']}:{port}[{k}]")
        out.append({"name": m["name"], "ports": m["ports"], "port_widths": sorted((n, widths[n]) for n in ports),
                    "internal_widths": sorted(w for n, w in widths.items() if n not in ports),
                    "instances": [[i["n"], i["ref"], i["params"], sorted(p for p, _ in i["conns"])] for i in m["instances"]],
                    "nets": sorted(sorted(v) for v in nets.values())})
    return {"modules": out, "ext_modules": pj["ext_modules"]}


def impl_hist(case):
    d, style = case["design"], case.get("style", "proc")
    out = {}
    hist = Hist(d, case["history"])
    try:
        b = build.build(d, style, hist=hist)
    except Exception as ex:  # noqa
        import traceback
        return {"build_error": common.errstr(ex) + " @ " + traceback.format_exc()[-600:]}
    out["ops"], out["marks"], out["watch"], out["problems"] = hist.ops, hist.marks, hist.watch(), hist.problems
    try:
        pkg = h.to_proto(b.top)
        out["pkg"] = observe.pkg_json(pkg)
        out["top"] = next(m["name"] for m in out["pkg"]["modules"] if m["name"].split(".")[-1] == d["top"])
    except Exception as ex:  # noqa
        out["reject"] = common.errstr(ex)
    try:
        b2 = build.build(d, style)
        out["direct_pkg"] = observe.pkg_json(h.to_proto(b2.top))
    except Exception as ex:  # noqa
        out["direct_reject"] = common.errstr(ex)
    return out


def model_line(im):
    return {"prop": "C04", "op": "run", "watch": im["watch"], "ops": im["ops"]}


def inv_on_impl(snap):
    """`Inv` of InstOps.lean evaluated on an implementation snapshot."""
    conns = {}
    for k, l in snap["conns"].items():
        for p, c in l:
            conns[(int(k), p)] = json.dumps(c, sort_keys=True)
    for c, ports in snap["back"]:
        cj = json.dumps(c, sort_keys=True)
        want = sorted([list(p) for p, cc in conns.items() if cc == cj])
        if sorted(ports) != want:
            return f"_connected_ports of {cj} is {ports}, conns says {want}"
    for k, l in snap["conns"].items():
        for p, c in l:
            if p not in snap["crefs"][k] or p not in snap["all"][k]:
                return f"connected port {(k, p)} has no reference on file"
    return None


def compare_trace(im, mo):
    """first difference between the model's trace and the implementation's snapshots"""
    trace = mo["trace"]
    for upto, snap in im["marks"]:
        if upto == 0:
            continue
        st = trace[upto - 1]
        if snap["fresh"] and snap["raised"] is not None and st["ok"]:
            return f"op {upto}: implementation raised {snap['raised']}, model did not"
        if snap["fresh"] and snap["raised"] is None and not st["ok"]:
            return f"op {upto}: model says KeyError, implementation did not raise"
        if st["raises"]:
            return f"op {upto}: model says set.remove would raise"
        ms = st["state"]
        per = {}
        for (i, p), c in [((x[0][0], x[0][1]), x[1]) for x in ms["conns"]]:
            per.setdefault(str(i), []).append([p, c])
        for k, l in snap["conns"].items():
            if per.get(str(k), []) != l:
                return f"op {upto}: conns of instance {k}: model {per.get(str(k), [])} impl {l}"
        for fld in ("prefs", "crefs", "all"):
            mp = {}
            for i, p in ms[fld]:
                mp.setdefault(str(i), []).append(p)
            for k, l in snap[fld].items():
                if sorted(mp.get(str(k), [])) != l:
                    return f"op {upto}: Refs.{fld} of instance {k}: model {mp.get(str(k), [])} impl {l}"
        widx = {json.dumps(c, sort_keys=True): n for n, c in enumerate(im["watch"])}
        for c, ports in snap["back"]:
            if json.dumps(c, sort_keys=True) not in widx:
                return f"op {upto}: {c} was a reference on file, and no longer is"
            mb = ms["back"][widx[json.dumps(c, sort_keys=True)]]
            if mb != ports:
                return f"op {upto}: _connected_ports of {c}: model {mb} impl {ports}"
    return None


def judge(case, im, mo_ops, mo_sem):
    if "build_error" in im:
        yield ("corr", f"history could not be executed: {im['build_error']}")
        return
    for p in im["problems"]:
        yield ("pred", {"why": p})
    for upto, snap in im["marks"]:
        bad = inv_on_impl(snap)
        if bad:
            yield ("pred", {"why": f"after op {upto}: back-references are not the inverse of conns: {bad}"})
            break
    diff = compare_trace(im, mo_ops)
    if diff:
        yield ("corr", f"model and implementation state differ: {diff}")
    if "error" in mo_sem["src"]:
        return
    if "reject" in im:
        if "direct_reject" in im:
            yield ("corr", f"well-formed design rejected either way: {im['reject'][-200:]}")
        else:
            yield ("corr", f"the history-built design is rejected, the directly built one is accepted: {im['reject'][-300:]}")
        return
    if mo_sem["pkg"] != mo_sem["src"]:
        yield ("pred", {"why": "the package built from the history does not have the nets of the final map", "src": mo_sem["src"], "pkg": mo_sem["pkg"]})
    if designs.sorted_devs(mo_sem["src_devices"]) != designs.sorted_devs(mo_sem["pkg_devices"]):
        yield ("pred", {"why": "leaf devices differ", "src": mo_sem["src_devices"], "pkg": mo_sem["pkg_devices"]})
    if "direct_pkg" in im:
        a, b = canon_pkg(im["pkg"]), canon_pkg(im["direct_pkg"])
        if a != b:
            from props import c11
            yield ("pred", {"why": "the history left a trace: package differs from the package of the final map built directly",
                            "first_difference": c11.first_difference(a, b)})
    else:
        yield ("corr", f"the directly built design is rejected, the history-built one is accepted: {im.get('direct_reject')}")


def corpus():
    """Hand-written histories: a connectable derived from a port reference (a slice of it, a concatenation around it, a chain
    through it) is made while the referenced port is on one signal, and the port is re-connected afterwards."""
    E1 = copy.deepcopy(gen_design.LEAVES[0])  # ports a (2 bits), b (1 bit)
    sg = lambda n, w: {"n": n, "w": w, "port": False, "dir": "none"}
    S = lambda n: {"k": "sig", "n": n}
    P = lambda i, p: {"k": "pref", "inst": i, "port": p}
    con = lambda i, p, c, form="connect": {"k": "connect", "form": form, "inst": i, "port": p, "c": c}
    out = []
    for derived in ({"k": "slice", "p": P("i1", "a"), "i": {"i": 1}}, {"k": "slice", "p": P("i1", "a"), "i": {"s": 0, "e": 1, "st": None}},
                    {"k": "concat", "ps": [{"k": "slice", "p": P("i1", "a"), "i": {"i": 0}}]}):
        for form in ("connect", "setattr", "call"):
            insts = [{"n": "i1", "of": E1, "conns": [["a", S("bb")], ["b", S("s1")]]},
                     {"n": "i2", "of": E1, "conns": [["a", S("aa")], ["b", derived]]}]
            d = {"bundles": [], "top": "Top", "modules": [{"name": "Top", "sigs": [sg("aa", 2), sg("bb", 2), sg("s1", 1)], "bundles": [], "insts": insts}]}
            ops = [con("i1", "a", S("aa"), form), con("i1", "b", S("s1")), con("i2", "b", copy.deepcopy(derived), form), con("i2", "a", S("aa")),
                   con("i1", "a", S("bb"), form)]
            for cut in (0, 3, len(ops)):
                out.append({"design": d, "style": "proc", "history": {"Top": {"pre": ops[:cut], "post": ops[cut:]}}})
    # one AnonymousBundle object on two bundle ports; one of them is then re-connected by a dict
    lf = gen_design.leaf_sig
    bdef = {"name": "B", "tree": {"sigs": [lf("x", 1), lf("y", 1)], "subs": []}}
    R = copy.deepcopy(gen_design.LEAVES[3])
    inner = {"name": "Inner", "sigs": [], "bundles": [{"n": "b1", "of": "B", "port": True}, {"n": "b2", "of": "B", "port": True}],
             "insts": [{"n": f"r{k}", "of": copy.deepcopy(R), "conns": [["p", {"k": "bref", "root": f"b{k}", "path": ["x"]}], ["n", {"k": "bref", "root": f"b{k}", "path": ["y"]}]]} for k in (1, 2)]}
    shared = {"k": "anon", "id": 1, "fields": [["x", S("s1")], ["y", S("s2")]]}
    fresh = {"k": "anon", "fields": [["x", S("s3")], ["y", S("s4")]]}
    for form in ("dict", "connect", "setattr"):
        top = {"name": "Top", "sigs": [sg("s1", 1), sg("s2", 1), sg("s3", 1), sg("s4", 1)], "bundles": [],
               "insts": [{"n": "i", "of": {"k": "module", "name": "Inner"}, "conns": [["b1", copy.deepcopy(fresh)], ["b2", copy.deepcopy(shared)]]}]}
        d = {"bundles": [bdef], "top": "Top", "modules": [inner, top]}
        ops = [con("i", "b1", copy.deepcopy(shared)), con("i", "b2", copy.deepcopy(shared)), con("i", "b1", copy.deepcopy(fresh), form)]
        variants = [ops]
        if form == "dict":
            # … and by replace(port, dict), which fails on a port that is not connected yet and must leave nothing behind
            variants.append([{"k": "replace", "bad": True, "form": "dict", "inst": "i", "port": "b1", "c": copy.deepcopy(fresh)}] + ops[:2] +
                            [{"k": "replace", "form": "dict", "inst": "i", "port": "b1", "c": copy.deepcopy(fresh)}])
        for ops in variants:
            for cut in (0, 2, len(ops)):
                hist = gen_history(random.Random(0), d, intensity=0.0)  # the other modules: their final connections, nothing else
                hist["Top"] = {"pre": ops[:cut], "post": ops[cut:]}
                out.append({"design": d, "style": "proc", "history": hist})
    # references to ports which are themselves on signals, used only as members of an anonymous bundle / a dict (such a use
    # leaves no back-reference on the port reference), by every connecting form, before and after the ports got their signals
    for form in ("dict", "connect", "setattr", "call"):
        members = {"k": "anon", "fields": [["x", P("r0", "p")], ["y", P("r0", "n")]]}
        top = {"name": "Top", "sigs": [sg("s1", 1), sg("s2", 1), sg("s3", 1), sg("s4", 1)], "bundles": [],
               "insts": [{"n": "r0", "of": copy.deepcopy(R), "conns": [["p", S("s1")], ["n", S("s2")]]},
                         {"n": "i", "of": {"k": "module", "name": "Inner"}, "conns": [["b1", copy.deepcopy(members)], ["b2", copy.deepcopy(fresh)]]}]}
        d = {"bundles": [bdef], "top": "Top", "modules": [inner, top]}
        for ops in ([con("r0", "p", S("s1")), con("r0", "n", S("s2")), con("i", "b2", copy.deepcopy(fresh)), con("i", "b1", copy.deepcopy(members), form)],
                    [con("i", "b1", copy.deepcopy(members), form), con("i", "b2", copy.deepcopy(fresh)), con("r0", "p", S("s3")), con("r0", "n", S("s2")), con("r0", "p", S("s1"), "setattr")]):
            hist = gen_history(random.Random(0), d, intensity=0.0)
            hist["Top"] = {"pre": ops[:2], "post": ops[2:]}
            out.append({"design": d, "style": "proc", "history": hist})
    # a chain i3.b -> i2.b -> i1.b, its middle re-connected after the outer reference was taken
    insts = [{"n": "i1", "of": E1, "conns": [["a", S("aa")], ["b", S("x")]]}, {"n": "i2", "of": E1, "conns": [["a", S("aa")], ["b", S("y")]]},
             {"n": "i3", "of": E1, "conns": [["a", S("aa")], ["b", P("i2", "b")]]}]
    d = {"bundles": [], "top": "Top", "modules": [{"name": "Top", "sigs": [sg("aa", 2), sg("x", 1), sg("y", 1)], "bundles": [], "insts": insts}]}
    ops = [con("i1", "a", S("aa")), con("i2", "a", S("aa")), con("i3", "a", S("aa")), con("i2", "b", P("i1", "b"), "setattr"), con("i3", "b", P("i2", "b"), "setattr"),
           con("i1", "b", S("x"), "setattr"), con("i2", "b", S("y"), "setattr")]
    for cut in (0, 5, len(ops)):
        out.append({"design": d, "style": "proc", "history": {"Top": {"pre": ops[:cut], "post": ops[cut:]}}})
    # one NoConn object — named, and unnamed — on ports of several instances; one of the ports got there by way of a signal
    for nm in ("open", None):
        nc = {"k": "noconn", "id": 7, "name": nm}
        insts = [{"n": f"i{k}", "of": E1, "conns": [["a", S("aa")], ["b", copy.deepcopy(nc)]]} for k in (1, 2, 3)]
        d = {"bundles": [], "top": "Top", "modules": [{"name": "Top", "sigs": [sg("aa", 2), sg("x", 1)], "bundles": [], "insts": insts}]}
        ops = [con("i1", "a", S("aa")), con("i2", "a", S("aa")), con("i3", "a", S("aa")), con("i1", "b", copy.deepcopy(nc)),
               con("i2", "b", S("x"), "setattr"), con("i3", "b", copy.deepcopy(nc), "call"), con("i2", "b", copy.deepcopy(nc), "setattr")]
        for cut in (0, 5, len(ops)):
            out.append({"design": d, "style": "proc", "history": {"Top": {"pre": ops[:cut], "post": ops[cut:]}}})
    return out


def make_cases(rng, n, intensity=1.0):
    base = designs.gen_cases(rng, n, styles=("proc", "class", "gen"))
    for c in base:
        c["history"] = gen_history(rng, c["design"], intensity)
    return base


def run_cases(ctx, cases):
    impls = common.pmap(impl_hist, cases, chunk=4)
    lines, idx = [], []
    for c, im in zip(cases, impls):
        if "ops" in im:
            idx.append(len(lines))
            lines.append(model_line(im))
        else:
            idx.append(None)
        lines.append(designs.sem_line(c, im))
    outs = ctx.drv.run(lines)
    res = []
    k = 0
    for c, im, ix in zip(cases, impls, idx):
        if ix is None:
            res.append((c, im, None, outs[k]))
            k += 1
        else:
            res.append((c, im, outs[k], outs[k + 1]))
            k += 2
    return res


def run(ctx):
    rep = ctx.rep
    rep.extra["rule"] = (
        "valid generated designs x random operation histories (0-3 dead connections per port from every connectable kind in the "
        "module, connect by call/assignment/connect()/dict shorthand/multi-keyword call, replace, disconnect, illegal replace/disconnect, "
        "ops before and after module assembly, `n * inst` array conversion); non-trivial = well-formed, exported and with at least one "
        "dead connection; distinct = distinct (design, history) JSON"
    )
    n = 160 if ctx.quick else 4000
    cases = corpus() + make_cases(ctx.rng, n)
    stats = {"ops": 0, "model_ops": 0, "dead_kinds": {}, "forms": {}, "exported": 0, "bad_ops": 0, "mult": 0, "ill_formed": 0}
    for c, im, mo_ops, mo_sem in run_cases(ctx, cases):
        dead = 0
        for mh in c["history"].values():
            for op in mh["pre"] + mh["post"]:
                stats["ops"] += 1
                stats["forms"][op.get("form", op["k"])] = stats["forms"].get(op.get("form", op["k"]), 0) + 1
                if op.get("bad"):
                    stats["bad_ops"] += 1
                if op["k"] == "mult":
                    stats["mult"] += 1
                for cc in ([op["c"]] if "c" in op else [x for _, x in op.get("kw", [])]):
                    stats["dead_kinds"][cc["k"]] = stats["dead_kinds"].get(cc["k"], 0) + 1
        nfinal = sum(len(i["conns"]) for m in c["design"]["modules"] for i in m["insts"])
        nconn = sum(1 for mh in c["history"].values() for op in mh["pre"] + mh["post"] if op["k"] in ("connect", "replace") and not op.get("bad")) + \
            sum(len(op["kw"]) for mh in c["history"].values() for op in mh["pre"] + mh["post"] if op["k"] == "callmulti")
        dead = nconn - nfinal
        stats["model_ops"] += len(im.get("ops", []))
        wf = "ok" in mo_sem["src"]
        if not wf:
            stats["ill_formed"] += 1
        if "pkg" in im:
            stats["exported"] += 1
        rep.count("histories", json.dumps([c["design"], c["history"]]), nontrivial=wf and "pkg" in im and dead > 0)
        for v in judge(c, im, mo_ops, mo_sem):
            rep.fail(v[0], {"stream": "histories", "case": c}, {"detail": v[1], "reject": im.get("reject")})
    # failing-input search when the tie is broken
    if (rep.corr_disagreements or rep.proof_broken) and not any(f["kind"] == "pred" for f in rep.failures):
        import time
        t0, extra, found, seed = time.time(), 0, False, ctx.seed
        budget = 60 if ctx.quick else 600
        while time.time() - t0 < budget and not found:
            seed += 1000
            for c, im, mo_ops, mo_sem in run_cases(ctx, make_cases(random.Random(seed), 200)):
                extra += 1
                for v in judge(c, im, mo_ops, mo_sem):
                    if v[0] == "pred" and not found:
                        rep.fail("pred", {"stream": "histories", "case": c}, {"detail": v[1], "found_by": "failing-input search"})
                        found = True
        rep.extra["failing_input_search"] = {"histories": extra, "found": found, "seconds": round(time.time() - t0, 1)}
    rep.extra["history_stats"] = stats
    if cases:
        rep.sample({"history": cases[0]["history"], "top": cases[0]["design"]["top"]})


def replay(ctx, rp):
    case = rp["case"]["case"]
    (c, im, mo_ops, mo_sem), = run_cases(ctx, [case])
    fails = list(judge(c, im, mo_ops, mo_sem))
    print(json.dumps({"failures": fails}, default=str)[:3000])
    if any(f[0] == "pred" for f in fails):
        print(f"VIOLATION property=C04 replay={rp.get('_path')}")
        return 1
    return 1 if fails else 0
