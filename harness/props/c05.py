"""C05 — names invented during elaboration never capture the designer's names.

Adversarial-name stream: take a valid generated design, compute every name the elaborator would invent for it
(inst_port for implicit signals behind references and no-connects, the names of named no-connects, bundle_member for
flattened bundles, array_k, pair_m, each also with trailing underscores), and rename designer signals, ports, instances and
bundle instances to exactly those names.  Then: the package must keep names unique per module (Lean WFpkg), every designer
signal / instance must still be there under its own name, and the net partition — reduced to name-free descriptors — must be
the one of the same design with friendly names.
"""
import copy
import json
import re

import common
import designs
import gen_design

ASSUMPTIONS = [
    "a clash may be resolved by a fresh name or by raising: a renamed design that is rejected is not a violation",
    "connectivity is compared after replacing every observable by a name-free descriptor (device kind, port, bit, hierarchy depth; "
    "top port width, bit): merged or split nets change the multiset of classes; which of two identical devices is which is not compared",
]
TRUSTED = ["the renaming is applied consistently by harness code (rename_design)"]


def invented_names(design):
    """module name -> set of names the elaborator may invent there."""
    out = {}
    bt = {b["name"]: b["tree"] for b in design["bundles"]}
    for m in design["modules"]:
        s = set()
        for b in m["bundles"]:
            for path, _ in gen_design.tree_leaves(bt[b["of"]]):
                s.add(b["n"] + "_" + "_".join(path))
        for i in m["insts"]:
            for k in range(i.get("array", 0)):
                s.add(f"{i['n']}_{k}")
            for mem in i.get("pair", []):
                s.add(f"{i['n']}_{mem}")
            ports = gen_design.iface_of(design, i["of"])
            for p, path, w in ports:
                s.add(f"{i['n']}_{p}")  # implicit signal / bundle behind a reference or an unnamed no-connect
                if path:
                    s.add(f"{i['n']}_{p}_" + "_".join(path))
            for port, c in i["conns"]:
                if c["k"] == "noconn" and c.get("name"):
                    s.add(c["name"])
        out[m["name"]] = s | {x + "_" for x in s}
    return out


MEMBER_TARGETS = ["x", "y", "x_", "y_", "x_y", "y_x", "x_y_", "y_x_", "x__", "y_x_y"]
MAXLEN = 511  # ElabPass.flatname(maxlen=511)


def rename_members(d, rng):
    """Rename bundle members everywhere, by one injective map: member names are chosen so that two flattened names
    of one bundle coincide (sub-bundle `y` with member `x` next to a scalar member `y_x`; members `x` and `x_`)."""
    names = ["x", "y", "z", "u", "v"]
    # opportunities in the bundle definitions at hand
    opps = []

    def scan(t):
        sg = [x["n"] for x in t["sigs"]]
        for a in sg:
            for b in sg:
                if a != b:
                    opps.append({a: "x", b: "x_"})  # x and x_ : the second clash-avoiding step lands on the first's name
        for sub in t["subs"]:
            inner = [x["n"] for x in sub["of"]["sigs"]] + [x["n"] for x in sub["of"]["subs"]]
            for mem in inner:
                for sib in sg:
                    if len({sub["n"], mem, sib}) == 3:
                        opps.append({sub["n"]: "y", mem: "x", sib: "y_x"})  # y.x next to y_x
            scan(sub["of"])

    for bd in d["bundles"]:
        if bd["name"] != "Diff":
            scan(bd["tree"])
    mp = dict(rng.choice(opps)) if opps and rng.random() < 0.7 else {}
    rest = [t for t in MEMBER_TARGETS if t not in mp.values()]
    rng.shuffle(rest)
    for n in names:
        if n not in mp:
            mp[n] = rest.pop()
    apply_member_map(d, mp)
    return mp


def apply_member_map(d, mp):

    def tree(t):
        for sg in t["sigs"]:
            sg["n"] = mp.get(sg["n"], sg["n"])
        for sub in t["subs"]:
            sub["n"] = mp.get(sub["n"], sub["n"])
            tree(sub["of"])

    for bd in d["bundles"]:
        if bd["name"] != "Diff":
            tree(bd["tree"])

    def conn(c, on_diff):
        k = c["k"]
        if k == "bref":
            c["path"] = [mp.get(x, x) for x in c["path"]]
        elif k == "slice":
            conn(c["p"], on_diff)
        elif k == "concat":
            for q in c["ps"]:
                conn(q, on_diff)
        elif k == "anon":
            for f in c["fields"]:
                if not on_diff:
                    f[0] = mp.get(f[0], f[0])
                conn(f[1], False)

    for m in d["modules"]:
        diff_insts = {b["n"] for b in m["bundles"] if b["of"] == "Diff"}
        for i in m["insts"]:
            if "pair" in i and i.get("pair_of", "Diff") != "Diff":
                i["pair"] = [mp.get(x, x) for x in i["pair"]]
            for pc in i["conns"]:
                on_diff = "pair" in i and i.get("pair_of", "Diff") == "Diff"
                conn(pc[1], on_diff)
        # references into Diff instances keep p / n (they are not in the map anyway)


def apply_rename(d, mname, kind, old, new):
    """Rename one designer object of module `mname`, and every mention of it."""
    m = next(x for x in d["modules"] if x["name"] == mname)
    r = lambda n: new if n == old else n
    if kind == "sig":
        for sg in m["sigs"]:
            sg["n"] = r(sg["n"])
    if kind == "bundle":
        for bd in m["bundles"]:
            bd["n"] = r(bd["n"])

    def rc(c):
        k = c["k"]
        if k == "sig" and kind == "sig" or k == "bundle" and kind == "bundle":
            c["n"] = r(c["n"])
        elif k == "pref" and kind == "inst":
            c["inst"] = r(c["inst"])
        elif k == "noconn" and kind == "noconn" and c.get("name") is not None:
            c["name"] = r(c["name"])
        elif k == "bref" and kind == "bundle":
            c["root"] = r(c["root"])
        elif k == "slice":
            rc(c["p"])
        elif k == "concat":
            for q in c["ps"]:
                rc(q)
        elif k == "anon":
            for f in c["fields"]:
                rc(f[1])

    for i in m["insts"]:
        if kind == "inst":
            i["n"] = r(i["n"])
        for pc in i["conns"]:
            rc(pc[1])
    # a renamed port (signal or bundle port) changes the connections of the module's instances in its parents
    if kind in ("sig", "bundle"):
        for pm in d["modules"]:
            for i in pm["insts"]:
                if i["of"]["k"] == "module" and i["of"]["name"] == mname:
                    for pc in i["conns"]:
                        if pc[0] == old:
                            pc[0] = new


def hot_names(d, m):
    """the names that certainly get invented: behind port references and no-connects actually present in the module"""
    out = set()

    def walk(c):
        if c["k"] == "pref":
            out.add(f"{c['inst']}_{c['port']}")
        for sub in c.get("ps", []) + ([c["p"]] if isinstance(c.get("p"), dict) else []) + [v for _, v in c.get("fields", [])]:
            walk(sub)

    bt = {b["name"]: b["tree"] for b in d["bundles"]}
    for bd in m["bundles"]:
        out.update(f"{bd['n']}_" + "_".join(path) for path, _ in gen_design.tree_leaves(bt[bd["of"]]))
    for i in m["insts"]:
        out.update(f"{i['n']}_{k}" for k in range(i.get("array", 0)))
        out.update(f"{i['n']}_{mem}" for mem in i.get("pair", []))
        for port, c in i["conns"]:
            walk(c)
            if c["k"] == "noconn":
                out.add(c.get("name") or f"{i['n']}_{port}")
    return out


def rename_design(design, rng, intensity=0.7):
    """Rename designer names (signals, instances, bundle instances) to names the elaborator invents — one object at a time,
    the invented names being recomputed after every step (an instance's new name changes what is invented for it).
    Returns (design, mapping)."""
    d = copy.deepcopy(design)
    mapping = {}
    if rng.random() < 0.5:
        mapping["#members"] = rename_members(d, rng)
    for mname in [m["name"] for m in d["modules"]]:
        m = next(x for x in d["modules"] if x["name"] == mname)
        own = [("sig", x["n"]) for x in m["sigs"]] + [("inst", i["n"]) for i in m["insts"]] + [("bundle", b["n"]) for b in m["bundles"]]
        rng.shuffle(own)
        ren = {}
        for kind, n in own:
            if rng.random() >= intensity:
                continue
            taken = {x["n"] for x in m["sigs"]} | {i["n"] for i in m["insts"]} | {b["n"] for b in m["bundles"]}
            cands = sorted(invented_names(d)[mname] - taken)
            if kind == "inst":
                # not a name derived from the instance itself: it would move with the renaming
                cands = [c for c in cands if not c.startswith(n + "_")] or cands
            if not cands:
                continue
            hot = [c for c in cands if c.rstrip("_") in hot_names(d, m)]
            new = rng.choice(hot if hot and rng.random() < 0.6 else cands)
            apply_rename(d, mname, kind, n, new)
            ren[n] = new
        mapping[mname] = ren
    return d, mapping


def long_names(design, rng):
    """Names at the length limit of `flatname`: an instance is renamed so that a name invented from it is exactly 509..512
    characters long, and designer signals take that name and its trailing-underscore variants."""
    d = copy.deepcopy(design)
    mods = [m for m in d["modules"] if m["insts"]]
    if not mods:
        return None
    m = rng.choice(mods)
    inst = rng.choice(m["insts"])
    inv0 = sorted(x for x in invented_names(d)[m["name"]] if x.startswith(inst["n"] + "_") and not x.endswith("_"))
    if not inv0:
        return None
    target = rng.choice(inv0)
    want = rng.choice([MAXLEN - 2, MAXLEN - 1, MAXLEN, MAXLEN, MAXLEN + 1])
    pad = want - len(target)
    oldinst = inst["n"]
    newinst = oldinst + "q" * pad
    apply_rename(d, m["name"], "inst", oldinst, newinst)
    longname = newinst + target[len(oldinst):]
    assert len(longname) == want
    sigs = [x for x in m["sigs"] if not x["port"]] or m["sigs"]
    rng.shuffle(sigs)
    ren = {}
    for k, sg in enumerate(sigs[: rng.randint(1, 3)]):
        new = longname + "_" * k
        ren[sg["n"]] = f"<{len(new)} chars>"
        apply_rename(d, m["name"], "sig", sg["n"], new)
    return d, {m["name"]: ren, "#long": want}



def corpus():
    """One friendly design and a rename script per clash class (the classes the quantifier names): each is run with the
    friendly and with the adversarial names.  (module, kind, old, new); `members` renames bundle members."""
    R = {"k": "leaf", "kind": "vlsir.primitives.resistor", "ports": [{"n": "p", "w": 1}, {"n": "n", "w": 1}], "params": [["r", "P:5"]],
         "py": {"k": "prim", "name": "R", "params": {"r": 5}}}
    sg = lambda n, w=1, port=False: {"n": n, "w": w, "port": port, "dir": "none"}
    S = lambda n: {"k": "sig", "n": n}
    leaf = gen_design.leaf_sig
    out = []

    def top(sigs, insts, bundles=(), bdefs=(), mods=()):
        return {"bundles": list(bdefs), "modules": list(mods) + [{"name": "Top", "sigs": sigs, "bundles": list(bundles), "insts": insts}], "top": "Top"}

    # the implicit signal behind a port reference / an unnamed no-connect / a named no-connect
    base = top([sg("s1"), sg("s2"), sg("s3")],
               [{"n": "i1", "of": R, "conns": [["n", S("s1")]]},
                {"n": "i2", "of": R, "conns": [["p", {"k": "pref", "inst": "i1", "port": "p"}], ["n", {"k": "noconn"}]]},
                {"n": "i3", "of": R, "conns": [["p", S("s2")], ["n", {"k": "noconn", "name": "nc1"}]]},
                {"n": "i4", "of": R, "conns": [["p", S("s3")], ["n", S("s3")]]},
                {"n": "i5", "of": R, "conns": [["p", S("s3")], ["n", S("s1")]], "array": 2}])
    for script in ([("sig", "s3", "i1_p")], [("sig", "s3", "i2_n")], [("sig", "s3", "nc1")], [("inst", "i4", "i1_p")], [("inst", "i5", "i1_p")],
                   [("inst", "i4", "i2_n")], [("inst", "i4", "nc1")], [("sig", "s3", "i1_p"), ("sig", "s2", "i1_p_")],
                   [("sig", "s3", "i5_0")], [("inst", "i4", "i5_1")], [("sig", "s2", "i5_0"), ("inst", "i4", "i5_0_")]):
        out.append((base, script, None))
    # two instance arrays, one called like an element of the other — declared before it (arrays are flattened last-declared-first, so the
    # element is named while the other array is still waiting) and after it (seeds C05-r5-1, C05-r8-2: all array names released up front)
    base2 = copy.deepcopy(base)
    next(i for i in base2["modules"][-1]["insts"] if i["n"] == "i4")["array"] = 3
    for script in ([("inst", "i4", "i5_0")], [("inst", "i4", "i5_1")], [("inst", "i5", "i4_2")], [("inst", "i4", "i5_0"), ("sig", "s2", "i5_0_0")]):
        out.append((base2, script, None))
    # the same with names as designers write them: capitals (`Drv.Y` next to `Drv_Y`), and no-connect names that are not identifiers
    for script in ([("inst", "i1", "Drv"), ("sig", "s3", "Drv_p")], [("inst", "i1", "Drv"), ("inst", "i4", "Drv_p")], [("inst", "i2", "Rcv"), ("sig", "s3", "Rcv_n")],
                   [("inst", "i2", "Rcv"), ("inst", "i4", "Rcv_n")], [("noconn", "nc1", "Nc"), ("sig", "s3", "Nc")], [("noconn", "nc1", "NC_1"), ("inst", "i4", "NC_1")],
                   [("inst", "i5", "Arr"), ("sig", "s3", "Arr_0")], [("inst", "i5", "Arr"), ("inst", "i4", "Arr_1")],
                   [("noconn", "nc1", "u1.qb"), ("sig", "s3", "u1_qb")], [("noconn", "nc1", "u1.qb"), ("inst", "i4", "u1_qb")],
                   [("noconn", "nc1", "tap[0]"), ("sig", "s3", "tap_0_")], [("noconn", "nc1", "a b"), ("inst", "i4", "a_b")], [("noconn", "nc1", "x-y"), ("sig", "s2", "x_y")]):
        out.append((base, script, None))
    # flattened bundle members: designer names, and two members of one bundle
    B = {"name": "B0", "tree": {"sigs": [leaf("x", 1), leaf("u", 1), leaf("z", 1)], "subs": [{"n": "y", "flip": False, "role": None, "of": {"sigs": [leaf("v", 1)], "subs": []}}]}}
    child = {"name": "M0", "sigs": [sg("t1")], "bundles": [{"n": "bp", "of": "B0", "port": True}],
             "insts": [{"n": "i1", "of": R, "conns": [["p", {"k": "bref", "root": "bp", "path": ["x"]}], ["n", {"k": "bref", "root": "bp", "path": ["u"]}]]},
                       {"n": "i2", "of": R, "conns": [["p", {"k": "bref", "root": "bp", "path": ["z"]}], ["n", {"k": "bref", "root": "bp", "path": ["y", "v"]}]]},
                       {"n": "i3", "of": R, "conns": [["p", S("t1")], ["n", {"k": "bref", "root": "bp", "path": ["x"]}]]}]}
    fields = [["x", S("a")], ["u", S("b")], ["z", S("c")], ["y", {"k": "anon", "fields": [["v", S("d")]]}]]
    base = top([sg("a"), sg("b"), sg("c"), sg("d")], [{"n": "i1", "of": {"k": "module", "name": "M0"}, "conns": [["bp", {"k": "anon", "fields": fields}]]}],
               bdefs=[B], mods=[child])
    for members, script in (({"x": "x", "u": "x_"}, [("M0", "sig", "t1", "bp_x")]), ({"y": "y", "v": "x", "z": "y_x"}, []),
                            ({"y": "y", "v": "x", "z": "y_x", "u": "y_x_"}, []), ({"x": "x", "u": "x_", "z": "x__"}, [("M0", "sig", "t1", "bp_x")]),
                            ({}, [("M0", "sig", "t1", "bp_x")]), ({}, [("M0", "inst", "i3", "bp_y_v")])):
        out.append((base, script, members))
    # the implicit *bundle* behind a reference to (or a no-connect on) a bundle-valued port: it lives until the bundles are flattened,
    # and until then holds a name (`i1_bp`, the no-connect's name) which a designer's signal / instance / array may have
    base = top([sg("a"), sg("b")],
               [{"n": "i1", "of": {"k": "module", "name": "M0"}, "conns": []},
                {"n": "i2", "of": {"k": "module", "name": "M0"}, "conns": [["bp", {"k": "pref", "inst": "i1", "port": "bp"}]]},
                {"n": "i3", "of": {"k": "module", "name": "M0"}, "conns": [["bp", {"k": "noconn", "name": "ncb"}]]},
                {"n": "i6", "of": {"k": "module", "name": "M0"}, "conns": [["bp", {"k": "noconn"}]]},
                {"n": "i4", "of": R, "conns": [["p", S("a")], ["n", S("b")]]},
                {"n": "i5", "of": R, "conns": [["p", S("a")], ["n", S("b")]], "array": 2}],
               bdefs=[B], mods=[child])
    for script in ([("inst", "i4", "i1_bp")], [("inst", "i5", "i1_bp")], [("sig", "b", "i1_bp")], [("inst", "i4", "ncb")], [("inst", "i5", "ncb")], [("sig", "b", "ncb")],
                   [("inst", "i4", "i6_bp")], [("sig", "a", "i6_bp")], [("inst", "i4", "i1_bp"), ("inst", "i5", "i1_bp_")], [("sig", "a", "i1_bp_x")], [("inst", "i4", "ncb_x")]):
        out.append((base, script, {}))
    # instance bundles: designer instance on a member's name; two members; two instance bundles
    IB = {"name": "IB0", "ib": True, "tree": {"sigs": [leaf("x", 1), leaf("u", 1)], "subs": []}}
    IC = {"name": "IB1", "ib": True, "tree": {"sigs": [leaf("z", 1)], "subs": []}}
    base = top([sg("a"), sg("b"), sg("c")],
               [{"n": "i1", "of": R, "pair": ["x", "u"], "pair_of": "IB0", "conns": [["p", {"k": "anon", "fields": [["x", S("a")], ["u", S("b")]]}], ["n", S("c")]]},
                {"n": "i2", "of": R, "pair": ["z"], "pair_of": "IB1", "conns": [["p", S("b")], ["n", S("c")]]},
                {"n": "i3", "of": R, "conns": [["p", S("a")], ["n", S("c")]]},
                {"n": "i4", "of": R, "pair": ["p", "n"], "conns": [["p", S("a")], ["n", S("b")]]}], bdefs=[gen_design.DIFF, IB, IC])
    for members, script in (({"x": "x", "u": "x_"}, [("inst", "i3", "i1_x")]), ({"x": "x_y", "z": "y"}, [("inst", "i2", "i1_x")]),
                            ({"x": "x", "u": "x_"}, [("sig", "c", "i1_x")]), ({}, [("inst", "i3", "i4_p")]), ({}, [("inst", "i3", "i4_n"), ("sig", "c", "i4_n_")]),
                            ({"z": "x_y", "x": "y"}, [("inst", "i1", "i2_x")])):
        out.append((base, script, members))
    cases = []
    for base, script, members in out:
        d = copy.deepcopy(base)
        if members:
            apply_member_map(d, dict({"x": "x", "y": "y", "z": "z", "u": "u", "v": "v"}, **members))
        for step in script:
            mod, kind, old, new = step if len(step) == 4 else ("Top",) + tuple(step)
            apply_rename(d, mod, kind, old, new)
        cases.append((base, d))
    return cases


def gen_batch(rng):
    """One module, designer names chosen around the names of one batch: an array, an instance bundle or a bundle instance."""
    kind = rng.choice(["array", "ibundle", "bundle"])
    base = rng.choice(["a", "a_", "a_x", "b"])
    members = rng.sample(["x", "x_", "x__", "y", "x_y", "y_", "0", "1"], rng.randint(1, 4))
    if kind == "array":
        parts = [str(k) for k in range(rng.randint(1, 4))]
    elif kind == "ibundle":
        parts = [m for m in members if not m[0].isdigit()] or ["x"]
    else:
        # a bundle with scalar members and one sub-bundle: leaves in declaration order, sub-bundles after the signals
        parts = [m for m in members if not m[0].isdigit()] or ["x"]
    sub = None
    if kind == "bundle" and rng.random() < 0.6:
        sub = {"n": rng.choice(["y", "x", "s"]), "members": rng.sample(["x", "x_", "z"], rng.randint(1, 2))}
        if sub["n"] in parts:
            parts.remove(sub["n"])
        if not parts:
            parts = ["w"]
    invented = [f"{base}_{p}" for p in parts] + ([f"{base}_{sub['n']}_{q}" for q in sub["members"]] if sub else [])
    pool = sorted({x + "_" * k for x in invented for k in range(3)} | {base + "_", "s", "t"})
    designer = [n for n in rng.sample(pool, rng.randint(0, min(6, len(pool)))) if n != base]
    long_pad = rng.choice([0, 0, 0, 505, 506, 507, 508])
    return {"kind": kind, "base": base + "q" * long_pad, "parts": parts, "sub": sub, "designer": [d.replace(base, base + "q" * long_pad, 1) if d.startswith(base) else d for d in designer]}


def impl_batch(case):
    import common as _c
    h = _c.repo_env()
    m = h.Module(name="Batch")
    for n in case["designer"]:
        m.add(h.Signal(name=n))
    R = h.R(r=1)
    m.add(h.Signal(name="zz_p"))
    m.add(h.Signal(name="zz_n"))
    try:
        if case["kind"] == "array":
            m.add(h.InstanceArray(R, len(case["parts"]))(p=m.zz_p, n=m.zz_n), name=case["base"])
        else:
            b = h.Bundle(name="Bt")
            for p in case["parts"]:
                b.add(h.Signal(name=p))
            if case["sub"]:
                sb = h.Bundle(name="Sb")
                for q in case["sub"]["members"]:
                    sb.add(h.Signal(name=q))
                b.add(sb(), name=case["sub"]["n"])
            if case["kind"] == "ibundle":
                IB = h.InstanceBundleType(name="IBt", bundle=b)
                m.add(IB(R)(p=m.zz_p, n=m.zz_n), name=case["base"])
            else:
                m.add(b(), name=case["base"])
        before = set(m.namespace)
        h.elaborate(m)
    except Exception as ex:  # noqa
        return {"raise": f"{type(ex).__name__}: {str(ex)[:120]}"}
    new = [n for n in m.namespace if n not in before]
    kept = all(n in m.namespace and isinstance(m.namespace[n], h.Signal) for n in case["designer"])
    return {"names": new, "designer_kept": kept, "count": len(m.namespace)}


def line_batch(case):
    parts = [[case["base"], p] for p in case["parts"]]
    if case["sub"]:
        parts += [[case["base"], case["sub"]["n"] + "_" + q] for q in case["sub"]["members"]]
    return {"prop": "NAMES", "op": "invent", "ns": case["designer"] + ["zz_p", "zz_n"], "batch": parts, "maxlen": MAXLEN}


def judge_batch(case, im, mo):
    if "raise" in im:
        if "fail" not in mo:
            # raising is an accepted way out of a clash; near the length limit another way of choosing names may have to raise where
            # the model's still finds one — only far from the limit is a refusal a disagreement
            if len(case["base"]) < 400:
                yield ("corr", f"refused although fresh names exist: {im['raise']}")
            else:
                INFO["refused_near_the_length_limit_where_the_model_finds_a_name"] = INFO.get("refused_near_the_length_limit_where_the_model_finds_a_name", 0) + 1
        return
    names = im["names"]
    if not im["designer_kept"]:
        yield ("pred", f"a designer signal was replaced: designer {case['designer']}, namespace now holds {names}")
    if len(set(names)) != len(names) or set(names) & set(case["designer"]):
        yield ("pred", f"invented names clash: {names} next to {case['designer']}")
    nbatch = len(case["parts"]) + (len(case["sub"]["members"]) if case["sub"] else 0)
    if len(names) != nbatch:
        yield ("pred", f"{nbatch} things to name, {len(names)} new names in the module: {names}")
    # Which fresh name is chosen is the code's business ("a clash is resolved by choosing a fresh name or by raising"): what
    # `inventAll_spec` proves of the model's choice — distinct from every name in the module and from each other, the namespace
    # afterwards the old one plus exactly those names — has been demanded of the implementation's choice above. Agreement with the
    # model's very names (the underscore-appending `flatname`) is recorded, not demanded.
    if "fail" in mo or names != mo["names"]:
        INFO["batches_named_otherwise_than_the_model"] += 1
    else:
        INFO["batches_named_as_the_model"] += 1


INFO = {"batches_named_otherwise_than_the_model": 0, "batches_named_as_the_model": 0}
SB = common.Stream("batch_names", impl_batch, line_batch, judge_batch, chunk=16)


def descriptors(partition, devices, topports):
    """Name-free form of a partition: sorted multiset of sorted descriptor lists."""
    kind = {dv["path"]: dv["kind"] for dv in devices}
    out = []
    for cls in partition:
        ds = []
        for o in cls:
            mt = re.fullmatch(r"(.*):([^:\[]+)\[(\d+)\]", o)
            if mt and mt.group(1) in kind:
                ds.append(f"T|{kind[mt.group(1)]}|{mt.group(2)}|{mt.group(3)}|{mt.group(1).count('/')}")
            else:
                mp = re.fullmatch(r"(.*)\[(\d+)\]", o)
                ds.append(f"P|{topports.get(mp.group(1), '?')}|{mp.group(2)}")
        out.append(sorted(ds))
    return sorted(out)


def run(ctx):
    rep, rng = ctx.rep, ctx.rng
    rep.extra["rule"] = (
        "valid generated designs x adversarial renamings (designer names drawn from the names the elaborator invents for that very "
        "design, incl. trailing-underscore variants); non-trivial = at least one designer name equals an invented name; distinct = distinct renamed design"
    )
    n = 120 if ctx.quick else 2500
    base = designs.gen_cases(rng, n, opts={"ibtypes": True, "pair_prob": 0.3, "ib_prob": 0.75}, styles=("proc", "class", "gen"))
    outs = ctx.drv.run([designs.sem_line(c, None) for c in base])
    valid = [c for c, o in zip(base, outs) if "ok" in o["src"]]
    cases, friendly = [], []
    for k, (fd, ad_) in enumerate(corpus()):
        for style in ("proc", "class"):
            cases.append({"design": ad_, "style": style, "netlist": False})
            friendly.append({"design": fd, "style": style})
    for c in valid:
        for k in range(3):
            r = rename_design(c["design"], rng) if k < 2 else long_names(c["design"], rng)
            if r and any(r[1][m] for m in r[1]):
                cases.append({"design": r[0], "style": c["style"], "netlist": False})
                friendly.append(c)
    fr = designs.run_designs(ctx, [dict(c, netlist=False) for c in friendly])
    ad = designs.run_designs(ctx, cases)
    stats = {"renamed": len(cases), "exported": 0, "rejected": 0, "model_rejects_renamed": 0}
    for (fc, fim, fmo), (c, im, mo) in zip(fr, ad):
        case = {"stream": "renamed", "case": c}
        rep.count("renamed", json.dumps(c["design"]))
        if "pkg" not in fim or "ok" not in fmo["src"]:
            continue
        if "pkg" not in im:
            stats["rejected"] += 1  # resolved by raising: allowed
            continue
        stats["exported"] += 1
        if mo["wf_problems"]:
            rep.fail("pred", case, {"why": "names are not unique / package not closed after adversarial renaming", "problems": mo["wf_problems"][:6]})
            continue
        # designer names still present
        pm = {m["name"].split(".")[-1]: m for m in im["pkg"]["modules"]}
        for m in c["design"]["modules"]:
            if m["name"] not in pm:
                continue
            signames = {s["n"] for s in pm[m["name"]]["signals"]}
            instnames = {i["n"] for i in pm[m["name"]]["instances"]}
            for s in m["sigs"]:
                if s["n"] not in signames:
                    rep.fail("pred", case, {"why": f"designer signal {m['name']}.{s['n']} disappeared (replaced or shadowed)"})
            for i in m["insts"]:
                if "array" not in i and "pair" not in i and i["n"] not in instnames:
                    rep.fail("pred", case, {"why": f"designer instance {m['name']}.{i['n']} disappeared (replaced or shadowed)"})
        # connectivity, name-free
        def topports(pj, top):
            m = next(x for x in pj["modules"] if x["name"] == top)
            w = {s["n"]: s["w"] for s in m["signals"]}
            return {p["n"]: w[p["n"]] for p in m["ports"]}
        if "ok" in mo["pkg"] and "ok" in fmo["pkg"]:
            a = descriptors(mo["pkg"]["ok"], mo["pkg_devices"], topports(im["pkg"], im["top"]))
            b = descriptors(fmo["pkg"]["ok"], fmo["pkg_devices"], topports(fim["pkg"], fim["top"]))
            if a != b:
                rep.fail("pred", case, {"why": "nets merged or split because of a name", "renamed": a[:6], "friendly": b[:6]})
    rep.extra["stats"] = stats
    # the model's batch naming (inventAll, theorem inventAll_spec) against the names the passes really choose
    SB.run(ctx, [gen_batch(rng) for _ in range(300 if ctx.quick else 6000)])
    rep.extra["batch_names_vs_model"] = dict(INFO)
    if cases:
        rep.sample({"renamed_modules": [[m["name"], [s["n"] for s in m["sigs"]], [i["n"] for i in m["insts"]]] for m in cases[0]["design"]["modules"]]})


def replay(ctx, rp):
    c = rp["case"]["case"]
    (cc, im, mo), = designs.run_designs(ctx, [c])
    print(json.dumps({"detail": rp.get("detail"), "wf": mo.get("wf_problems")}, default=str)[:2000])
    if mo.get("wf_problems"):
        print(f"VIOLATION property=C05 replay={rp.get('_path')}")
        return 1
    return 1
