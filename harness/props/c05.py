"""C05 — names invented during elaboration never capture the designer's names.

Adversarial-name stream: take a valid generated design, compute every name the elaborator would invent for it
(inst_port for implicit signals behind references and no-connects, the names of named no-connects, bundle_member for
flattened bundles, array_k, pair_m, each also with trailing underscores), and rename designer signals, ports, instances and
bundle instances to exactly those names.  Then: the package must keep names unique per module (Lean WFpkg), every designer
signal / instance must still be there under its own name, and the net partition — reduced to name-free descriptors — must be
the one of the same design with friendly names.
"""
import copy
import json
import re

import common
import designs
import gen_design

ASSUMPTIONS = [
    "a clash may be resolved by a fresh name or by raising: a renamed design that is rejected is not a violation",
    "connectivity is compared after replacing every observable by a name-free descriptor (device kind, port, bit, hierarchy depth; "
    "top port width, bit): merged or split nets change the multiset of classes; which of two identical devices is which is not compared",
]
TRUSTED = ["the renaming is applied consistently by harness code (rename_design)"]


def invented_names(design):
    """module name -> set of names the elaborator may invent there."""
    out = {}
    bt = {b["name"]: b["tree"] for b in design["bundles"]}
    for m in design["modules"]:
        s = set()
        for b in m["bundles"]:
            for path, _ in gen_design.tree_leaves(bt[b["of"]]):
                s.add(b["n"] + "_" + "_".join(path))
        for i in m["insts"]:
            for k in range(i.get("array", 0)):
                s.add(f"{i['n']}_{k}")
            for mem in i.get("pair", []):
                s.add(f"{i['n']}_{mem}")
            ports = gen_design.iface_of(design, i["of"])
            for p, path, w in ports:
                s.add(f"{i['n']}_{p}")  # implicit signal / bundle behind a reference or an unnamed no-connect
                if path:
                    s.add(f"{i['n']}_{p}_" + "_".join(path))
            for port, c in i["conns"]:
                if c["k"] == "noconn" and c.get("name"):
                    s.add(c["name"])
        out[m["name"]] = s | {x + "_" for x in s}
    return out


def rename_design(design, rng, intensity=0.7):
    """Rename designer names (signals, instances, bundle instances) of each module to invented names. Returns (design, mapping)."""
    d = copy.deepcopy(design)
    inv = invented_names(design)
    mapping = {}
    for m in d["modules"]:
        cands = sorted(inv[m["name"]])
        rng.shuffle(cands)
        own = [("sig", s["n"]) for s in m["sigs"]] + [("inst", i["n"]) for i in m["insts"]] + [("bundle", b["n"]) for b in m["bundles"]]
        rng.shuffle(own)
        ren = {}
        taken = {n for _, n in own}
        for kind, n in own:
            if cands and rng.random() < intensity:
                new = cands.pop()
                if new in taken or new in ren.values():
                    continue
                ren[n] = new
        mapping[m["name"]] = ren
        r = lambda n: ren.get(n, n)
        for s in m["sigs"]:
            s["n"] = r(s["n"])
        for b in m["bundles"]:
            b["n"] = r(b["n"])

        def rc(c):
            k = c["k"]
            if k == "sig" or k == "bundle":
                c["n"] = r(c["n"])
            elif k == "pref":
                c["inst"] = r(c["inst"])
            elif k == "bref":
                c["root"] = r(c["root"])
            elif k == "slice":
                rc(c["p"])
            elif k == "concat":
                for p in c["ps"]:
                    rc(p)
            elif k == "anon":
                for f in c["fields"]:
                    rc(f[1])
        for i in m["insts"]:
            i["n"] = r(i["n"])
            for pc in i["conns"]:
                rc(pc[1])
    # port names of modules changed: fix the connections of their instances in parents
    for m in d["modules"]:
        for i in m["insts"]:
            if i["of"]["k"] == "module":
                ren = mapping[i["of"]["name"]]
                for pc in i["conns"]:
                    pc[0] = ren.get(pc[0], pc[0])
    return d, mapping


def descriptors(partition, devices, topports):
    """Name-free form of a partition: sorted multiset of sorted descriptor lists."""
    kind = {dv["path"]: dv["kind"] for dv in devices}
    out = []
    for cls in partition:
        ds = []
        for o in cls:
            mt = re.fullmatch(r"(.*):([^:\[]+)\[(\d+)\]", o)
            if mt and mt.group(1) in kind:
                ds.append(f"T|{kind[mt.group(1)]}|{mt.group(2)}|{mt.group(3)}|{mt.group(1).count('/')}")
            else:
                mp = re.fullmatch(r"(.*)\[(\d+)\]", o)
                ds.append(f"P|{topports.get(mp.group(1), '?')}|{mp.group(2)}")
        out.append(sorted(ds))
    return sorted(out)


def run(ctx):
    rep, rng = ctx.rep, ctx.rng
    rep.extra["rule"] = (
        "valid generated designs x adversarial renamings (designer names drawn from the names the elaborator invents for that very "
        "design, incl. trailing-underscore variants); non-trivial = at least one designer name equals an invented name; distinct = distinct renamed design"
    )
    n = 120 if ctx.quick else 2500
    base = designs.gen_cases(rng, n, styles=("proc", "class", "gen"))
    outs = ctx.drv.run([designs.sem_line(c, None) for c in base])
    valid = [c for c, o in zip(base, outs) if "ok" in o["src"]]
    cases, friendly = [], []
    for c in valid:
        for _ in range(2):
            d2, mp = rename_design(c["design"], rng)
            if any(mp[m] for m in mp):
                cases.append({"design": d2, "style": c["style"], "netlist": False})
                friendly.append(c)
    fr = designs.run_designs(ctx, [dict(c, netlist=False) for c in friendly])
    ad = designs.run_designs(ctx, cases)
    stats = {"renamed": len(cases), "exported": 0, "rejected": 0, "model_rejects_renamed": 0}
    for (fc, fim, fmo), (c, im, mo) in zip(fr, ad):
        case = {"stream": "renamed", "case": c}
        rep.count("renamed", json.dumps(c["design"]))
        if "pkg" not in fim or "ok" not in fmo["src"]:
            continue
        if "pkg" not in im:
            stats["rejected"] += 1  # resolved by raising: allowed
            continue
        stats["exported"] += 1
        if mo["wf_problems"]:
            rep.fail("pred", case, {"why": "names are not unique / package not closed after adversarial renaming", "problems": mo["wf_problems"][:6]})
            continue
        # designer names still present
        pm = {m["name"].split(".")[-1]: m for m in im["pkg"]["modules"]}
        for m in c["design"]["modules"]:
            if m["name"] not in pm:
                continue
            signames = {s["n"] for s in pm[m["name"]]["signals"]}
            instnames = {i["n"] for i in pm[m["name"]]["instances"]}
            for s in m["sigs"]:
                if s["n"] not in signames:
                    rep.fail("pred", case, {"why": f"designer signal {m['name']}.{s['n']} disappeared (replaced or shadowed)"})
            for i in m["insts"]:
                if "array" not in i and "pair" not in i and i["n"] not in instnames:
                    rep.fail("pred", case, {"why": f"designer instance {m['name']}.{i['n']} disappeared (replaced or shadowed)"})
        # connectivity, name-free
        def topports(pj, top):
            m = next(x for x in pj["modules"] if x["name"] == top)
            w = {s["n"]: s["w"] for s in m["signals"]}
            return {p["n"]: w[p["n"]] for p in m["ports"]}
        if "ok" in mo["pkg"] and "ok" in fmo["pkg"]:
            a = descriptors(mo["pkg"]["ok"], mo["pkg_devices"], topports(im["pkg"], im["top"]))
            b = descriptors(fmo["pkg"]["ok"], fmo["pkg_devices"], topports(fim["pkg"], fim["top"]))
            if a != b:
                rep.fail("pred", case, {"why": "nets merged or split because of a name", "renamed": a[:6], "friendly": b[:6]})
    rep.extra["stats"] = stats
    if cases:
        rep.sample({"renamed_modules": [[m["name"], [s["n"] for s in m["sigs"]], [i["n"] for i in m["insts"]]] for m in cases[0]["design"]["modules"]]})


def replay(ctx, rp):
    c = rp["case"]["case"]
    (cc, im, mo), = designs.run_designs(ctx, [c])
    print(json.dumps({"detail": rp.get("detail"), "wf": mo.get("wf_problems")}, default=str)[:2000])
    if mo.get("wf_problems"):
        print(f"VIOLATION property=C05 replay={rp.get('_path')}")
        return 1
    return 1
