"""C07 — elaboration results do not depend on elaboration history.

For generated design DAGs (shared sub-modules, bundle-valued ports, port references): every history — orders and
groupings of elaborate / to_proto / netlist calls over the design's modules, with parents built before or after their
children were elaborated, repeated calls — runs in a fresh process; the serialized package of the top (and of every
module exported on the way) must equal, byte for byte, the package a fresh process gives for a single call.
Afterwards every elaborated module must refuse additions.
"""
import copy
import hashlib
import io
import itertools
import json

import common
import designs
import build

h = common.repo_env()

ASSUMPTIONS = [
    "byte equality of SerializeToString(deterministic=True); histories are enumerated exhaustively for designs of <= 3 modules "
    "(quick) / <= 4 (thorough) and sampled beyond",
]
TRUSTED = ["fresh fork per history (the parent never elaborates)"]


def digest(pkg):
    return hashlib.md5(pkg.SerializeToString(deterministic=True)).hexdigest()


def run_history(case):
    """ops: ["B", name] build next module (must follow design order), ["E", [names]] elaborate, ["P", [names]] to_proto,
    ["N", name] netlist. Returns digests of every package produced, and the final top package digest."""
    d = case["design"]
    inc = build.Incremental(d, case.get("style", "proc"))
    out = {"pkgs": [], "errors": []}
    try:
        for op in case["ops"]:
            if op[0] == "B":
                while inc.k < len(d["modules"]) and d["modules"][inc.k - 1]["name"] != op[1] if inc.k else True:
                    inc.next_module()
                    if d["modules"][inc.k - 1]["name"] == op[1]:
                        break
            elif op[0] == "E":
                ms = [inc.mods[n] for n in op[1]]
                h.elaborate(ms if len(ms) > 1 else ms[0])
            elif op[0] == "P":
                ms = [inc.mods[n] for n in op[1]]
                pkg = h.to_proto(ms if len(ms) > 1 else ms[0])
                out["pkgs"].append([op[1], digest(pkg)])
            elif op[0] == "N":
                try:
                    h.netlist(inc.mods[op[1]], io.StringIO(), fmt="spice")
                except RuntimeError as ex:
                    if "physical `hdl21.Primitive`" not in str(ex) and "Conflicting ExternalModule definitions" not in str(ex):
                        raise  # (vlsirtools refuses physical generic primitives by design; elaboration and export still ran)
        if case.get("role") == "baseline_mod":
            return out  # only the module's own single-call package is wanted
        while inc.remaining():
            inc.next_module()
        pkg = h.to_proto(inc.mods[d["top"]])
        out["final"] = digest(pkg)
        # frozen afterwards
        frozen = True
        for m in inc.mods.values():
            if m._elaborated is not None:
                try:
                    m.add(h.Signal(name="zz_after_elab"))
                    frozen = False
                except Exception:
                    pass
                # … nor the re-filing of an attribute it already holds (which would move it to the end of its container)
                for held in list(m.ports.values())[:1] + list(m.instances.values())[:1] + list(m.signals.values())[:1]:
                    for how in (lambda: m.add(held), lambda: setattr(m, held.name, held)):
                        try:
                            how()
                            frozen = False
                        except Exception:
                            pass
        if not frozen and "error" not in out:
            out["refiled"] = digest(h.to_proto(inc.mods[d["top"]])) != out["final"]
        out["frozen"] = frozen
    except Exception as ex:  # noqa
        out["error"] = f"{type(ex).__name__}: {str(ex)[-200:]}"
    return out


def histories(design, rng, exhaustive, limit, ok=None):
    names = [m["name"] for m in design["modules"]]
    top = design["top"]
    subs = [n for n in names if n != top and (ok is None or n in ok)]
    hs = []
    # all modules built first, then every order of single-module calls over non-top modules, each as E or P
    base_build = [["B", n] for n in names]
    if exhaustive:
        for r in range(0, len(subs) + 1):
            for perm in itertools.permutations(subs, r):
                for kinds in itertools.product("EP", repeat=r):
                    hs.append(base_build + [[k, [n]] for k, n in zip(kinds, perm)])
        # groupings: lists of modules in one call
        for r in range(2, len(subs) + 1):
            for comb in itertools.permutations(subs, r):
                hs.append(base_build + [["E", list(comb)]])
                hs.append(base_build + [["P", list(comb)]])
    # staged: elaborate / export children before their parents exist
    for _ in range(8 if exhaustive else 4):
        ops = []
        for n in names:
            ops.append(["B", n])
            if n != top and n in subs and rng.random() < 0.7:
                ops.append([rng.choice("EPN"), [n] if True else n])
                if ops[-1][0] == "N":
                    ops[-1] = ["N", n]
            if rng.random() < 0.2 and n != top and n in subs:
                ops.append(["P", [n]])  # again
        hs.append(ops)
    # lists mixing already-elaborated and new modules
    for _ in range(6 if exhaustive else 3):
        if len(subs) >= 1:
            x = rng.choice(subs)
            others = [n for n in names if n != x and (n in subs or n == top)]
            rng.shuffle(others)
            lst = [x] + others[: rng.randint(1, max(1, len(others)))]
            rng.shuffle(lst)
            hs.append(base_build + [[rng.choice("EP"), [x]], ["P", lst]])
    # repeated calls on the top itself
    hs.append(base_build + [["E", [top]], ["P", [top]], ["E", [top]]])
    hs.append(base_build + [["P", [top]], ["N", top]])
    rng.shuffle(hs)
    seen, out = set(), []
    for x in hs:
        k = json.dumps(x)
        if k not in seen:
            seen.add(k)
            out.append(x)
    return out[:limit]


def corpus_designs():
    """Bundle-port reference groups without an explicit source, scalar reference groups, shared children."""
    lf = lambda n, w: {"n": n, "w": w, "port": False, "dir": "none", "src": None, "dest": None, "kind": "plain"}
    bdef = {"name": "B", "tree": {"sigs": [lf("x", 1), lf("y", 2)], "subs": []}}
    E = {"k": "leaf", "kind": ".E9", "ports": [{"n": "q", "w": 1}, {"n": "r", "w": 2}], "params": [], "py": {"k": "ext", "name": "E9"}}
    child = {"name": "Child", "sigs": [{"n": "s", "w": 1, "port": True, "dir": "none"}], "bundles": [{"n": "bp", "of": "B", "port": True}],
             "insts": [{"n": "e", "of": E, "conns": [["q", {"k": "bref", "root": "bp", "path": ["x"]}], ["r", {"k": "bref", "root": "bp", "path": ["y"]}]]},
                       {"n": "e2", "of": E, "conns": [["q", {"k": "sig", "n": "s"}], ["r", {"k": "bref", "root": "bp", "path": ["y"]}]]}]}
    mid = {"name": "Mid", "sigs": [{"n": "t", "w": 1, "port": True, "dir": "none"}], "bundles": [],
           "insts": [{"n": "c1", "of": {"k": "module", "name": "Child"}, "conns": [["s", {"k": "sig", "n": "t"}]]},
                     {"n": "c2", "of": {"k": "module", "name": "Child"}, "conns": [["s", {"k": "pref", "inst": "c1", "port": "s"}], ["bp", {"k": "pref", "inst": "c1", "port": "bp"}]]}]}
    top = {"name": "Top", "sigs": [{"n": "u", "w": 1, "port": True, "dir": "none"}], "bundles": [{"n": "b", "of": "B", "port": False}],
           "insts": [{"n": "m", "of": {"k": "module", "name": "Mid"}, "conns": [["t", {"k": "sig", "n": "u"}]]},
                     {"n": "c", "of": {"k": "module", "name": "Child"}, "conns": [["s", {"k": "sig", "n": "u"}], ["bp", {"k": "bundle", "n": "b"}]]}]}
    d = {"bundles": [bdef], "modules": [child, mid, top], "top": "Top"}
    # a module reached only through an instance bundle (h.Pair), holding a Pair of its own
    import gen_design
    R = copy.deepcopy(gen_design.LEAVES[3])
    pmid = {"name": "PMid", "sigs": [{"n": "a", "w": 1, "port": True, "dir": "none"}, {"n": "b", "w": 1, "port": True, "dir": "none"}, {"n": "x", "w": 1, "port": False, "dir": "none"},
                                     {"n": "y", "w": 1, "port": False, "dir": "none"}], "bundles": [],
            "insts": [{"n": "legs", "of": R, "pair": ["p", "n"], "conns": [["p", {"k": "sig", "n": "a"}], ["n", {"k": "anon", "fields": [["p", {"k": "sig", "n": "x"}], ["n", {"k": "sig", "n": "y"}]]}]]},
                      {"n": "r1", "of": R, "conns": [["p", {"k": "sig", "n": "x"}], ["n", {"k": "sig", "n": "b"}]]},
                      {"n": "r2", "of": R, "conns": [["p", {"k": "sig", "n": "y"}], ["n", {"k": "sig", "n": "b"}]]}]}
    ptop = {"name": "Top", "sigs": [{"n": "u", "w": 1, "port": True, "dir": "none"}, {"n": "v", "w": 1, "port": True, "dir": "none"}, {"n": "w", "w": 1, "port": False, "dir": "none"}], "bundles": [],
            "insts": [{"n": "halves", "of": {"k": "module", "name": "PMid"}, "pair": ["p", "n"],
                       "conns": [["a", {"k": "sig", "n": "u"}], ["b", {"k": "anon", "fields": [["p", {"k": "sig", "n": "v"}], ["n", {"k": "sig", "n": "w"}]]}]]}]}
    d2 = {"bundles": [copy.deepcopy(gen_design.DIFF)], "modules": [pmid, ptop], "top": "Top"}
    return [{"design": d, "style": st} for st in ("proc", "class", "gen")] + [{"design": d2, "style": st} for st in ("proc", "class")]


def run(ctx):
    rep, rng = ctx.rep, ctx.rng
    rep.extra["rule"] = (
        "generated designs with 2-4 modules (shared sub-modules, bundle ports, references); all orders/kinds/groupings of calls over the "
        "non-top modules for small designs plus staged histories (children elaborated before parents exist) and repeated calls; one fresh "
        "process per history; non-trivial = at least one call before the final export; distinct = distinct (design, history)"
    )
    ndes = 10 if ctx.quick else 60
    per = 30 if ctx.quick else 120
    cases_d = [c for c in designs.gen_cases(rng, 6 * ndes, opts={"max_modules": 4}, styles=("proc", "class", "gen")) if 2 <= len(c["design"]["modules"]) <= (3 if ctx.quick else 4)]
    # keep designs the model accepts
    outs = ctx.drv.run([designs.sem_line(c, None) for c in cases_d])
    cases_d = corpus_designs() + [c for c, o in zip(cases_d, outs) if "ok" in o["src"]][:ndes]
    # phase 1: fresh single-call baselines for the top and for every module on its own
    bjobs = []
    for c in cases_d:
        d = c["design"]
        bjobs.append({"design": d, "style": c["style"], "ops": [], "role": "baseline"})
        for m in d["modules"]:
            if m["name"] != d["top"]:
                bjobs.append({"design": d, "style": c["style"], "ops": [["B", x["name"]] for x in d["modules"]] + [["P", [m["name"]]]], "role": "baseline_mod", "mod": m["name"]})
    base, base_mod = {}, {}
    for j, r in zip(bjobs, common.pmap_fresh(run_history, bjobs)):
        key = json.dumps(j["design"]) + j["style"]
        if j["role"] == "baseline":
            base[key] = r
        elif r.get("pkgs") and "error" not in r:
            base_mod[(key, j["mod"])] = r["pkgs"][-1][1]
    # phase 2: histories over the modules that export on their own
    jobs = []
    for c in cases_d:
        d = c["design"]
        key = json.dumps(d) + c["style"]
        if "error" in base[key]:
            continue
        ok_mods = {m["name"] for m in d["modules"] if (key, m["name"]) in base_mod} | {d["top"]}
        dd = dict(d, _ok=sorted(ok_mods))
        for hst in histories(d, rng, exhaustive=len(d["modules"]) <= 3, limit=per, ok=ok_mods):
            jobs.append({"design": d, "style": c["style"], "ops": hst, "role": "history"})
    results = common.pmap_fresh(run_history, jobs)
    # fresh single-call baselines for every list exported in some history
    lists = sorted({(json.dumps(j["design"]) + "|" + j["style"], json.dumps(op[1])) for j in jobs for op in j["ops"] if op[0] == "P" and len(op[1]) > 1})
    by_key = {json.dumps(c["design"]) + "|" + c["style"]: c for c in cases_d}
    ljobs = [{"design": by_key[k]["design"], "style": by_key[k]["style"], "role": "baseline_mod",
              "ops": [["B", x["name"]] for x in by_key[k]["design"]["modules"]] + [["P", json.loads(l)]]} for k, l in lists]
    base_list = {}
    for (k, l), r in zip(lists, common.pmap_fresh(run_history, ljobs)):
        if r.get("pkgs") and "error" not in r:
            base_list[(k, l)] = r["pkgs"][-1][1]
    nh = 0
    for j, r in zip(jobs, results):
        if j["role"] != "history":
            continue
        key = json.dumps(j["design"]) + j["style"]
        b = base[key]
        case = {"stream": "histories", "case": {"design": j["design"], "style": j["style"], "ops": j["ops"]}}
        rep.count("histories", key + json.dumps(j["ops"]), nontrivial=len([o for o in j["ops"] if o[0] != "B"]) > 0)
        nh += 1
        if "error" in b:
            continue  # the design does not export at all (not this property's business)
        if "error" in r:
            rep.fail("pred", case, {"why": "a history made a valid design fail", "error": r["error"], "fresh": b.get("final")})
            continue
        if r["final"] != b["final"]:
            rep.fail("pred", case, {"why": "package differs from the fresh single-call package", "history": r["final"], "fresh": b["final"]})
        if not r.get("frozen", True):
            rep.fail("pred", case, {"why": "an elaborated module accepted an addition"})
        for names, dg in r["pkgs"]:
            if len(names) > 1:
                want = base_list.get((json.dumps(j["design"]) + "|" + j["style"], json.dumps(names)))
                if want is not None and dg != want:
                    rep.fail("pred", case, {"why": f"package of the list {names} exported mid-history differs from its fresh single-call package"})
            if len(names) == 1 and names[0] != j["design"]["top"]:
                want = base_mod.get((key, names[0]))
                if want is not None and dg != want:
                    rep.fail("pred", case, {"why": f"package of {names[0]} exported mid-history differs from its fresh single-call package"})
    # programs: exporting early must not change what is exported later; bad new parents of elaborated children are refused
    hows = ["never", "elaborate", "to_proto", "netlist"]
    res = dict(zip(hows, common.pmap_fresh(program_early_export, hows)))
    for how in hows[1:]:
        rep.count("programs", "early:" + how)
        for part in ("gen", "renamed"):
            if res[how][part] != res["never"][part]:
                rep.fail("pred", {"stream": "programs", "case": {"early": how, "part": part}},
                         {"why": f"the package depends on an earlier {how}: {part}", "with": res[how][part], "without": res["never"][part]})
    bjobs2 = [{"first": f, "fault": x} for x in ("flat_names", "extra_member", "both", "array_flat_ref", "array_flat_noconn") for f in ("never", "elaborate", "to_proto")]
    bres = common.pmap_fresh(program_bad_new_parent, bjobs2)
    for j, r in zip(bjobs2, bres):
        rep.count("programs", json.dumps(j))
        if r != "raised":
            rep.fail("pred", {"stream": "programs", "case": j}, {"why": "an ill-connected new parent of a child (fresh or already elaborated) was exported", "result": r})
    r6 = [{"kind": k, "how": hw} for k, hows6 in (("wrap_order", ["never", "elaborate", "to_proto"]), ("after_failed", ["never", "failed"]), ("same_name", ["never", "other_first"])) for hw in hows6]
    r6res = common.pmap_fresh(program_round6, r6)
    for j, r in zip(r6, r6res):
        rep.count("programs", json.dumps(j))
        ref = next(r0 for j0, r0 in zip(r6, r6res) if j0["kind"] == j["kind"] and j0["how"] == "never")
        if "raised" in ref:
            rep.fail("corr", {"stream": "programs", "case": j}, {"why": "the history-free run of the program does not export", "result": ref})
        elif r != ref:
            rep.fail("pred", {"stream": "programs", "case": j}, {"why": "what is exported depends on what was elaborated (or failed to elaborate) before in the process", "with_history": r, "without": ref})
    rep.extra["designs"] = len(cases_d)
    rep.extra["histories"] = nh
    if jobs:
        rep.sample({"ops": next(j["ops"] for j in jobs if j["role"] == "history"), "modules": [m["name"] for m in jobs[0]["design"]["modules"]]})



# ---------------------------------------------------------------------------------------------- programs

def program_early_export(how):
    """A generator that exports / netlists / elaborates its own cell before returning it (the parameter suffix is appended to the
    cell's name afterwards), and a module that is renamed between two exports.  -> digests of the final packages"""
    import io
    import hashlib

    @h.paramclass
    class CellParams:
        n = h.Param(dtype=int, desc="n", default=2)

    @h.generator
    def Cell(p: CellParams) -> h.Module:
        m = h.Module(name="Cell")
        m.a, m.b = h.Inout(), h.Inout()
        m.rs = h.InstanceArray(h.R(r=1), p.n)(p=m.a, n=m.b)
        if how == "to_proto":
            h.to_proto(m)
        elif how == "netlist":
            h.netlist(m, io.StringIO(), fmt="spice")
        elif how == "elaborate":
            h.elaborate(m)
        return m

    out = {}
    try:
        top = h.Module(name="Top")
        top.x, top.y = h.Signals(2)
        top.c = Cell(n=3)(a=top.x, b=top.y)
        top.c2 = Cell(n=4)(a=top.x, b=top.y)
        pkg = h.to_proto(top)
        out["gen"] = [m.name for m in pkg.modules] + [hashlib.md5(pkg.SerializeToString(deterministic=True)).hexdigest()]
    except Exception as ex:  # noqa
        out["gen"] = "raise " + common.errstr(ex)
    try:
        mod = h.Module(name="Before")
        mod.p, mod.q = h.Inout(), h.Inout()
        mod.r = h.R(r=1)(p=mod.p, n=mod.q)
        if how != "never":
            h.to_proto(mod) if how != "netlist" else h.netlist(mod, io.StringIO(), fmt="spice")
        mod.name = "After"
        par = h.Module(name="Par")
        par.s, par.t = h.Signals(2)
        par.i = mod(p=par.s, q=par.t)
        pkg = h.to_proto(par)
        out["renamed"] = [m.name for m in pkg.modules] + [hashlib.md5(pkg.SerializeToString(deterministic=True)).hexdigest()]
    except Exception as ex:  # noqa
        out["renamed"] = "raise " + common.errstr(ex)
    return out


def program_bad_new_parent(job):
    """A new parent that connects an (already elaborated / exported, or fresh) child by its *flattened* port names, or with an
    anonymous bundle that has an extra member: must be refused exactly as for the fresh child."""
    first = job["first"]
    @h.bundle
    class Link:
        tx = h.Signal()
        rx = h.Signal()

    child = h.Module(name="Child")
    child.link = Link(port=True)
    child.r = h.R(r=1)(p=child.link.tx, n=child.link.rx)
    if first == "elaborate":
        h.elaborate(child)
    elif first == "to_proto":
        h.to_proto(child)
    par = h.Module(name="BadParent")
    par.a, par.b, par.c = h.Signals(3)
    if job["fault"] == "flat_names":
        par.i = child(link_tx=par.a, link_rx=par.b)
    elif job["fault"] == "extra_member":
        par.i = child(link=h.AnonymousBundle(tx=par.a, rx=par.b, zz=par.c))
    elif job["fault"] == "array_flat_ref":
        # an array of the child, and a reference to one of its ports by the flattened name
        par.i = 2 * child(link=h.AnonymousBundle(tx=par.a, rx=par.b))
        par.r2 = h.R(r=1)(p=par.i.link_tx, n=par.c)
    elif job["fault"] == "array_flat_noconn":
        par.i = 2 * child(link_tx=h.NoConn(), link_rx=par.b)
    else:
        par.i = child(link=h.AnonymousBundle(tx=par.a, rx=par.b), link_tx=par.c)
    try:
        h.to_proto(par)
        return "returned"
    except Exception as ex:  # noqa
        return "raised"



def program_round6(job):
    """Three more histories, each against its history-free run (how = "never"):
    wrap_order   — Wrapper / Series over a unit with two bundle ports, built after the unit was elaborated / exported;
    after_failed — a healthy parent (a no-connect and a port reference on the bundle port of a shared child) after another parent of
                   that child failed in a pass later than the bundle flattening;
    same_name    — a new parent of X after an unrelated module with X's qualified name and another bundle shape was elaborated."""
    from hdl21.generators import Wrapper, Series

    kind, how = job["kind"], job["how"]
    B1 = h.Bundle(name="B1")
    B1.x = h.Signal()
    B1.y = h.Signal(width=2)
    B2 = h.Bundle(name="B2")
    B2.z = h.Signal()
    E = h.ExternalModule(name="E9r6", port_list=[h.Port(name="q"), h.Port(name="r", width=2)], paramtype=dict)
    R = h.R(r=1)
    out = {}
    try:
        if kind == "wrap_order":
            U = h.Module(name="U")
            U.a, U.b = h.Ports(2)
            U.b1 = B1(port=True)
            U.b2 = B2(port=True)
            U.e = E({})(q=U.b1.x, r=U.b1.y)
            U.r1 = R(p=U.a, n=U.b2.z)
            U.r2 = R(p=U.b, n=U.b2.z)
            if how == "elaborate":
                h.elaborate(U)
            elif how == "to_proto":
                h.to_proto(U)
            for nm, m in (("wrapper", Wrapper(U)), ("series", Series(unit=U, nser=2, conns=("a", "b")))):
                pkg = h.to_proto(m)
                out[nm] = {"digest": digest(pkg), "ports": [p.signal for p in pkg.modules[-1].ports]}
        elif kind == "after_failed":
            Leaf = h.Module(name="Leaf")
            Leaf.s = h.Port()
            Leaf.b = B1(port=True)
            Leaf.e = E({})(q=Leaf.b.x, r=Leaf.b.y)
            Leaf.r = R(p=Leaf.s, n=Leaf.b.x)
            if how == "failed":
                Bad = h.Module(name="Bad")
                Bad.s = h.Signal()
                Bad.w3 = h.Signal(width=3)
                Bad.bb = B1()
                Bad.l = Leaf(s=Bad.s, b=Bad.bb)
                Bad.arr = h.InstanceArray(R, 2)(p=Bad.w3, n=Bad.s)
                try:
                    h.to_proto(Bad)
                    out["bad"] = "exported"
                except Exception as ex:  # noqa
                    out["bad"] = "raised"
            Good = h.Module(name="Good")
            Good.s = h.Signal()
            Good.l1 = Leaf(s=Good.s, b=h.NoConn())
            Good.l2 = Leaf(s=Good.s)
            Good.l3 = Leaf(s=Good.s, b=Good.l2.b)
            out["good"] = digest(h.to_proto(Good))
        elif kind == "same_name":
            def factory(shape):
                X = h.Module(name="X")
                X.s = h.Port()
                X.c = shape(port=True)
                if shape is B1:
                    X.e = E({})(q=X.c.x, r=X.c.y)
                else:
                    X.r = R(p=X.s, n=X.c.z)
                return X
            X = factory(B1)
            if how != "never":
                h.elaborate(X)
                h.elaborate(factory(B2))
            Parent = h.Module(name="Parent")
            Parent.s = h.Signal()
            Parent.bb = B1()
            Parent.x = X(s=Parent.s, c=Parent.bb)
            out["parent"] = digest(h.to_proto(Parent))
    except Exception as ex:  # noqa
        out["raised"] = common.errstr(ex)[-200:]
    out.pop("bad", None)
    return out

def replay(ctx, rp):
    c = rp["case"]["case"]
    if rp["case"].get("stream") == "programs":
        if "kind" in c:
            a, b = common.pmap_fresh(program_round6, [{"kind": c["kind"], "how": "never"}, c])
            print(json.dumps({"never": a, c["how"]: b}))
            bad = a != b
        elif "early" in c:
            a, b = common.pmap_fresh(program_early_export, ["never", c["early"]])
            print(json.dumps({"never": a, c["early"]: b}))
            bad = a[c["part"]] != b[c["part"]]
        else:
            (r,) = common.pmap_fresh(program_bad_new_parent, [c])
            print(r)
            bad = r != "raised"
        if bad:
            print(f"VIOLATION property=C07 replay={rp.get('_path')}")
        return 1 if bad else 0
    (b,) = common.pmap_fresh(run_history, [{"design": c["design"], "style": c["style"], "ops": []}])
    (r,) = common.pmap_fresh(run_history, [c])
    print(json.dumps({"fresh": b, "history": r}))
    if r.get("final") != b.get("final") or not r.get("frozen", True):
        print(f"VIOLATION property=C07 replay={rp.get('_path')}")
        return 1
    return 0
