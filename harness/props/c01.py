"""C01 — elaboration and export preserve the connectivity the designer wrote.

Generated hierarchical designs over every construct of the property's quantifier, built procedurally, class-style and
inside generators, exported with h.to_proto and netlisted with h.netlist.  For each design:
  Sem.src(design)   — the declarative meaning (Lean, Design.lean; no reference to any pass)
  Sem.pkg(package)  — the package as the VLSIR netlisters read it (Lean, Pkg.lean)
  spice partition   — read from the netlist text alone (Python, observe.spice_partition)
must coincide, together with the leaf devices and their parameters.
"""
import copy
import json

import common
import designs
import gen_design

h = common.repo_env()

ASSUMPTIONS = [
    "a design the code rejects although Sem.src accepts it is not a violation of C01 (it constrains returned packages); it is "
    "reported as a broken correspondence unless it is one of the documented limitations in designs.known_limitation",
    "a no-connect on an array or Pair port gives every element a net of its own (the statement's last sentence; Pairs always did, arrays since fix b018be6)",
    "element instances are identified by the documented names arr_k / pair_m (designer names are friendly here; adversarial names are C05's)",
]
TRUSTED = ["harness/build.py (IR -> hdl21 objects)", "observe.pkg_json / observe.spice_partition"]


def corpus():
    """The pinned tree's witnesses."""
    inner = {"name": "Inner", "sigs": [{"n": "a", "w": 1, "port": True, "dir": "none"}], "bundles": [], "insts": []}
    in3 = {"name": "In3", "sigs": [{"n": "a", "w": 3, "port": True, "dir": "none"}], "bundles": [],
           "insts": [{"n": "e", "of": {"k": "leaf", "kind": ".E3", "ports": [{"n": "q", "w": 3}], "params": [], "py": {"k": "ext", "name": "E3"}},
                      "conns": [["q", {"k": "sig", "n": "a"}]]}]}
    r = {"k": "leaf", "kind": "vlsir.primitives.resistor", "ports": [{"n": "p", "w": 1}, {"n": "n", "w": 1}], "params": [["r", "P:5"]],
         "py": {"k": "prim", "name": "R", "params": {"r": 5}}}
    inner["insts"] = [{"n": "r", "of": r, "conns": [["p", {"k": "sig", "n": "a"}], ["n", {"k": "sig", "n": "a"}]]}]
    d1 = {"bundles": [], "top": "Top", "modules": [inner, {"name": "Top", "sigs": [{"n": "bus", "w": 2, "port": True, "dir": "none"}], "bundles": [],
          "insts": [{"n": "i0", "of": {"k": "module", "name": "Inner"}, "conns": [["a", {"k": "slice", "p": {"k": "sig", "n": "bus"}, "i": {"i": 0}}]]},
                    {"n": "i1", "of": {"k": "module", "name": "Inner"}, "conns": [["a", {"k": "pref", "inst": "i0", "port": "a"}]]}]}]}
    d2 = {"bundles": [], "top": "Top", "modules": [in3, {"name": "Top", "sigs": [{"n": "x", "w": 1, "port": True, "dir": "none"}, {"n": "y", "w": 1, "port": True, "dir": "none"},
          {"n": "z", "w": 1, "port": True, "dir": "none"}], "bundles": [],
          "insts": [{"n": "i", "of": {"k": "module", "name": "In3"}, "conns": [["a", {"k": "concat", "ps": [{"k": "sig", "n": "x"}, {"k": "sig", "n": "y"}, {"k": "sig", "n": "z"}]}]]}]}]}
    # an internal bundle instance whose wide member is used only through slices / a concatenation of its reference
    lf = gen_design.leaf_sig
    bw = {"name": "BW", "tree": {"sigs": [lf("x", 4), lf("y", 1)], "subs": []}}
    bx = lambda i: {"k": "slice", "p": {"k": "bref", "root": "b", "path": ["x"]}, "i": i}
    d3 = {"bundles": [bw], "top": "Top", "modules": [{"name": "Top", "sigs": [{"n": "t", "w": 1, "port": True, "dir": "none"}], "bundles": [{"n": "b", "of": "BW", "port": False}],
          "insts": [{"n": "e1", "of": copy.deepcopy(gen_design.LEAVES[0]), "conns": [["a", bx({"s": 1, "e": 3, "st": None})], ["b", {"k": "bref", "root": "b", "path": ["y"]}]]},
                    {"n": "r1", "of": r, "conns": [["p", bx({"i": 0})], ["n", {"k": "sig", "n": "t"}]]},
                    {"n": "r2", "of": r, "conns": [["p", {"k": "slice", "p": {"k": "concat", "ps": [bx({"s": 2, "e": 4, "st": None})]}, "i": {"i": 0}}], ["n", bx({"i": 3})]]}]}]}
    # … and a member whose one and only use is a range slice of its reference
    d5 = {"bundles": [bw], "top": "Top", "modules": [{"name": "Top", "sigs": [], "bundles": [{"n": "b", "of": "BW", "port": False}],
          "insts": [{"n": "e1", "of": copy.deepcopy(gen_design.LEAVES[0]), "conns": [["a", bx({"s": 1, "e": 3, "st": None})], ["b", {"k": "bref", "root": "b", "path": ["y"]}]]}]}]}
    # an instance pair of a module that itself holds an instance pair (and is instantiated nowhere else)
    mid = {"name": "Mid", "sigs": [{"n": "a", "w": 1, "port": True, "dir": "none"}, {"n": "g", "w": 1, "port": True, "dir": "none"}], "bundles": [{"n": "dd", "of": "Diff", "port": False}],
           "insts": [{"n": "pr", "of": r, "pair": ["p", "n"], "conns": [["p", {"k": "bundle", "n": "dd"}], ["n", {"k": "sig", "n": "g"}]]},
                     {"n": "r0", "of": r, "conns": [["p", {"k": "sig", "n": "a"}], ["n", {"k": "bref", "root": "dd", "path": ["p"]}]]},
                     {"n": "r1", "of": r, "conns": [["p", {"k": "sig", "n": "a"}], ["n", {"k": "bref", "root": "dd", "path": ["n"]}]]}]}
    d4 = {"bundles": [copy.deepcopy(gen_design.DIFF)], "top": "Top", "modules": [mid, {"name": "Top", "sigs": [{"n": "v", "w": 1, "port": True, "dir": "none"}], "bundles": [{"n": "d", "of": "Diff", "port": False}],
          "insts": [{"n": "pm", "of": {"k": "module", "name": "Mid"}, "pair": ["p", "n"], "conns": [["a", {"k": "bundle", "n": "d"}], ["g", {"k": "sig", "n": "v"}]]}]}]}
    # a one-bit bus (the width-1 case of a parametric design) used whole and through every way of writing its only bit
    one = lambda i: {"k": "slice", "p": {"k": "sig", "n": "bus"}, "i": i}
    d6 = {"bundles": [], "top": "Top", "modules": [inner, {"name": "Top", "sigs": [{"n": "gnd", "w": 1, "port": True, "dir": "none"}, {"n": "bus", "w": 1, "port": False, "dir": "none"}], "bundles": [],
          "insts": [{"n": "r0", "of": r, "conns": [["p", one({"i": 0})], ["n", {"k": "sig", "n": "gnd"}]]},
                    {"n": "r1", "of": r, "conns": [["p", one({"i": -1})], ["n", {"k": "sig", "n": "gnd"}]]},
                    {"n": "r2", "of": r, "conns": [["p", one({"s": 0, "e": 1, "st": None})], ["n", {"k": "sig", "n": "gnd"}]]},
                    {"n": "r3", "of": r, "conns": [["p", one({"s": None, "e": None, "st": None})], ["n", {"k": "sig", "n": "gnd"}]]},
                    {"n": "w", "of": {"k": "module", "name": "Inner"}, "conns": [["a", {"k": "sig", "n": "bus"}]]}]}]}
    # concatenations of slices of ONE signal which together are as wide as the signal: a rotation, a reversal, a swap of halves
    # and the identity, side by side on one bus (a resolver that folds such a concatenation into the signal loses the permutation)
    bs = lambda i: {"k": "slice", "p": {"k": "sig", "n": "bus"}, "i": i}
    cat = lambda *ps: {"k": "concat", "ps": list(ps)}
    in4 = {"name": "In4", "sigs": [{"n": "a", "w": 4, "port": True, "dir": "none"}], "bundles": [],
           "insts": [{"n": "e", "of": {"k": "leaf", "kind": ".E4", "ports": [{"n": "q", "w": 4}], "params": [], "py": {"k": "ext", "name": "E4"}},
                      "conns": [["q", {"k": "sig", "n": "a"}]]}]}
    perms = [("same", cat(bs({"s": 0, "e": 2, "st": None}), bs({"s": 2, "e": 4, "st": None}))),
             ("rot", cat(bs({"s": 1, "e": 4, "st": None}), bs({"i": 0}))),
             ("rev", cat(bs({"i": 3}), bs({"i": 2}), bs({"i": 1}), bs({"i": 0}))),
             ("halves", cat(bs({"s": 2, "e": 4, "st": None}), bs({"s": 0, "e": 2, "st": None}))),
             ("swap01", cat(bs({"i": 1}), bs({"i": 0}), bs({"s": 2, "e": None, "st": None}))),
             ("whole", {"k": "sig", "n": "bus"})]
    d7 = {"bundles": [], "top": "Top", "modules": [in4, {"name": "Top", "sigs": [{"n": "bus", "w": 4, "port": True, "dir": "none"}], "bundles": [],
          "insts": [{"n": nm, "of": {"k": "module", "name": "In4"}, "conns": [["a", c]]} for nm, c in perms]}]}
    # a no-connect on a bundle-valued port: of a plain instance, and of every element of an instance array (named and unnamed)
    hb = {"name": "HB", "sigs": [], "bundles": [{"n": "bp", "of": "BW", "port": True}],
          "insts": [{"n": "e1", "of": copy.deepcopy(gen_design.LEAVES[0]), "conns": [["a", {"k": "slice", "p": {"k": "bref", "root": "bp", "path": ["x"]}, "i": {"s": 1, "e": 3, "st": None}}],
                                                                                      ["b", {"k": "bref", "root": "bp", "path": ["y"]}]]}]}
    d8 = {"bundles": [bw], "top": "Top", "modules": [hb, {"name": "Top", "sigs": [], "bundles": [],
          "insts": [{"n": "arr", "array": 3, "of": {"k": "module", "name": "HB"}, "conns": [["bp", {"k": "noconn"}]]},
                    {"n": "brr", "array": 2, "of": {"k": "module", "name": "HB"}, "conns": [["bp", {"k": "noconn", "name": "open"}]]},
                    {"n": "one", "of": {"k": "module", "name": "HB"}, "conns": [["bp", {"k": "noconn"}]]}]}]}
    # … the same with a nested bundle type (the unconnected members below a sub-bundle want their own nets as well), and a bundle whose
    # sub-bundles are called `tx` and `tx_aux` — one name a prefix of the other, the same members in both — referred to one at a time
    inner_t = {"sigs": [lf("p", 1), lf("n", 2)], "subs": []}
    link = {"name": "Link", "tree": {"sigs": [lf("ck", 1)], "subs": [{"n": "tx", "flip": False, "role": None, "of": inner_t},
                                                                      {"n": "tx_aux", "flip": False, "role": None, "of": inner_t}]}}
    pairb = {"name": "PairB", "tree": copy.deepcopy(inner_t)}
    E12 = {"k": "leaf", "kind": ".E12", "ports": [{"n": "a", "w": 1}, {"n": "b", "w": 2}], "params": [], "py": {"k": "ext", "name": "E12"}}
    hl = {"name": "HL", "sigs": [], "bundles": [{"n": "lp", "of": "Link", "port": True}],
          "insts": [{"n": "e1", "of": copy.deepcopy(E12), "conns": [["a", {"k": "bref", "root": "lp", "path": ["tx", "p"]}], ["b", {"k": "bref", "root": "lp", "path": ["tx", "n"]}]]},
                    {"n": "e2", "of": copy.deepcopy(E12), "conns": [["a", {"k": "bref", "root": "lp", "path": ["tx_aux", "p"]}], ["b", {"k": "bref", "root": "lp", "path": ["tx_aux", "n"]}]]},
                    {"n": "e3", "of": copy.deepcopy(E12), "conns": [["a", {"k": "bref", "root": "lp", "path": ["ck"]}], ["b", {"k": "bref", "root": "lp", "path": ["tx", "n"]}]]}]}
    hp = {"name": "HP", "sigs": [], "bundles": [{"n": "pp", "of": "PairB", "port": True}],
          "insts": [{"n": "e1", "of": copy.deepcopy(E12), "conns": [["a", {"k": "bref", "root": "pp", "path": ["p"]}], ["b", {"k": "bref", "root": "pp", "path": ["n"]}]]}]}
    d9 = {"bundles": [link, pairb], "top": "Top", "modules": [hl, hp, {"name": "Top", "sigs": [], "bundles": [{"n": "lk", "of": "Link", "port": False}],
          "insts": [{"n": "arr", "array": 3, "of": {"k": "module", "name": "HL"}, "conns": [["lp", {"k": "noconn"}]]},
                    {"n": "crr", "array": 2, "of": {"k": "module", "name": "HL"}, "conns": [["lp", {"k": "noconn", "name": "open"}]]},
                    {"n": "h0", "of": {"k": "module", "name": "HL"}, "conns": [["lp", {"k": "bundle", "n": "lk"}]]},
                    {"n": "t0", "of": {"k": "module", "name": "HP"}, "conns": [["pp", {"k": "bref", "root": "lk", "path": ["tx"]}]]},
                    {"n": "t1", "of": {"k": "module", "name": "HP"}, "conns": [["pp", {"k": "bref", "root": "lk", "path": ["tx_aux"]}]]}]}]}
    # a port on a bundle reference, referred to by other ports directly, through a slice and inside a concatenation
    E12b = copy.deepcopy(E12)
    d10 = {"bundles": [pairb], "top": "Top", "modules": [{"name": "Top", "sigs": [{"n": "g", "w": 1, "port": True, "dir": "none"}], "bundles": [{"n": "pb", "of": "PairB", "port": False}],
           "insts": [{"n": "i4", "of": copy.deepcopy(E12b), "conns": [["a", {"k": "bref", "root": "pb", "path": ["p"]}], ["b", {"k": "bref", "root": "pb", "path": ["n"]}]]},
                     {"n": "i5", "of": copy.deepcopy(E12b), "conns": [["a", {"k": "slice", "p": {"k": "pref", "inst": "i4", "port": "b"}, "i": {"s": 1, "e": 2, "st": None}}],
                                                                      ["b", {"k": "pref", "inst": "i4", "port": "b"}]]},
                     {"n": "i6", "of": copy.deepcopy(E12b), "conns": [["a", {"k": "pref", "inst": "i4", "port": "a"}],
                                                                      ["b", {"k": "concat", "ps": [{"k": "pref", "inst": "i4", "port": "a"}, {"k": "sig", "n": "g"}]}]]}]}]}
    # runs of bits taken out of strided slices of a bus (seed C01-r8-1: a resolver shortcut that forgets the stride keeps every width)
    ss = lambda inner, outer: {"k": "slice", "p": {"k": "slice", "p": {"k": "sig", "n": "bus"}, "i": inner}, "i": outer}
    d11 = {"bundles": [], "top": "Top", "modules": [{"name": "Top", "sigs": [{"n": "bus", "w": 8, "port": True, "dir": "none"}], "bundles": [],
           "insts": [{"n": "i0", "of": copy.deepcopy(E12), "conns": [["a", {"k": "slice", "p": {"k": "sig", "n": "bus"}, "i": {"i": 0}}],
                                                                     ["b", ss({"s": None, "e": None, "st": 2}, {"s": 1, "e": 3, "st": None})]]},
                     {"n": "i1", "of": copy.deepcopy(E12), "conns": [["a", ss({"s": None, "e": None, "st": 2}, {"i": -1})],
                                                                     ["b", ss({"s": 1, "e": None, "st": 3}, {"s": 0, "e": 2, "st": None})]]},
                     {"n": "i2", "of": copy.deepcopy(E12), "conns": [["a", ss({"s": 7, "e": None, "st": -2}, {"i": 1})],
                                                                     ["b", ss({"s": 7, "e": None, "st": -2}, {"s": 1, "e": 3, "st": None})]]}]}]}
    return [{"design": d11, "style": "proc"}, {"design": d11, "style": "class"}, {"design": d10, "style": "proc"}, {"design": d10, "style": "class"}, {"design": d9, "style": "proc"}, {"design": d9, "style": "class"}, {"design": d8, "style": "proc"}, {"design": d8, "style": "class"}, {"design": d7, "style": "proc"}, {"design": d7, "style": "class"}, {"design": d6, "style": "proc"}, {"design": d6, "style": "gen"},
            {"design": d1, "style": "proc"}, {"design": d2, "style": "proc"}, {"design": d3, "style": "proc"}, {"design": d3, "style": "class"},
            {"design": d4, "style": "proc"}, {"design": d4, "style": "gen"}, {"design": d5, "style": "proc"}, {"design": d5, "style": "class"}]


def judge(case, im, mo):
    src = mo["src"]
    if "build_error" in im:
        yield ("corr", f"harness could not build the design: {im['build_error']}")
        return
    if "error" in src:
        return  # ill-formed by the model: C02's business
    if "reject" in im:
        yield ("corr", f"well-formed design rejected: {im['reject'][-200:]}")
        return
    if mo["pkg"] != src:
        yield ("pred", {"why": "the package's nets differ from the nets the designer's connections induce",
                        "src": src, "pkg": mo["pkg"]})
    if designs.sorted_devs(mo["src_devices"]) != designs.sorted_devs(mo["pkg_devices"]):
        yield ("pred", {"why": "leaf devices / parameters differ", "src": mo["src_devices"], "pkg": mo["pkg_devices"]})
    if "spice" in im:
        if "ok" in mo["pkg"] and im["spice"] != mo["pkg"]["ok"]:
            yield ("oracle", {"why": "the netlist text reads differently from Sem.pkg (netlister reading mis-modelled?)",
                              "spice": im["spice"], "pkg": mo["pkg"]})
    elif "spice_error" in im and "physical `hdl21.Primitive`" not in im["spice_error"] and "Conflicting ExternalModule" not in im["spice_error"]:
        # (vlsirtools refuses to netlist *physical* generic primitives by design: compile to a PDK first)
        yield ("corr", f"spice netlisting failed: {im['spice_error']}")



# ------------------------------------------------------------------------------------------ fragment F2 (PortRefs.lean)

def gen_f2_valid(rng):
    """mostly valid: ports partitioned into groups; each group a tree / chain / cycle of references, with at most one declared signal"""
    nsig = rng.randint(1, 3)
    insts = [rng.choice([2, 2, 4]) for _ in range(rng.randint(2, 6))]
    ports = [(i, p) for i, n in enumerate(insts) for p in range(n)]
    order = ports[:]
    rng.shuffle(order)
    conns, ncid = [], 0
    k = 0
    while k < len(order):
        size = min(len(order) - k, rng.choice([1, 1, 2, 3, 4]))
        grp = order[k:k + size]
        k += size
        if size == 1:
            if rng.random() < 0.25:
                ncid += 1
                conns.append([list(grp[0]), {"nc": ncid}])
            else:
                conns.append([list(grp[0]), {"sig": rng.randrange(nsig)}])
            continue
        root = grp[0]
        for j, x in enumerate(grp[1:], start=1):
            conns.append([list(x), {"pref": list(rng.choice(grp[:j]))}])   # a tree hanging from the root
        r = rng.random()
        if r < 0.5:
            conns.append([list(root), {"sig": rng.randrange(nsig)}])
        elif r < 0.65:
            conns.append([list(root), {"pref": list(rng.choice(grp[1:]))}])    # a cycle, no declared signal
        elif r < 0.75 and size > 2:
            conns.append([list(grp[-1]), {"sig": rng.randrange(nsig)}]) if False else None
    conns = [c for c in conns if c is not None]
    rng.shuffle(conns)
    return {"nsig": nsig, "insts": insts, "ports": [list(x) for x in ports], "conns": conns}


def gen_f2(rng):
    """One module of 2-6 two-/four-terminal leaves whose ports are wired to scalar signals, to one another's ports, to no-connects, or
    left to the references made to them."""
    nsig = rng.randint(1, 3)
    insts = [rng.choice([2, 2, 4]) for _ in range(rng.randint(2, 6))]
    ports = [(i, p) for i, n in enumerate(insts) for p in range(n)]
    conns = []
    ncid = 0
    for (i, p) in ports:
        r = rng.random()
        if r < 0.38:
            conns.append([[i, p], {"sig": rng.randrange(nsig)}])
        elif r < 0.75:
            q = rng.choice([x for x in ports if x != (i, p)])
            conns.append([[i, p], {"pref": list(q)}])
        elif r < 0.85:
            ncid += 1
            conns.append([[i, p], {"nc": ncid}])
    return {"nsig": nsig, "insts": insts, "ports": [list(x) for x in ports], "conns": conns}


PNAMES = {2: ["p", "n"], 4: ["d", "g", "s", "b"]}


def impl_f2(case):
    m = h.Module(name="F2")
    sigs = [m.add(h.Signal(name=f"s{k}")) for k in range(case["nsig"])]
    insts = []
    for i, n in enumerate(case["insts"]):
        of = h.R(r=1) if n == 2 else h.ExternalModule(name="Q4", port_list=[h.Port(name=x) for x in PNAMES[4]], paramtype=h.HasNoParams)()
        insts.append(m.add(h.Instance(of=of), name=f"i{i}"))
    for (i, p), c in case["conns"]:
        pn = PNAMES[case["insts"][i]][p]
        if "sig" in c:
            v = sigs[c["sig"]]
        elif "pref" in c:
            j, q = c["pref"]
            v = getattr(insts[j], PNAMES[case["insts"][j]][q])
        else:
            v = h.NoConn()
        insts[i].connect(pn, v)
    try:
        pkg = h.to_proto(m)
    except Exception as ex:  # noqa
        return {"reject": common.errstr(ex)}
    pm = pkg.modules[-1]
    out = {}
    for inst in pm.instances:
        i = int(inst.name[1:])
        for c in inst.connections:
            out[f"{i},{PNAMES[case['insts'][i]].index(c.portname)}"] = c.target.sig
    return {"net": out}


# ------------------------------------------------------------- F2, continued: references inside slices / concatenations

F2C_PORTS = [("a", 2), ("b", 1), ("c", 3)]


def gen_f2c(rng):
    """instances of one external module; some ports on declared signals, some only referenced; one more instance whose ports
    are connected to compounds (slices / concatenations) that contain references"""
    ninst = rng.randint(2, 4)
    plain = {}
    for i in range(ninst):
        for p, w in F2C_PORTS:
            r = rng.random()
            plain[f"i{i}.{p}"] = {"k": "sig", "n": f"s{i}{p}", "w": w} if r < 0.5 else None  # None: only referenced -> implicit signal
    def atom(w):
        """a connectable of width w over declared signals and references (references as pseudo-signals '&inst.port')"""
        r = rng.random()
        cands = [(k, pw) for k in plain for (pn, pw) in F2C_PORTS if k.endswith("." + pn)]
        if r < 0.45:
            k, pw = rng.choice([c for c in cands if c[1] >= w])
            ref = {"k": "sig", "n": "&" + k, "w": pw}
            if pw == w and rng.random() < 0.5:
                return ref
            a = rng.randint(0, pw - w)
            return {"k": "slice", "p": ref, "i": {"i": a} if w == 1 and rng.random() < 0.5 else {"s": a, "e": a + w, "st": None}}
        if r < 0.7:
            a = rng.randint(0, 4 - w)
            return {"k": "slice", "p": {"k": "sig", "n": "big", "w": 4}, "i": {"s": a, "e": a + w, "st": None}} if w < 4 else {"k": "sig", "n": "big", "w": 4}
        if w >= 2:
            k = rng.randint(1, w - 1)
            return {"k": "concat", "ps": [atom(k), atom(w - k)]}
        return {"k": "sig", "n": "one", "w": 1}
    tconns = []
    for p, w in F2C_PORTS:
        c = atom(w)
        if rng.random() < 0.3:
            c = {"k": "slice", "p": {"k": "concat", "ps": [c, atom(1)]}, "i": {"s": 0, "e": w, "st": None}}
        tconns.append([p, c])
    used = {r for _, c in tconns for r in refs_in(c)}
    for k in plain:
        if plain[k] is None and k not in used:  # neither connected nor referenced would be ill-formed
            pw = next(w for p, w in F2C_PORTS if k.endswith("." + p))
            plain[k] = {"k": "sig", "n": "s" + k.replace(".", "").replace("i", "", 1), "w": pw}
    return {"ninst": ninst, "plain": plain, "tconns": tconns}


def refs_in(c):
    if c["k"] == "sig":
        return [c["n"][1:]] if c["n"].startswith("&") else []
    if c["k"] == "slice":
        return refs_in(c["p"])
    return [r for p in c["ps"] for r in refs_in(p)]


def pybits(c):
    if isinstance(c, h.Signal):
        return [(c.name, i) for i in range(c.width)]
    if isinstance(c, h.Slice):
        b = pybits(c.parent)
        return [b[c.index]] if isinstance(c.index, int) else b[c.index]
    if isinstance(c, h.Concat):
        return [x for p in c.parts for x in pybits(p)]
    raise TypeError(type(c).__name__)


def impl_f2c(case):
    E = h.ExternalModule(name="Ef2c", port_list=[h.Port(name=p, width=w) for p, w in F2C_PORTS], paramtype=h.HasNoParams)
    m = h.Module(name="F2cTop")
    m.add(h.Signal(name="big", width=4)); m.add(h.Signal(name="one", width=1))
    insts = {}
    for i in range(case["ninst"]):
        insts[f"i{i}"] = m.add(h.Instance(of=E(), name=f"i{i}"))
    for k, c in case["plain"].items():
        if c is not None:
            iname, p = k.split(".")
            insts[iname].connect(p, m.add(h.Signal(name=c["n"], width=c["w"])))
    t = m.add(h.Instance(of=E(), name="t"))

    def mk(c):
        if c["k"] == "sig":
            if c["n"].startswith("&"):
                iname, p = c["n"][1:].split(".")
                return getattr(insts[iname], p)
            return m.get(c["n"])
        if c["k"] == "slice":
            i = c["i"]
            return mk(c["p"])[i["i"]] if "i" in i else mk(c["p"])[i["s"]:i["e"]]
        return h.Concat(*[mk(p) for p in c["ps"]])

    for p, c in case["tconns"]:
        t.connect(p, mk(c))
    try:
        h.elaborate(m)
    except Exception as ex:  # noqa
        return {"reject": common.errstr(ex)}
    rho = {}
    for k in case["plain"]:
        iname, p = k.split(".")
        conn = insts[iname].conns.get(p)
        if isinstance(conn, h.Signal):
            rho["&" + k] = conn.name
    return {"rho": rho, "bits": {p: [[n, i] for n, i in pybits(t.conns[p])] for p, _ in F2C_PORTS},
            "signals": sorted(m.signals)}



def line_f2c(case, im=None):
    return None


def judge_f2c(case, im, mos):
    if "reject" in im:
        yield ("corr", f"a connection with references inside slices / concatenations was refused: {im['reject'][-200:]}")
        return
    for (p, c), mo in zip(case["tconns"], mos):
        want = mo["bits"].get("ok")
        got = im["bits"][p]
        if want is None:
            yield ("corr", f"t.{p}: the model refuses the written connection: {mo['bits']}")
        elif got != [[n, i] for n, i in want]:
            yield ("pred", {"why": f"t.{p}: the elaborated connection is not the written one with each reference replaced by the signal it resolved to",
                            "written": c, "rho": {k: v for k, v in im["rho"].items() if k[1:] in refs_in(c)}, "got": got, "want": want})
    # every referenced port sits on the signal the references were replaced by (whole-port F2), and that is a signal of the module
    for k, v in im["rho"].items():
        if v not in im["signals"]:
            yield ("pred", f"{k} resolved to {v}, which is not a signal of the module")


class F2cStream(common.Stream):
    def run(self, ctx, cases):
        rep = ctx.rep
        cases = list(cases)
        impls = common.pmap(impl_f2c, cases, chunk=self.chunk)
        lines, where = [], []
        for ci, (c, im) in enumerate(zip(cases, impls)):
            if "rho" in im:
                for pi, (p, conn) in enumerate(c["tconns"]):
                    lines.append({"prop": "F2", "op": "rename", "conn": conn, "rho": [[k, v] for k, v in im["rho"].items()]})
                    where.append(ci)
        outs = ctx.drv.run(lines)
        models = [[] for _ in cases]
        for ci, o in zip(where, outs):
            models[ci].append(o)
        for c, im, mo in zip(cases, impls, models):
            rep.count(self.name, json.dumps(c), nontrivial=any(refs_in(cc) for _, cc in c["tconns"]))
            for v in judge_f2c(c, im, mo) or []:
                rep.fail(v[0], {"stream": self.name, "case": c}, {"detail": v[1], "impl": im})
        rep.sample({"stream": self.name, "case": cases[0], "impl": impls[0], "model": models[0]})


SF2C = F2cStream("f2_compound", impl_f2c, line_f2c, judge_f2c, chunk=8)


# ------------------------------------------------------------- the instance-bundle pass against its model (InstBundle.lean)

IB_PORTS = ["p", "n", "g"]


def gen_ib(rng):
    ms = rng.sample(["x", "y", "z"], rng.randint(1, 3))
    nports = rng.randint(1, 3)
    conns = []
    for p in IB_PORTS[:nports]:
        r = rng.random()
        if r < 0.3:
            conns.append([p, {"k": "bundle", "ty": rng.choice(["B", "B", "B", "Other"]), "n": rng.choice(["b1", "b2"])}])
        elif r < 0.6:
            names = list(ms)
            if rng.random() < 0.15:
                names.append("extra")
            if rng.random() < 0.12 and len(names) > 1:
                names.pop(rng.randrange(len(names)))
            rng.shuffle(names)
            conns.append([p, {"k": "anon", "fields": [[nm, {"k": "sig", "n": f"a_{p}_{nm}", "w": 1}] for nm in names]}])
        elif r < 0.85:
            conns.append([p, {"k": "scalar", "c": {"k": "sig", "n": rng.choice(["s1", "s2"]), "w": 1}}])
        else:
            conns.append([p, {"k": "noconn"}])
    return {"members": ms, "nports": nports, "conns": conns, "nested": rng.random() < 0.05}


def impl_ib(case):
    ms = case["members"]
    B = h.Bundle(name="B")
    for nm in ms:
        B.add(h.Signal(name=nm))
    if case["nested"]:
        sub = h.Bundle(name="Sub")
        sub.add(h.Signal(name="q"))
        B.add(sub(), name="sub")
    O = h.Bundle(name="Other")
    for nm in ms:
        O.add(h.Signal(name=nm))
    E = h.ExternalModule(name="Eib", port_list=[h.Port(name=p) for p in IB_PORTS[: case["nports"]]], paramtype=h.HasNoParams)
    m = h.Module(name="IbTop")
    m.add(B(), name="b1")
    m.add(O(), name="b2" + "o")
    m.add(B(), name="b2")
    m.add(h.Signal(name="s1")); m.add(h.Signal(name="s2"))
    IBT = h.InstanceBundleType(name="IBT", bundle=B)
    kw = {}
    for p, c in case["conns"]:
        if c["k"] == "bundle":
            kw[p] = m.get(c["n"]) if c["ty"] == "B" else m.get("b2o")
        elif c["k"] == "anon":
            kw[p] = h.AnonymousBundle(**{nm: m.add(h.Signal(name=sc["n"])) if m.get(sc["n"]) is None else m.get(sc["n"]) for nm, sc in c["fields"]})
        elif c["k"] == "scalar":
            kw[p] = m.get(c["c"]["n"])
        else:
            kw[p] = h.NoConn()
    m.add(IBT(E())(**kw), name="ib")
    try:
        h.elaborate(m)
    except Exception as ex:  # noqa
        return {"raise": common.errstr(ex)[-200:]}
    out = {}
    for nm in ms:
        inst = m.instances.get(f"ib_{nm}")
        out[nm] = None if inst is None else [[p, getattr(c, "name", type(c).__name__)] for p, c in inst.conns.items()]
    return {"ok": out, "instances": sorted(m.instances), "signals": sorted(m.signals)}


def line_ib(case):
    return {"prop": "IB", "op": "expand", "ty": "B", "nested": case["nested"], "members": case["members"], "conns": case["conns"]}


def judge_ib(case, im, mo):
    if "error" in mo:
        if "ok" in im:
            yield ("pred", f"an instance bundle the pass must refuse ({mo['error']}) was elaborated: {im['ok']}")
        return
    if "raise" in im:
        yield ("corr", f"a well-formed instance bundle was refused: {im['raise']}")
        return
    if im["instances"] != sorted(f"ib_{nm}" for nm in case["members"]):
        yield ("pred", f"instances {im['instances']} for members {case['members']}")
        return
    private = []
    for nm, es in mo["ok"]:
        got = dict(map(tuple, im["ok"][nm]))
        if list(got) != [p for p, _ in es]:
            yield ("pred", f"member {nm}: ports {list(got)} vs {[p for p, _ in es]}")
            return
        for p, e in es:
            if e == "noconn":
                private.append(got[p])
                want = None
            elif "member" in e:
                want = f"{e['member'][0]}_{e['member'][1]}"
            else:
                want = e["conn"]["n"]
            if want is not None and got[p] != want:
                yield ("pred", f"member {nm} port {p}: on {got[p]}, the model says {want}")
                return
    used = [v for es in im["ok"].values() for _, v in es]
    for s in private:
        if used.count(s) != 1:
            yield ("pred", f"the no-connected port's net {s} is shared: {im['ok']}")
            return


SIB = common.Stream("instbundle", impl_ib, line_ib, judge_ib, chunk=16)


# ---- the array pass against ArrayPass.lean (theorems array_expansion / array_pass_accepts_iff / array_parts_partition) ----

def gen_ap(rng):
    n = rng.choice([1, 2, 2, 3, 3, 4, 5]) if rng.random() < 0.94 else rng.choice([0, -1])
    nn = max(n, 0)
    ports = [[f"p{i}", rng.choice([1, 1, 2, 3])] for i in range(rng.randint(1, 3))]
    if rng.random() < 0.3:
        ports.append(["bp", None])

    def atom(w, depth=0):
        r = rng.random()
        if r < 0.4 or w == 0 or depth > 2:
            return {"k": "sig", "n": f"s{w}", "w": w}
        if r < 0.7:
            extra = rng.randint(1, 3)
            a = rng.randint(0, extra)
            return {"k": "slice", "p": {"k": "sig", "n": f"s{w + extra}", "w": w + extra},
                    "i": {"i": a} if w == 1 and rng.random() < 0.5 else {"s": a, "e": a + w, "st": None}}
        if w >= 2:
            k = rng.randint(1, w - 1)
            return {"k": "concat", "ps": [atom(k, depth + 1), atom(w - k, depth + 1)]}
        return {"k": "sig", "n": f"s{w}", "w": w}

    conns = []
    for pn, w in ports:
        if rng.random() < 0.1:
            continue
        r = rng.random()
        if w is None:
            conns.append([pn, {"k": "bundle", "n": "b1"} if r < 0.8 else {"k": "sig", "c": atom(1)}])
        elif r < 0.42:
            conns.append([pn, {"k": "sig", "c": atom(w)}])
        elif r < 0.84:
            conns.append([pn, {"k": "sig", "c": atom(w * nn if nn else w)}])
        elif r < 0.91:
            cw = rng.choice([x for x in range(1, 2 + w * max(nn, 1) + 1) if x not in (w, w * nn)])
            conns.append([pn, {"k": "sig", "c": atom(cw)}])
        elif r < 0.94:
            conns.append([pn, {"k": "portref"}])
        elif r < 0.97:
            conns.append([pn, {"k": "other"}])
        else:
            conns.append([pn, {"k": "bundle", "n": "b1"}])  # a bundle instance on a scalar port: this pass does not look
    if rng.random() < 0.05:
        conns.append(["zz", {"k": "sig", "c": atom(1)}])
    extra = [nm for nm in ("arr_0", "arr_1", "arr_0_", "arr_2", "arr_1_") if rng.random() < 0.18]
    return {"n": n, "ports": ports, "conns": conns, "ns": extra}


def sigs_in(c, acc):
    if c["k"] == "sig":
        acc[c["n"]] = c["w"]
    elif c["k"] == "slice":
        sigs_in(c["p"], acc)
    else:
        for q in c["ps"]:
            sigs_in(q, acc)
    return acc


def impl_ap(case):
    from hdl21.elab.passes import ArrayFlattener
    B = h.Bundle(name="Bap")
    B.add(h.Signal(name="x"))
    T = h.Module(name="Tap")
    for pn, w in case["ports"]:
        if w is None:
            T.add(B(port=True), name=pn)
        else:
            T.add(h.Port(name=pn, width=w))
    other = h.ExternalModule(name="Oap", port_list=[h.Port(name="q")], paramtype=h.HasNoParams)
    m = h.Module(name="ApTop")
    m.add(B(), name="b1")
    oi = m.add(h.Instance(of=other(), name="oi"))
    need = {}
    for _, c in case["conns"]:
        if c["k"] == "sig":
            sigs_in(c["c"], need)
    for nm, w in need.items():
        m.add(h.Signal(name=nm, width=w))
    for nm in case["ns"]:
        m.add(h.Signal(name=nm))

    def mk(c):
        if c["k"] == "sig":
            return m.get(c["n"])
        if c["k"] == "slice":
            i = c["i"]
            return mk(c["p"])[i["i"]] if "i" in i else mk(c["p"])[i["s"]:i["e"]]
        return h.Concat(*[mk(q) for q in c["ps"]])

    kw = {}
    try:
        for pn, c in case["conns"]:
            kw[pn] = {"sig": lambda: mk(c["c"]), "bundle": lambda: m.get(c.get("n")), "portref": lambda: oi.q,
                      "other": lambda: h.AnonymousBundle(x=m.get("b1").x)}[c["k"]]()
        m.add(case["n"] * T(**kw), name="arr")
    except Exception as ex:  # noqa
        return {"construct": common.errstr(ex)[-200:]}
    before = list(m.namespace)
    try:
        ArrayFlattener.elaborate([m])
    except Exception as ex:  # noqa
        return {"raise": common.errstr(ex)[-200:], "type": type(ex).__name__}
    elems = []
    for nm, inst in m.instances.items():
        if nm == "oi":
            continue
        row = []
        for pn, c in inst.conns.items():
            if isinstance(c, (h.Signal, h.Slice, h.Concat)):
                row.append([pn, [[a, b] for a, b in pybits(c)]])
            else:
                row.append([pn, {"obj": type(c).__name__, "name": getattr(c, "name", None)}])
        elems.append([nm, inst.name, row])
    return {"ok": elems, "arrays": list(m.instarrays), "namespace": sorted(m.namespace), "before": sorted(before)}


def line_ap(case):
    return {"prop": "AP", "op": "expand", "array": "arr", "n": max(case["n"], 0), "ports": case["ports"], "conns": case["conns"],
            "ns": ["b1", "oi"] + sorted(sigs_in_all(case)) + case["ns"]}


def sigs_in_all(case):
    need = {}
    for _, c in case["conns"]:
        if c["k"] == "sig":
            sigs_in(c["c"], need)
    return need


def judge_ap(case, im, mo):
    if "construct" in im:
        yield ("corr", f"the array could not be written: {im['construct']}")
        return
    if "error" in mo:
        if "ok" in im:
            yield ("pred", f"an array the pass must refuse ({mo['error']}) was flattened: {im['ok']}")
        return
    if "raise" in im:
        yield ("corr", f"a well-formed array was refused: {im['raise']}")
        return
    if im["arrays"]:
        yield ("pred", f"arrays left after the pass: {im['arrays']}")
        return
    names = [e[0] for e in im["ok"]]
    if names != mo["names"] or any(e[0] != e[1] for e in im["ok"]):
        yield ("pred", f"element instances {[(e[0], e[1]) for e in im['ok']]}, the model says {mo['names']}")
        return
    if sorted(set(im["before"]) - {"arr"} | set(names)) != im["namespace"]:
        yield ("pred", f"namespace after the pass {im['namespace']}; before {im['before']}, elements {names}")
        return
    for k, ((nm, _, row), es) in enumerate(zip(im["ok"], mo["ok"])):
        if [p for p, _ in row] != [p for p, _, _ in es]:
            yield ("pred", f"element {k}: ports {[p for p, _ in row]}, the array has {[p for p, _, _ in es]}")
            return
        for (p, got), (_, e, bits) in zip(row, es):
            if "bundle" in e:
                if got != {"obj": "BundleInstance", "name": e["bundle"]}:
                    yield ("pred", f"element {k} port {p}: {got} instead of bundle instance {e['bundle']}")
                    return
            elif bits is None or got != bits:
                yield ("pred", {"why": f"element {k} ({nm}) port {p}: bits differ from the model's {'part' if 'part' in e else 'whole'}", "impl": got, "model": bits})
                return


SAP = common.Stream("arraypass", impl_ap, line_ap, judge_ap, chunk=16)


def judge_f2(case, im, mo):
    res = mo["res"]
    ports = [tuple(x) for x in case["ports"]]
    if any(v is None for v in res):
        if "reject" not in im:
            yield ("corr", {"why": "the model's pass raises, the implementation returned a package", "model": res, "impl": im.get("net")})
        return
    if "reject" in im:
        yield ("corr", f"the model resolves every port, the implementation raised: {im['reject'][-200:]}")
        return
    net = im["net"]
    got = [net.get(f"{i},{p}") for (i, p) in ports]
    if any(g is None for g in got):
        yield ("pred", {"why": "a port is left without a connection", "net": net})
        return
    for a in range(len(ports)):
        if (res[a] < case["nsig"]) != (got[a] == f"s{res[a]}" if res[a] < case["nsig"] else False) and res[a] < case["nsig"]:
            yield ("pred", {"why": f"port {ports[a]} is wired to declared signal s{res[a]} but exported on {got[a]}"})
        if res[a] >= case["nsig"] and got[a] in [f"s{k}" for k in range(case["nsig"])]:
            yield ("pred", {"why": f"port {ports[a]} is wired to no declared signal but exported on {got[a]}"})
        for b in range(a + 1, len(ports)):
            if (res[a] == res[b]) != (got[a] == got[b]):
                yield ("pred", {"why": f"ports {ports[a]} and {ports[b]}: joined by the designer's connections = {res[a] == res[b]}, on one exported signal = {got[a] == got[b]}",
                                "model": res, "impl": got})
                return



# ------------------------------------------------------------------------------------------------ BundleFlattener's re-connection
def _bc_tree(rng, depth, names):
    """a bundle definition tree: leaves with widths, sub-bundles (plain, as far as connections care)"""
    names = list(names)
    rng.shuffle(names)
    nsig = rng.randint(0 if depth > 0 else 1, 2)
    sigs = [{"n": names[i], "w": rng.randint(1, 3), "port": False, "dir": "none", "src": None, "dest": None} for i in range(nsig)]
    subs = []
    if depth > 0:
        for j in range(rng.randint(0 if nsig else 1, 2)):
            subs.append({"n": names[nsig + j], "flip": rng.random() < 0.3, "role": None, "of": _bc_tree(rng, depth - 1, names)})
    return {"sigs": sigs, "subs": subs}


def _bc_leaves(t, pre=()):
    out = [(pre + (s["n"],), s["w"]) for s in t["sigs"]]
    for sub in t["subs"]:
        out += _bc_leaves(sub["of"], pre + (sub["n"],))
    return out


def _bc_nodes(t, pre=()):
    """the paths of the sub-bundles of a type, at every depth"""
    out = []
    for sub in t["subs"]:
        out.append(pre + (sub["n"],))
        out += _bc_nodes(sub["of"], pre + (sub["n"],))
    return out


def gen_bc(rng):
    """The port's bundle type `T`; the parent's bundle instances: `b0` of type T, `b1` of a type that holds a T as sub-bundle `inner`
    (next to other members); signals; and what is written onto the port: b0, a reference to b1.inner, or an anonymous bundle built
    member by member (scalars, slices, references to leaves, bundle instances of a sub-bundle's type, references to sub-bundles,
    nested anonymous bundles), fields in any order — sometimes with a member left out or a whole bundle where a signal is needed."""
    while True:
        T = _bc_tree(rng, rng.choice([0, 1, 1, 2]), rng.choice([["x", "y", "z", "u", "v"], ["x", "x_y", "x_", "y", "y_x"], ["tx", "tx_aux", "tx_", "aux", "t"]]))
        joined = ["_".join(pth) for pth, _ in _bc_leaves(T)] + ["_".join(pth) for pth in _bc_nodes(T)]
        if len(set(joined)) == len(joined):
            break  # (two paths that join to one name — two leaves, or a leaf and a sub-bundle, whose instance `s_<path>` stands next to the
            #          flattened members — get a name invented for them: C05's business, not this stream's; a leaf `tx.aux` next to a
            #          sub-bundle `tx_aux` slipped through until a thorough run drew it)
    wrap = {"sigs": [{"n": "k", "w": 1, "port": False, "dir": "none", "src": None, "dest": None}],
            "subs": [{"n": "inner", "flip": rng.random() < 0.5, "role": None, "of": T}]}
    subtypes = {}   # a bundle instance per sub-bundle type of T, for use as a member

    def member(t, path, depth):
        """a BConn for the whole of tree `t` (which sits at `path` of T)"""
        r = rng.random()
        if r < 0.25:
            return {"k": "ref", "root": "b0", "path": list(path)} if path else {"k": "inst", "n": "b0"}
        if r < 0.45:
            return {"k": "ref", "root": "b1", "path": ["inner"] + list(path)}
        if r < 0.6 and path:
            nm = "s_" + "_".join(path)
            subtypes[nm] = t
            return {"k": "inst", "n": nm}
        fields = []
        for sg in t["sigs"]:
            rr = rng.random()
            if rr < 0.4:
                c = {"k": "scalar", "c": {"k": "sig", "n": f"w{sg['w']}", "w": sg["w"]}}
            elif rr < 0.6:
                c = {"k": "scalar", "c": {"k": "slice", "p": {"k": "sig", "n": "bus", "w": 8}, "i": {"s": 1, "e": 1 + sg["w"], "st": None}}}
            elif rr < 0.8:
                c = {"k": "ref", "root": "b0", "path": list(path) + [sg["n"]]}
            else:
                c = {"k": "ref", "root": "b1", "path": ["inner"] + list(path) + [sg["n"]]}
            fields.append([sg["n"], c])
        for sub in t["subs"]:
            fields.append([sub["n"], member(sub["of"], tuple(path) + (sub["n"],), depth + 1)])
        rng.shuffle(fields)
        return {"k": "anon", "fields": fields}

    conn = member(T, (), 0)
    fault = None
    if conn["k"] == "anon" and conn["fields"] and rng.random() < 0.2:
        fault = "missing"
        conn["fields"].pop(rng.randrange(len(conn["fields"])))
    return {"T": T, "wrap": wrap, "subtypes": subtypes, "conn": conn, "fault": fault}


def impl_bc(case):
    import itertools
    import hdl21.elab as elab
    c10 = __import__("props.c10", fromlist=["x"])
    cnt = itertools.count()

    def mkdef(tree, name):
        b = h.Bundle(name=f"{name}{next(cnt)}")
        for sg in tree["sigs"]:
            setattr(b, sg["n"], h.Signal(width=sg["w"]))
        for sub in tree["subs"]:
            setattr(b, sub["n"], mkdef(sub["of"], name + "_" + sub["n"])(flipped=sub["flip"]))
        return b

    try:
        T = mkdef(case["T"], "T")
        W = h.Bundle(name="W")
        W.k = h.Signal()
        W.inner = T(flipped=case["wrap"]["subs"][0]["flip"])
        inner = h.Module(name="BcInner")
        inner.p = T(port=True)
        top = h.Module(name="BcTop")
        top.b0 = T()
        top.b1 = W()
        for nm, t in case["subtypes"].items():
            # an instance of a type of the very shape of the sub-bundle it stands for (its own definition object)
            top.add(mkdef(t, "S")(), name=nm)
        top.bus = h.Signal(width=8)
        for w in (1, 2, 3):
            top.add(h.Signal(width=w), name=f"w{w}")

        def mk(c):
            if c["k"] == "inst":
                return top.get(c["n"])
            if c["k"] == "ref":
                r = top.get(c["root"])
                for seg in c["path"]:
                    r = getattr(r, seg)
                return r
            if c["k"] == "scalar":
                sc = c["c"]
                if sc["k"] == "sig":
                    return top.get(sc["n"])
                i = sc["i"]
                return top.get(sc["p"]["n"])[i["s"]:i["e"]]
            return h.AnonymousBundle(**{f: mk(v) for f, v in c["fields"]})

        top.i = inner(p=mk(case["conn"]))
    except Exception as ex:  # noqa
        return {"construct": common.errstr(ex)[-200:]}
    try:
        default = elab.Elaborator.default().passes
        upto = next(k for k, p in enumerate(default) if p.__name__ == "BundleFlattener") + 1
        elab.Elaborator(passes=default[:upto]).elaborate(top)
    except Exception as ex:  # noqa
        return {"raise": common.errstr(ex)[-200:], "type": type(ex).__name__}
    row = []
    for pn, c in top.instances["i"].conns.items():
        if isinstance(c, (h.Signal, h.Slice, h.Concat)):
            row.append([pn, [[a, b] for a, b in pybits(c)]])
        else:
            row.append([pn, {"obj": type(c).__name__}])
    return {"ok": row}


def line_bc(case):
    env = [["b0", case["T"]], ["b1", case["wrap"]]] + [[nm, t] for nm, t in case["subtypes"].items()]
    return {"prop": "BC", "op": "reconnect", "env": env, "port": "p", "tree": case["T"], "conn": case["conn"]}


def judge_bc(case, im, mo):
    if "construct" in im:
        yield ("corr", f"the connection could not be written: {im['construct']}")
        return
    if "error" in mo:
        if "ok" in im:
            yield ("pred", f"a bundle connection the pass must refuse ({mo['error']}) was made: {im['ok']}")
        return
    if "raise" in im:
        yield ("corr", f"a well-formed bundle connection was refused: {im['raise']}")
        return
    got = {p: b for p, b in im["ok"]}
    want = {p: b for p, b in mo["ok"]}
    if sorted(got) != sorted(want):
        yield ("pred", f"flattened ports connected: {sorted(got)}, the port's type has {sorted(want)}")
        return
    for p in want:
        if got[p] != want[p]:
            yield ("pred", {"why": f"flattened port {p} is not on the member of its path", "impl": got[p], "model": want[p]})
            return
    if [p for p, _ in im["ok"]] != [p for p, _ in mo["ok"]]:
        yield ("corr", "the flattened ports are connected in another order than the port's leaf order")


SBC = common.Stream("bundleconn", impl_bc, line_bc, judge_bc, chunk=16)

def run(ctx):
    # the default pass list composed on one module, then exported (ModulePipe.lean; module_connections_preserved)
    import modpipe
    modpipe.run(ctx)
    rep = ctx.rep
    rep.extra["rule"] = (
        "type-directed random hierarchical designs (1-4 modules, shared sub-modules, buses, nested slices/concats, port-reference "
        "chains/fans/cycles, no-connects, bundle ports/refs/anonymous bundles, arrays, pairs; Primitive and ExternalModule leaves) in "
        "3 construction styles; non-trivial = well-formed by the model and exported; distinct = distinct design JSON"
    )
    n = 240 if ctx.quick else 5000
    cases = corpus() + designs.gen_cases(ctx.rng, n)
    stats = {"well_formed": 0, "ill_formed": 0, "exported": 0, "valid_rejected": 0, "construct_counts": {}}
    for c, im, mo in designs.run_designs(ctx, cases):
        wf = "ok" in mo["src"]
        stats["well_formed" if wf else "ill_formed"] += 1
        if "pkg" in im:
            stats["exported"] += 1
        rep.count("designs", json.dumps(c["design"]), nontrivial=wf and "pkg" in im)
        js = json.dumps(c["design"])
        for k in ("pref", "noconn", "slice", "concat", "anon", "bref", '"bundle"', "array", "pair"):
            if k in js:
                stats["construct_counts"][k] = stats["construct_counts"].get(k, 0) + 1
        for v in judge(c, im, mo):
            if v[0] == "corr" and "rejected" in str(v[1]):
                stats["valid_rejected"] += 1
            rep.fail(v[0], {"stream": "designs", "case": c}, {"detail": v[1], "impl_top": im.get("top"), "reject": im.get("reject")})
    # failing-input search: when the tie to the code is broken somewhere, look harder for a design whose nets differ
    if (rep.corr_disagreements or rep.proof_broken) and not any(f["kind"] == "pred" for f in rep.failures):
        import time, random
        t0, extra, found = time.time(), 0, False
        budget = 60 if ctx.quick else 600
        seed = ctx.seed
        while time.time() - t0 < budget and not found:
            seed += 1000
            more = designs.gen_cases(random.Random(seed), 300)
            for c, im, mo in designs.run_designs(ctx, more):
                extra += 1
                for v in judge(c, im, mo):
                    if v[0] == "pred":
                        rep.fail("pred", {"stream": "designs", "case": c}, {"detail": v[1], "found_by": "failing-input search"})
                        found = True
                if found:
                    break
        rep.extra["failing_input_search"] = {"designs": extra, "found": found, "seconds": round(time.time() - t0, 1)}
    # fragment F2: the model of ResolvePortRefs itself (PortRefs.lean), on modules of scalar ports
    f2cases = [(gen_f2 if k % 3 == 0 else gen_f2_valid)(ctx.rng) for k in range(300 if ctx.quick else 6000)]
    f2impl = common.pmap(impl_f2, f2cases, chunk=16)
    f2model = ctx.drv.run([{"prop": "F2", "op": "portrefs", "ports": c["ports"], "conns": c["conns"], "nsig": c["nsig"]} for c in f2cases])
    f2stats = {"resolved": 0, "refused": 0}
    for c, im, mo in zip(f2cases, f2impl, f2model):
        f2stats["resolved" if "net" in im else "refused"] += 1
        rep.count("f2", json.dumps(c), nontrivial="net" in im)
        for v in judge_f2(c, im, mo):
            rep.fail(v[0], {"stream": "f2", "case": c}, {"detail": v[1], "reject": im.get("reject")})
    rep.extra["f2_stats"] = f2stats
    # F2, continued: references inside slices and concatenations (`SConn.rename`, theorem references_inside_compounds)
    SF2C.run(ctx, [gen_f2c(ctx.rng) for _ in range(200 if ctx.quick else 4000)])
    # the instance-bundle pass against InstBundle.lean (theorem instbundle_expansion)
    SIB.run(ctx, [gen_ib(ctx.rng) for _ in range(300 if ctx.quick else 6000)])
    # the array pass alone against ArrayPass.lean (theorems array_expansion / array_pass_accepts_iff / array_parts_partition)
    SAP.run(ctx, [gen_ap(ctx.rng) for _ in range(300 if ctx.quick else 6000)])
    # BundleFlattener's re-connection of bundle-valued ports against BundleConn.lean (bundle_connection_pairs_by_path, …_memberwise, …_refusals)
    SBC.run(ctx, [gen_bc(ctx.rng) for _ in range(300 if ctx.quick else 6000)])
    rep.extra["design_stats"] = stats
    rep.sample({"design": cases[2]["design"], "style": cases[2]["style"]})


def replay(ctx, rp):
    case = rp["case"]["case"]
    if rp["case"].get("stream") == "f2_compound":
        return common.replay_by_rerun(ctx, rp, lambda c: SF2C.run(c, [case]))
    if rp["case"].get("stream") == "f2":
        (im,) = common.pmap(impl_f2, [case], chunk=1)
        (mo,) = ctx.drv.run([{"prop": "F2", "op": "portrefs", "ports": case["ports"], "conns": case["conns"], "nsig": case["nsig"]}])
        fails = list(judge_f2(case, im, mo))
        print(json.dumps({"failures": fails, "model": mo, "impl": im}, default=str)[:3000])
        if any(f[0] == "pred" for f in fails):
            print(f"VIOLATION property=C01 replay={rp.get('_path')}")
            return 1
        return 1 if fails else 0
    (c, im, mo), = designs.run_designs(ctx, [case])
    fails = list(judge(c, im, mo))
    print(json.dumps({"failures": fails, "src": mo["src"], "pkg": mo.get("pkg")}, default=str)[:3000])
    if any(f[0] in ("pred", "oracle") for f in fails):
        print(f"VIOLATION property=C01 replay={rp.get('_path')}")
        return 1
    return 1 if fails else 0
