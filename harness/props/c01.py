"""C01 — elaboration and export preserve the connectivity the designer wrote.

Generated hierarchical designs over every construct of the property's quantifier, built procedurally, class-style and
inside generators, exported with h.to_proto and netlisted with h.netlist.  For each design:
  Sem.src(design)   — the declarative meaning (Lean, Design.lean; no reference to any pass)
  Sem.pkg(package)  — the package as the VLSIR netlisters read it (Lean, Pkg.lean)
  spice partition   — read from the netlist text alone (Python, observe.spice_partition)
must coincide, together with the leaf devices and their parameters.
"""
import json

import common
import designs

ASSUMPTIONS = [
    "a design the code rejects although Sem.src accepts it is not a violation of C01 (it constrains returned packages); it is "
    "reported as a broken correspondence unless it is one of the documented limitations in designs.known_limitation",
    "instance arrays connected to no-connects are not generated (whether the elements' nets are private is ambiguous)",
    "element instances are identified by the documented names arr_k / pair_m (designer names are friendly here; adversarial names are C05's)",
]
TRUSTED = ["harness/build.py (IR -> hdl21 objects)", "observe.pkg_json / observe.spice_partition"]


def corpus():
    """The pinned tree's witnesses."""
    inner = {"name": "Inner", "sigs": [{"n": "a", "w": 1, "port": True, "dir": "none"}], "bundles": [], "insts": []}
    in3 = {"name": "In3", "sigs": [{"n": "a", "w": 3, "port": True, "dir": "none"}], "bundles": [],
           "insts": [{"n": "e", "of": {"k": "leaf", "kind": ".E3", "ports": [{"n": "q", "w": 3}], "params": [], "py": {"k": "ext", "name": "E3"}},
                      "conns": [["q", {"k": "sig", "n": "a"}]]}]}
    r = {"k": "leaf", "kind": "vlsir.primitives.resistor", "ports": [{"n": "p", "w": 1}, {"n": "n", "w": 1}], "params": [["r", "P:5"]],
         "py": {"k": "prim", "name": "R", "params": {"r": 5}}}
    inner["insts"] = [{"n": "r", "of": r, "conns": [["p", {"k": "sig", "n": "a"}], ["n", {"k": "sig", "n": "a"}]]}]
    d1 = {"bundles": [], "top": "Top", "modules": [inner, {"name": "Top", "sigs": [{"n": "bus", "w": 2, "port": True, "dir": "none"}], "bundles": [],
          "insts": [{"n": "i0", "of": {"k": "module", "name": "Inner"}, "conns": [["a", {"k": "slice", "p": {"k": "sig", "n": "bus"}, "i": {"i": 0}}]]},
                    {"n": "i1", "of": {"k": "module", "name": "Inner"}, "conns": [["a", {"k": "pref", "inst": "i0", "port": "a"}]]}]}]}
    d2 = {"bundles": [], "top": "Top", "modules": [in3, {"name": "Top", "sigs": [{"n": "x", "w": 1, "port": True, "dir": "none"}, {"n": "y", "w": 1, "port": True, "dir": "none"},
          {"n": "z", "w": 1, "port": True, "dir": "none"}], "bundles": [],
          "insts": [{"n": "i", "of": {"k": "module", "name": "In3"}, "conns": [["a", {"k": "concat", "ps": [{"k": "sig", "n": "x"}, {"k": "sig", "n": "y"}, {"k": "sig", "n": "z"}]}]]}]}]}
    return [{"design": d1, "style": "proc"}, {"design": d2, "style": "proc"}]


def judge(case, im, mo):
    src = mo["src"]
    if "build_error" in im:
        yield ("corr", f"harness could not build the design: {im['build_error']}")
        return
    if "error" in src:
        return  # ill-formed by the model: C02's business
    if "reject" in im:
        yield ("corr", f"well-formed design rejected: {im['reject'][-200:]}")
        return
    if mo["pkg"] != src:
        yield ("pred", {"why": "the package's nets differ from the nets the designer's connections induce",
                        "src": src, "pkg": mo["pkg"]})
    if designs.sorted_devs(mo["src_devices"]) != designs.sorted_devs(mo["pkg_devices"]):
        yield ("pred", {"why": "leaf devices / parameters differ", "src": mo["src_devices"], "pkg": mo["pkg_devices"]})
    if "spice" in im:
        if "ok" in mo["pkg"] and im["spice"] != mo["pkg"]["ok"]:
            yield ("oracle", {"why": "the netlist text reads differently from Sem.pkg (netlister reading mis-modelled?)",
                              "spice": im["spice"], "pkg": mo["pkg"]})
    elif "spice_error" in im and "physical `hdl21.Primitive`" not in im["spice_error"] and "Conflicting ExternalModule" not in im["spice_error"]:
        # (vlsirtools refuses to netlist *physical* generic primitives by design: compile to a PDK first)
        yield ("corr", f"spice netlisting failed: {im['spice_error']}")


def run(ctx):
    rep = ctx.rep
    rep.extra["rule"] = (
        "type-directed random hierarchical designs (1-4 modules, shared sub-modules, buses, nested slices/concats, port-reference "
        "chains/fans/cycles, no-connects, bundle ports/refs/anonymous bundles, arrays, pairs; Primitive and ExternalModule leaves) in "
        "3 construction styles; non-trivial = well-formed by the model and exported; distinct = distinct design JSON"
    )
    n = 240 if ctx.quick else 5000
    cases = corpus() + designs.gen_cases(ctx.rng, n)
    stats = {"well_formed": 0, "ill_formed": 0, "exported": 0, "valid_rejected": 0, "construct_counts": {}}
    for c, im, mo in designs.run_designs(ctx, cases):
        wf = "ok" in mo["src"]
        stats["well_formed" if wf else "ill_formed"] += 1
        if "pkg" in im:
            stats["exported"] += 1
        rep.count("designs", json.dumps(c["design"]), nontrivial=wf and "pkg" in im)
        js = json.dumps(c["design"])
        for k in ("pref", "noconn", "slice", "concat", "anon", "bref", '"bundle"', "array", "pair"):
            if k in js:
                stats["construct_counts"][k] = stats["construct_counts"].get(k, 0) + 1
        for v in judge(c, im, mo):
            if v[0] == "corr" and "rejected" in str(v[1]):
                stats["valid_rejected"] += 1
            rep.fail(v[0], {"stream": "designs", "case": c}, {"detail": v[1], "impl_top": im.get("top"), "reject": im.get("reject")})
    # failing-input search: when the tie to the code is broken somewhere, look harder for a design whose nets differ
    if (rep.corr_disagreements or rep.proof_broken) and not any(f["kind"] == "pred" for f in rep.failures):
        import time, random
        t0, extra, found = time.time(), 0, False
        budget = 60 if ctx.quick else 600
        seed = ctx.seed
        while time.time() - t0 < budget and not found:
            seed += 1000
            more = designs.gen_cases(random.Random(seed), 300)
            for c, im, mo in designs.run_designs(ctx, more):
                extra += 1
                for v in judge(c, im, mo):
                    if v[0] == "pred":
                        rep.fail("pred", {"stream": "designs", "case": c}, {"detail": v[1], "found_by": "failing-input search"})
                        found = True
                if found:
                    break
        rep.extra["failing_input_search"] = {"designs": extra, "found": found, "seconds": round(time.time() - t0, 1)}
    rep.extra["design_stats"] = stats
    rep.sample({"design": cases[2]["design"], "style": cases[2]["style"]})


def replay(ctx, rp):
    case = rp["case"]["case"]
    (c, im, mo), = designs.run_designs(ctx, [case])
    fails = list(judge(c, im, mo))
    print(json.dumps({"failures": fails, "src": mo["src"], "pkg": mo.get("pkg")}, default=str)[:3000])
    if any(f[0] in ("pred", "oracle") for f in fails):
        print(f"VIOLATION property=C01 replay={rp.get('_path')}")
        return 1
    return 1 if fails else 0
