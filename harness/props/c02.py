"""C02 — ill-formed designs never yield a package or a netlist.

Single-fault mutation: every valid generated design x every fault class x every site where the class can be planted
(top or deep; scalar, bus, slice, concat, reference, bundle, anonymous bundle, array, pair). A mutant the Lean
`Sem.src` declares ill-formed must make elaborate / to_proto / netlist raise; it must never return a package.
"""
import copy
import io
import json

import common
import designs
import build

h = common.repo_env()

ASSUMPTIONS = [
    "a mutant is ill-formed iff the declarative model Sem.src (Design.lean) rejects it; mutants the model accepts are not judged here",
    "fault classes: width mismatch (direct / anonymous-bundle member / reference / array), missing connection, extra connection, "
    "reference to a non-existent port or bundle member, out-of-range or empty index, signal owned by another module or by none, "
    "no-connect referenced elsewhere, circular instantiation, unnamed module, clashing module names",
    "clashing module names must make to_proto and netlist raise (the duplicate-name check is the exporter's); elaborate() alone, which "
    "returns modules and no package, is not required to notice them",
]
TRUSTED = ["harness/build.py"]


def conn_sites(c, path=()):
    """All sub-connectables of a connection, with the path to reach them."""
    yield path, c
    if c["k"] == "slice":
        yield from conn_sites(c["p"], path + ("p",))
    elif c["k"] == "concat":
        for i, p in enumerate(c["ps"]):
            yield from conn_sites(p, path + ("ps", i))
    elif c["k"] == "anon":
        for i, (f, v) in enumerate(c["fields"]):
            yield from conn_sites(v, path + ("fields", i, 1))


def at(c, path):
    for k in path:
        c = c[k]
    return c


def set_at(root, path, val):
    if not path:
        return val
    c = root
    for k in path[:-1]:
        c = c[k]
    c[path[-1]] = val
    return root


def mutants(design, rng, per_class=3):
    """(class, site description, mutated design) — a few sites per class, chosen from all sites."""
    out = []
    sites = []  # (module index, inst index, conn index, path)
    for mi, m in enumerate(design["modules"]):
        for ii, inst in enumerate(m["insts"]):
            for ci, (port, c) in enumerate(inst["conns"]):
                for path, sub in conn_sites(c):
                    sites.append((mi, ii, ci, path, sub["k"]))

    def pick(pred, k=per_class):
        cands = [s for s in sites if pred(s)]
        rng.shuffle(cands)
        return cands[:k]

    def mutate(cls, site, fn):
        d = copy.deepcopy(design)
        mi, ii, ci, path, _ = site
        inst = d["modules"][mi]["insts"][ii]
        res = fn(d, d["modules"][mi], inst, ci, path)
        if res is not False:
            out.append({"class": cls, "site": f"{d['modules'][mi]['name']}.{inst['n']}.{inst['conns'][ci][0] if ci < len(inst['conns']) else '?'}:{'/'.join(map(str, path))}", "design": d})

    # 1. width mismatch: widen a signal leaf by concatenating an extra bit / replace by a wider new signal
    def widen(d, m, inst, ci, path):
        c = inst["conns"][ci][1]
        sub = at(c, path)
        m["sigs"].append({"n": "zz_extra", "w": 1, "port": False, "dir": "none"})
        new = {"k": "concat", "ps": [sub, {"k": "sig", "n": "zz_extra"}]}
        inst["conns"][ci][1] = set_at(c, list(path), new)
    for s in pick(lambda s: s[4] in ("sig", "slice", "concat", "pref", "bref")):
        mutate("width_mismatch", s, widen)
    # 2. missing connection
    def drop(d, m, inst, ci, path):
        del inst["conns"][ci]
    for s in pick(lambda s: s[3] == ()):
        mutate("missing_connection", s, drop)
    # 3. extra connection
    def extra(d, m, inst, ci, path):
        m["sigs"].append({"n": "zz_extra", "w": 1, "port": False, "dir": "none"})
        inst["conns"].append(["no_such_port", {"k": "sig", "n": "zz_extra"}])
    for s in pick(lambda s: s[3] == (), 2):
        mutate("extra_connection", s, extra)
    # 4. reference to a non-existent port / bundle member
    def badref(d, m, inst, ci, path):
        c = inst["conns"][ci][1]
        sub = at(c, path)
        if sub["k"] == "pref":
            new = dict(sub, port="no_such_port")
        elif sub["k"] == "bref":
            new = dict(sub, path=sub["path"] + ["nope"])
        else:
            return False
        inst["conns"][ci][1] = set_at(c, list(path), new)
    for s in pick(lambda s: s[4] in ("pref", "bref")):
        mutate("bad_reference", s, badref)
    def badmember(d, m, inst, ci, path):
        c = inst["conns"][ci][1]
        sub = at(c, path)
        if sub["k"] != "anon" or not sub["fields"]:
            return False
        new = copy.deepcopy(sub)
        if rng.random() < 0.5:
            new["fields"][0][0] = "no_such_member"
        else:
            del new["fields"][0]
        inst["conns"][ci][1] = set_at(c, list(path), new)
    for s in pick(lambda s: s[4] == "anon"):
        mutate("bad_member", s, badmember)
    def extramember(d, m, inst, ci, path):
        c = inst["conns"][ci][1]
        sub = at(c, path)
        if sub["k"] != "anon":
            return False
        new = copy.deepcopy(sub)
        m["sigs"].append({"n": "zz_extra", "w": 1, "port": False, "dir": "none"})
        new["fields"].append(["zz_no_such_member", {"k": "sig", "n": "zz_extra"}])
        inst["conns"][ci][1] = set_at(c, list(path), new)
    for s in pick(lambda s: s[4] == "anon"):
        mutate("extra_member", s, extramember)
    # 5. out-of-range / empty index
    def badindex(d, m, inst, ci, path):
        c = inst["conns"][ci][1]
        sub = at(c, path)
        if sub["k"] != "slice":
            return False
        new = copy.deepcopy(sub)
        pw = next((x["w"] for x in m["sigs"] if x["n"] == new["p"].get("n")), None) if new["p"]["k"] == "sig" else None
        if "i" in new["i"]:
            # far out, or (when the parent's width is at hand) the first index out on either side
            new["i"] = {"i": rng.choice([97, -98] if pw is None else [pw, -pw - 1, pw, 97])}
        else:
            new["i"] = rng.choice([{"s": 2, "e": 2, "st": None}, {"s": 90, "e": 95, "st": None}, {"s": None, "e": None, "st": 0}])
        inst["conns"][ci][1] = set_at(c, list(path), new)
    for s in pick(lambda s: s[4] == "slice"):
        mutate("bad_index", s, badindex)
    # 6. orphan signal
    def orphan(d, m, inst, ci, path):
        c = inst["conns"][ci][1]
        sub = at(c, path)
        if sub["k"] != "sig":
            return False
        w = next(s["w"] for s in m["sigs"] if s["n"] == sub["n"])
        # … or owned by, and connected inside, a module of this very design that is elaborated earlier
        mi_here = next(k for k, mm in enumerate(d["modules"]) if mm is m)
        donors = [(mm["name"], pc[1]["n"]) for mm in d["modules"][:mi_here] for i2 in mm["insts"] for pc in i2["conns"]
                  if pc[1]["k"] == "sig" and next(s2["w"] for s2 in mm["sigs"] if s2["n"] == pc[1]["n"]) == w]
        if donors and rng.random() < 0.5:
            frm, sg = rng.choice(donors)
            inst["conns"][ci][1] = set_at(c, list(path), {"k": "orphan", "w": w, "owner": "module", "from": frm, "sig": sg})
            return
        if rng.random() < 0.35:
            # connected to the module's own signal, which is then replaced by another signal of the same name and kind
            inst["conns"][ci][1] = set_at(c, list(path), {"k": "orphan", "w": w, "owner": "replaced", "n": sub["n"]})
            return
        inst["conns"][ci][1] = set_at(c, list(path), {"k": "orphan", "w": w, "owner": rng.choice(["none", "other"])})
    for s in pick(lambda s: s[4] == "sig"):
        mutate("orphan", s, orphan)
    # 7. a no-connect that is referenced elsewhere
    def ncref(d, m, inst, ci, path):
        port, c = inst["conns"][ci]
        if c["k"] != "noconn" or "array" in inst or "pair" in inst:
            return False
        # make another single instance port of the module refer to this port
        for other in m["insts"]:
            if other is inst or "array" in other or "pair" in other:
                continue
            for oc in other["conns"]:
                if oc[1]["k"] == "sig":
                    wsig = next(s["w"] for s in m["sigs"] if s["n"] == oc[1]["n"])
                    if wsig == port_width(d, inst, port):
                        oc[1] = {"k": "pref", "inst": inst["n"], "port": port}
                        return True
        return False
    for s in pick(lambda s: s[4] == "noconn" and s[3] == ()):
        mutate("noconn_referenced", s, ncref)
    # 8. circular instantiation, 9. unnamed / clashing names (module-level, no conn site)
    if design["modules"]:
        d = copy.deepcopy(design)
        m = d["modules"][rng.randrange(len(d["modules"]))]
        m["insts"].append({"n": "zz_self", "of": {"k": "module", "name": m["name"]}, "conns": [[s["n"], {"k": "sig", "n": s["n"]}] for s in m["sigs"] if s["port"]]})
        out.append({"class": "circular", "site": m["name"], "design": d, "style": "proc"})
        d = copy.deepcopy(design)
        m = d["modules"][rng.randrange(len(d["modules"]))]
        m["label"] = None
        out.append({"class": "unnamed_module", "site": m["name"], "design": d, "style": "proc"})
        if len(design["modules"]) > 1:
            d = copy.deepcopy(design)
            a, b = rng.sample(range(len(d["modules"])), 2)
            d["modules"][a]["label"] = d["modules"][b]["name"]
            out.append({"class": "name_clash", "site": d["modules"][a]["name"], "design": d, "style": "proc"})
    return out


def port_width(d, inst, port):
    of = inst["of"]
    if of["k"] == "leaf":
        return next(p["w"] for p in of["ports"] if p["n"] == port)
    m = next(x for x in d["modules"] if x["name"] == of["name"])
    return next((s["w"] for s in m["sigs"] if s["n"] == port), None)


def corpus():
    """Pinned-tree witnesses: width mismatch inside an anonymous bundle; array with a missing connection; out-of-range slice."""
    lf = lambda n, w: {"n": n, "w": w, "port": False, "dir": "none", "src": None, "dest": None, "kind": "plain"}
    two = {"name": "Two", "sigs": [{"n": "a", "w": 1, "port": True, "dir": "none"}, {"n": "b", "w": 1, "port": True, "dir": "none"}], "bundles": [], "insts": []}
    r = {"k": "leaf", "kind": "vlsir.primitives.resistor", "ports": [{"n": "p", "w": 1}, {"n": "n", "w": 1}], "params": [["r", "P:5"]], "py": {"k": "prim", "name": "R", "params": {"r": 5}}}
    two["insts"] = [{"n": "r", "of": r, "conns": [["p", {"k": "sig", "n": "a"}], ["n", {"k": "sig", "n": "b"}]]}]
    d1 = {"bundles": [], "top": "Top", "modules": [two, {"name": "Top", "sigs": [{"n": "s", "w": 1, "port": True, "dir": "none"}], "bundles": [],
          "insts": [{"n": "arr", "array": 2, "of": {"k": "module", "name": "Two"}, "conns": [["a", {"k": "sig", "n": "s"}]]}]}]}
    bdef = {"name": "B", "tree": {"sigs": [lf("x", 2)], "subs": []}}
    hasb = {"name": "HasB", "sigs": [], "bundles": [{"n": "bp", "of": "B", "port": True}],
            "insts": [{"n": "e", "of": {"k": "leaf", "kind": ".E9", "ports": [{"n": "q", "w": 2}], "params": [], "py": {"k": "ext", "name": "E9"}},
                       "conns": [["q", {"k": "bref", "root": "bp", "path": ["x"]}]]}]}
    d2 = {"bundles": [bdef], "top": "Top", "modules": [hasb, {"name": "Top", "sigs": [{"n": "s3", "w": 3, "port": True, "dir": "none"}], "bundles": [],
          "insts": [{"n": "i", "of": {"k": "module", "name": "HasB"}, "conns": [["bp", {"k": "anon", "fields": [["x", {"k": "sig", "n": "s3"}]]}]]}]}]}
    d3 = {"bundles": [], "top": "Top", "modules": [two, {"name": "Top", "sigs": [{"n": "s", "w": 4, "port": True, "dir": "none"}], "bundles": [],
          "insts": [{"n": "i", "of": {"k": "module", "name": "Two"}, "conns": [["a", {"k": "slice", "p": {"k": "sig", "n": "s"}, "i": {"s": 4, "e": 5, "st": None}}], ["b", {"k": "slice", "p": {"k": "sig", "n": "s"}, "i": {"i": 0}}]]}]}]}
    d4 = copy.deepcopy(d3)
    d4["modules"][1]["insts"][0]["conns"][0][1]["i"] = {"i": 4}  # the first integer index out of range
    # an extra connection given last, on an instance array / a pair / a plain instance of the top module
    import gen_design as _gd
    extras = []
    for kindkey, extra in (("array", {"array": 2}), ("pair", {"pair": ["p", "n"]}), ("plain", {})):
        R = copy.deepcopy(_gd.LEAVES[3])
        sigs = [{"n": "a", "w": 1, "port": True, "dir": "none"}, {"n": "b", "w": 1, "port": False, "dir": "none"}, {"n": "zz", "w": 1, "port": False, "dir": "none"}]
        bundles = [{"n": "d1", "of": "Diff", "port": False}, {"n": "d2", "of": "Diff", "port": False}] if kindkey == "pair" else []
        good = [["p", {"k": "bundle", "n": "d1"}], ["n", {"k": "bundle", "n": "d2"}]] if kindkey == "pair" else [["p", {"k": "sig", "n": "a"}], ["n", {"k": "sig", "n": "b"}]]
        inst = dict({"n": "x1", "of": R, "conns": good + [["no_such_port", {"k": "sig", "n": "zz"}]]}, **extra)
        extras.append({"class": "extra_connection", "site": f"corpus:last-on-{kindkey}",
                       "design": {"bundles": [_gd.DIFF] if kindkey == "pair" else [], "modules": [{"name": "Top", "sigs": sigs, "bundles": bundles, "insts": [inst]}], "top": "Top"}})
    # an extra connection called what a member of a bundle-valued port is called once flattened (`bp_x`), next to the connection of that port:
    # on an instance array the first ConnTypes pass does not look, and the re-connection of the flattened port must not overwrite it unnoticed
    bx = {"name": "BX", "tree": {"sigs": [lf("x", 1)], "subs": []}}
    hasbx = {"name": "HasBX", "sigs": [], "bundles": [{"n": "bp", "of": "BX", "port": True}],
             "insts": [{"n": "r", "of": copy.deepcopy(_gd.LEAVES[3]), "conns": [["p", {"k": "bref", "root": "bp", "path": ["x"]}], ["n", {"k": "bref", "root": "bp", "path": ["x"]}]]}]}
    for kindkey, extra in (("array", {"array": 2}), ("plain", {})):
        for first in (True, False):
            cs = [["bp", {"k": "bundle", "n": "ob"}], ["bp_x", {"k": "sig", "n": "zz"}]]
            inst = dict({"n": "x1", "of": {"k": "module", "name": "HasBX"}, "conns": cs if first else cs[::-1]}, **extra)
            extras.append({"class": "extra_connection", "site": f"corpus:named-like-a-flattened-member-on-{kindkey}-{'after' if first else 'before'}",
                           "design": {"bundles": [bx], "modules": [copy.deepcopy(hasbx), {"name": "Top", "sigs": [{"n": "zz", "w": 1, "port": False, "dir": "none"}],
                                      "bundles": [{"n": "ob", "of": "BX", "port": False}], "insts": [inst]}], "top": "Top"}})
    # an empty range hidden in a concatenation whose other part makes the total come out at the port's width: reversed bounds
    # (a width formula without `max(0, …)` makes them -1, -2, -3 wide) and equal bounds (0 wide)
    hidden = []
    E2 = {"k": "leaf", "kind": ".E92", "ports": [{"n": "q", "w": 2}], "params": [], "py": {"k": "ext", "name": "E92"}}
    for (s_, e_, st, tw) in ((3, 1, None, 4), (2, 1, None, 3), (3, 0, None, 5), (2, 2, None, 2), (0, 2, -1, 4), (1, 3, -1, 4), (None, 0, None, 2), (4, None, None, 2)):
        part = {"k": "slice", "p": {"k": "sig", "n": "s"}, "i": {"s": s_, "e": e_, "st": st}}
        for order in (0, 1):
            ps = [part, {"k": "sig", "n": "t"}][::-1 if order else 1]
            mid = {"name": "Mid", "sigs": [{"n": "s", "w": 4, "port": False, "dir": "none"}, {"n": "t", "w": tw, "port": False, "dir": "none"}], "bundles": [],
                   "insts": [{"n": "e", "of": copy.deepcopy(E2), "conns": [["q", {"k": "concat", "ps": ps}]]}]}
            top = {"name": "Top", "sigs": [], "bundles": [], "insts": [{"n": "m", "of": {"k": "module", "name": "Mid"}, "conns": []}]}
            hidden.append({"class": "bad_index", "site": f"corpus:empty-range-in-concat[{s_}:{e_}:{st}]", "design": {"bundles": [], "modules": [mid, top], "top": "Top"}})
    # a no-connected port whose bare reference is a member of an anonymous bundle given to another instance
    b1 = {"name": "B1", "tree": {"sigs": [lf("x", 1), lf("y", 1)], "subs": []}}
    hasb1 = {"name": "HasB1", "sigs": [], "bundles": [{"n": "bp", "of": "B1", "port": True}],
             "insts": [{"n": "r", "of": copy.deepcopy(r), "conns": [["p", {"k": "bref", "root": "bp", "path": ["x"]}], ["n", {"k": "bref", "root": "bp", "path": ["y"]}]]}]}
    ncanon = {"bundles": [b1], "top": "Top", "modules": [two, hasb1, {"name": "Top", "sigs": [{"n": "s", "w": 1, "port": True, "dir": "none"}], "bundles": [],
              "insts": [{"n": "i1", "of": {"k": "module", "name": "Two"}, "conns": [["a", {"k": "noconn"}], ["b", {"k": "sig", "n": "s"}]]},
                        {"n": "i2", "of": {"k": "module", "name": "HasB1"}, "conns": [["bp", {"k": "anon", "fields": [["x", {"k": "pref", "inst": "i1", "port": "a"}], ["y", {"k": "sig", "n": "s"}]]}]]}]}]}
    # an instance pair connected to a bundle instance of another type which has the pair's members and one more
    tri = {"name": "Tri", "tree": {"sigs": [lf("p", 1), lf("n", 1), lf("cm", 1)], "subs": []}}
    pairtri = {"bundles": [copy.deepcopy(_gd.DIFF), tri], "top": "Top", "modules": [{"name": "Top", "sigs": [{"n": "g", "w": 1, "port": True, "dir": "none"}],
               "bundles": [{"n": "t3", "of": "Tri", "port": False}],
               "insts": [{"n": "pr", "of": copy.deepcopy(_gd.LEAVES[3]), "pair": ["p", "n"], "conns": [["p", {"k": "bundle", "n": "t3"}], ["n", {"k": "sig", "n": "g"}]]}]}]}
    # an anonymous bundle whose member is a bundle *instance* of another type than the port's member: it brings a member of its own
    diff = {"sigs": [lf("p", 1), lf("n", 1)], "subs": []}
    bsub = {"name": "BS", "tree": {"sigs": [lf("c", 1)], "subs": [{"n": "d", "flip": False, "role": None, "of": diff}]}}
    diff3 = {"name": "Diff3", "tree": {"sigs": [lf("p", 1), lf("n", 1), lf("z", 1)], "subs": []}}
    hasbs = {"name": "HasBS", "sigs": [], "bundles": [{"n": "bp", "of": "BS", "port": True}],
             "insts": [{"n": "r1", "of": copy.deepcopy(r), "conns": [["p", {"k": "bref", "root": "bp", "path": ["d", "p"]}], ["n", {"k": "bref", "root": "bp", "path": ["d", "n"]}]]},
                       {"n": "r2", "of": copy.deepcopy(r), "conns": [["p", {"k": "bref", "root": "bp", "path": ["c"]}], ["n", {"k": "bref", "root": "bp", "path": ["c"]}]]}]}
    anoninst = {"bundles": [bsub, diff3], "top": "Top", "modules": [hasbs, {"name": "Top", "sigs": [{"n": "cs", "w": 1, "port": True, "dir": "none"}],
                "bundles": [{"n": "d3", "of": "Diff3", "port": False}],
                "insts": [{"n": "i", "of": {"k": "module", "name": "HasBS"}, "conns": [["bp", {"k": "anon", "fields": [["d", {"k": "bundle", "n": "d3"}], ["c", {"k": "sig", "n": "cs"}]]}]]}]}]}
    # a member the port's bundle does not have, listed after / before / inside a nested anonymous bundle
    extra_after = []
    sgl = lambda n: {"n": n, "w": 1, "port": False, "dir": "none"}
    for where in ("after", "before", "inside"):
        inner_f = [["p", {"k": "sig", "n": "s1"}], ["n", {"k": "sig", "n": "s2"}]] + ([["zz", {"k": "sig", "n": "s4"}]] if where == "inside" else [])
        fields = [["d", {"k": "anon", "fields": inner_f}], ["c", {"k": "sig", "n": "s3"}]]
        if where == "after":
            fields = fields + [["zz", {"k": "sig", "n": "s4"}]]
        if where == "before":
            fields = [["zz", {"k": "sig", "n": "s4"}]] + fields
        dd = {"bundles": [bsub], "top": "Top", "modules": [copy.deepcopy(hasbs), {"name": "Top", "sigs": [sgl("s1"), sgl("s2"), sgl("s3"), sgl("s4")], "bundles": [],
              "insts": [{"n": "i", "of": {"k": "module", "name": "HasBS"}, "conns": [["bp", {"k": "anon", "fields": fields}]]}]}]}
        extra_after.append({"class": "bad_member", "site": f"corpus:extra-member-{where}-nested-anonymous-bundle", "design": dd})
        # the same on an instance array: the first ConnTypes pass does not look at arrays, so nothing but the flattener sees this
        da = copy.deepcopy(dd)
        da["modules"][1]["insts"][0]["array"] = 2
        extra_after.append({"class": "bad_member", "site": f"corpus:extra-member-{where}-nested-anonymous-bundle-on-array", "design": da})
    # an anonymous bundle whose member is a *reference* to a sub-bundle of another type, which has one member more than the port's
    s1 = {"sigs": [lf("x", 1)], "subs": []}
    s2 = {"sigs": [lf("x", 1), lf("extra", 1)], "subs": []}
    bpt = {"name": "BpT", "tree": {"sigs": [lf("y", 1)], "subs": [{"n": "sub", "flip": False, "role": None, "of": s1}]}}
    b2t = {"name": "B2T", "tree": {"sigs": [lf("y", 1)], "subs": [{"n": "sub", "flip": False, "role": None, "of": s2}]}}
    hasbpt = {"name": "HasBpT", "sigs": [], "bundles": [{"n": "bp", "of": "BpT", "port": True}],
              "insts": [{"n": "r1", "of": copy.deepcopy(r), "conns": [["p", {"k": "bref", "root": "bp", "path": ["sub", "x"]}], ["n", {"k": "bref", "root": "bp", "path": ["y"]}]]}]}
    for arr in (False, True):
        inst = {"n": "i", "of": {"k": "module", "name": "HasBpT"}, "conns": [["bp", {"k": "anon", "fields": [["sub", {"k": "bref", "root": "b2", "path": ["sub"]}], ["y", {"k": "bref", "root": "b2", "path": ["y"]}]]}]]}
        if arr:
            inst["array"] = 2
        dr = {"bundles": [bpt, b2t], "top": "Top", "modules": [copy.deepcopy(hasbpt), {"name": "Top", "sigs": [], "bundles": [{"n": "b2", "of": "B2T", "port": False}], "insts": [inst]}]}
        extra_after.append({"class": "bad_member", "site": "corpus:reference-to-wider-sub-bundle-in-anonymous-bundle" + ("-on-array" if arr else ""), "design": dr})
    # an instance array whose bundle port is given a bundle instance of another type, which has the port's members and one more
    hasd = {"name": "HasD", "sigs": [], "bundles": [{"n": "bp", "of": "Diff", "port": True}],
            "insts": [{"n": "r1", "of": copy.deepcopy(r), "conns": [["p", {"k": "bref", "root": "bp", "path": ["p"]}], ["n", {"k": "bref", "root": "bp", "path": ["n"]}]]}]}
    for arr in (True, False):
        inst = {"n": "i", "of": {"k": "module", "name": "HasD"}, "conns": [["bp", {"k": "bundle", "n": "d3"}]]}
        if arr:
            inst["array"] = 2
        dw = {"bundles": [copy.deepcopy(_gd.DIFF), copy.deepcopy(diff3)], "top": "Top", "modules": [copy.deepcopy(hasd), {"name": "Top", "sigs": [], "bundles": [{"n": "d3", "of": "Diff3", "port": False}], "insts": [inst]}]}
        extra_after.append({"class": "bad_member", "site": "corpus:bundle-port-given-instance-of-wider-type" + ("-on-array" if arr else ""), "design": dw})
    more = hidden + extra_after + [{"class": "bad_member", "site": "corpus:bundle-instance-of-wider-type-in-anonymous-bundle", "design": anoninst}] + [{"class": "noconn_referenced", "site": "corpus:reference-in-anonymous-bundle", "design": ncanon},
                     {"class": "bad_member", "site": "corpus:pair-on-wider-bundle-type", "design": pairtri}]
    # instance arrays wired with connections that are neither the port's width nor n times it: every width from n*w - w + 1 to n*w + w - 1
    # but n*w itself, on a two-bit and a three-bit port (seeds C02-1, C02-r8-2: a floor division takes n*w + r for n*w and drops the top bits)
    arrw = []
    for w, n in ((2, 3), (3, 2)):
        leafw = {"k": "leaf", "kind": f".EA{w}", "ports": [{"n": "q", "w": w}], "params": [], "py": {"k": "ext", "name": f"EA{w}"}}
        for cw in range(n * w - w + 1, n * w + w):
            if cw == n * w or cw == w:
                continue
            arrw.append({"class": "width_mismatch", "site": f"corpus:array-{n}x{w}-given-{cw}-bits",
                         "design": {"bundles": [], "top": "Top", "modules": [{"name": "Top", "sigs": [{"n": "s", "w": cw, "port": True, "dir": "none"}], "bundles": [],
                                    "insts": [{"n": "arr", "array": n, "of": copy.deepcopy(leafw), "conns": [["q", {"k": "sig", "n": "s"}]]}]}]}})
    return more + arrw + [{"class": "missing_connection", "site": "corpus", "design": d1}, {"class": "width_mismatch", "site": "corpus", "design": d2},
            {"class": "bad_index", "site": "corpus", "design": d3}, {"class": "bad_index", "site": "corpus:int-at-width", "design": d4}] + extras


def impl(case):
    """Which of elaborate / to_proto / netlist return instead of raising."""
    res = {}
    for entry in ("to_proto", "elaborate", "netlist"):
        try:
            b = build.build(case["design"], case.get("style", "proc"))
        except Exception as ex:  # noqa
            return {"build": f"reject {type(ex).__name__}: {str(ex)[-120:]}"}
        try:
            if entry == "to_proto":
                h.to_proto(b.top)
            elif entry == "elaborate":
                h.elaborate(b.top)
            else:
                h.netlist(b.top, io.StringIO(), fmt="verilog" if False else "spice")
            res[entry] = "returned"
        except Exception as ex:  # noqa
            res[entry] = f"raised {type(ex).__name__}: {str(ex)[-100:]}"
    # … and the three of them one after the other on one and the same design object: a failed call must not prepare
    # the ground for the next one to return
    try:
        b = build.build(case["design"], case.get("style", "proc"))
        for entry, fn in (("elaborate", lambda: h.elaborate(b.top)), ("to_proto", lambda: h.to_proto(b.top)),
                          ("netlist", lambda: h.netlist(b.top, io.StringIO(), fmt="spice")), ("to_proto", lambda: h.to_proto(b.top))):
            key = f"then_{entry}"
            try:
                fn()
                res[key] = "returned"
            except Exception as ex:  # noqa
                res[key] = f"raised {type(ex).__name__}: {str(ex)[-100:]}"
    except Exception as ex:  # noqa
        pass
    return res


# ------------------------------------------------------------------ ConnTypes.check_instance against its Lean model

def gen_conntypes(rng):
    """One instance of an external module: ports of widths 1-3, connections with any mix of the three faults (or none)."""
    names = rng.sample(["p", "n", "g", "d", "q", "en"], rng.randint(1, 5))
    io = [[nm, rng.choice([1, 1, 2, 3])] for nm in names]
    conns = []
    for nm, w in io:
        r = rng.random()
        if r < 0.12:
            continue  # missing
        ww = w if r < 0.8 else rng.choice([x for x in (1, 2, 3, 4) if x != w])
        kind = rng.choice(["sig", "slice", "concat"])
        if kind == "sig":
            c = {"k": "sig", "n": f"s{ww}", "w": ww}
        elif kind == "slice":
            a = rng.randint(0, 5 - ww)
            c = {"k": "slice", "p": {"k": "sig", "n": "big", "w": 5}, "i": {"s": a, "e": a + ww, "st": None} if ww > 1 or rng.random() < 0.5 else {"i": a}}
        else:
            k = rng.randint(1, ww) if ww > 1 else 1
            parts = [{"k": "sig", "n": f"s{k}", "w": k}] + ([{"k": "slice", "p": {"k": "sig", "n": "big", "w": 5}, "i": {"s": 0, "e": ww - k, "st": None}}] if ww > k else [])
            c = {"k": "concat", "ps": parts}
        conns.append([nm, c])
    for extra in rng.sample(["zz", "p2", "vss"], rng.choice([0, 0, 0, 1, 2])):
        conns.append([extra, {"k": "sig", "n": "s1", "w": 1}])
    rng.shuffle(conns)
    return {"io": io, "conns": conns}


def impl_conntypes(case):
    import re

    E = h.ExternalModule(name="Ect", port_list=[h.Port(name=nm, width=w) for nm, w in case["io"]], paramtype=h.HasNoParams)
    m = h.Module(name="CtTop")
    sigs = {f"s{w}": m.add(h.Signal(name=f"s{w}", width=w)) for w in (1, 2, 3, 4)}
    sigs["big"] = m.add(h.Signal(name="big", width=5))

    def mk(c):
        if c["k"] == "sig":
            return sigs[c["n"]]
        if c["k"] == "slice":
            i = c["i"]
            return mk(c["p"])[i["i"]] if "i" in i else mk(c["p"])[i["s"]:i["e"]]
        return h.Concat(*[mk(p) for p in c["ps"]])

    inst = h.Instance(of=E(), name="x")
    for nm, c in case["conns"]:
        inst.connect(nm, mk(c))
    m.add(inst)
    try:
        h.elaborate(m)
        return {"passes": True}
    except RuntimeError as ex:
        msg = str(ex)
        if "Invalid connections" not in msg:
            return {"other_error": msg[-300:]}
        body = msg[msg.index("Invalid connections"):]
        st = {}
        for nm in re.findall(r"Missing connection to Port `(\w+)`", body):
            st[nm] = "unconnected"
        for nm in re.findall(r"Connection to non-existent Port `(\w+)`", body):
            st[nm] = "noport"
        for nm in re.findall(r"'(\w+)': Signals ", body):
            st[nm] = "invalid"
        return {"passes": False, "bad": st}


def line_conntypes(case):
    return {"prop": "CT", "op": "check", "io": case["io"], "conns": case["conns"]}


def judge_conntypes(case, im, mo):
    if "other_error" in im:
        yield ("corr", f"elaboration failed elsewhere: {im['other_error']}")
        return
    want_bad = {nm: s for nm, s in mo["statuses"] if s != "valid"}
    faulty = bool(want_bad)
    if im["passes"] and faulty:
        yield ("pred", f"an instance with connection faults {want_bad} was accepted")
    elif not im["passes"] and not faulty:
        yield ("corr", f"a well-connected instance was refused: {im.get('bad')}")
    elif not im["passes"] and im["bad"] != want_bad:
        yield ("corr", f"reported faults {im['bad']} vs model {want_bad}")
    if mo["passes"] != (not faulty):
        yield ("corr", "model inconsistent")


SCT = common.Stream("conntypes", impl_conntypes, line_conntypes, judge_conntypes, chunk=16)



# ------------------------------------------------------------------------------------------------ the Orphanage pass alone
OWN = {"me": 1, "other": 2, "none": None, "replaced": None}


def gen_orph(rng):
    """A module `M`, a second module `O`, objects parented by M / by O / by nobody / once by M and since replaced, and instances of
    an external module in M whose connections are random trees over those objects (widths and port names do not matter to this
    pass, which is run alone)."""
    kinds = ["me"] * 5 + ["other", "none", "replaced"]

    def tree(depth):
        r = rng.random()
        if depth == 0 or r < 0.35:
            k = rng.choice(["sig", "sig", "sig", "bundle", "noconn", "pref", "bref"])
            if k == "sig":
                return {"k": "sig", "w": rng.randint(1, 3), "own": rng.choice(kinds)}
            if k == "bundle":
                return {"k": "bundle", "own": rng.choice(kinds)}
            if k == "noconn":
                return {"k": "noconn"}
            if k == "pref":
                return {"k": "pref", "own": rng.choice(["me", "me", "other", "none"]), "port": rng.choice(["a", "b"])}
            return {"k": "bref", "own": rng.choice(["me", "me", "other", "none"]), "path": rng.choice([["x"], ["s", "u"], ["s"]])}
        if r < 0.55:
            p = tree(depth - 1)
            return {"k": "slice", "p": p, "i": {"i": 0}} if p["k"] in ("sig", "slice", "concat", "pref", "bref") and p.get("path") != ["s"] else p
        if r < 0.8:
            ps = [tree(depth - 1) for _ in range(rng.randint(1, 3))]
            ps = [q for q in ps if q["k"] in ("sig", "slice", "concat", "pref", "bref") and q.get("path") != ["s"]]
            return {"k": "concat", "ps": ps} if ps else {"k": "noconn"}
        return {"k": "anon", "fields": [[f"m{j}", tree(depth - 1)] for j in range(rng.randint(1, 3))]}

    conns = [[tree(rng.choice([0, 1, 2, 3])) for _ in range(rng.randint(1, 3))] for _ in range(rng.randint(1, 3))]
    return {"conns": conns, "rob": rng.random() < 0.15, "judge_other": rng.random() < 0.2}


def impl_orph(case):
    import hdl21.elab as elab
    from hdl21.elab.passes import Orphanage as OrphanagePass

    B = h.Bundle(name="OB")
    B.x = h.Signal()
    S = h.Bundle(name="OS")
    S.u = h.Signal(width=2)
    B.s = S()
    E = h.ExternalModule(name="OE", port_list=[h.Port(name="a"), h.Port(name="b")], paramtype=dict)
    M, O = h.Module(name="M"), h.Module(name="O")
    count = [0]

    def fresh(prefix):
        count[0] += 1
        return f"{prefix}{count[0]}"

    def place(obj, own, prefix):
        name = fresh(prefix)
        if own == "me":
            M.add(obj, name=name)
        elif own == "other":
            O.add(obj, name=name)
        elif own == "replaced":
            M.add(obj, name=name)
            M.add(type(obj)(width=obj.width) if isinstance(obj, h.Signal) else B(), name=name)  # the name now holds another object
        else:
            obj.name = name
        return obj

    def mk(c):
        k = c["k"]
        if k == "sig":
            return place(h.Signal(width=c["w"]), c["own"], "s")
        if k == "bundle":
            return place(B(), c["own"], "b")
        if k == "noconn":
            return h.NoConn()
        if k == "pref":
            return getattr(place(h.Instance(of=E({})), c["own"], "t"), c["port"])
        if k == "bref":
            r = place(B(), c["own"], "b")
            for seg in c["path"]:
                r = getattr(r, seg)
            return r
        if k == "slice":
            return mk(c["p"])[0]
        if k == "concat":
            return h.Concat(*[mk(p) for p in c["ps"]])
        if k == "anon":
            return h.AnonymousBundle(**{f: mk(v) for f, v in c["fields"]})
        raise ValueError(k)

    try:
        for cs in case["conns"]:
            inst = M.add(h.Instance(of=E({})), name=fresh("i"))
            for j, c in enumerate(cs):
                inst.connect(f"p{j}", mk(c))
        if case["rob"]:
            victim = h.Signal()
            O.add(victim, name="victim")
            M.victim = victim  # re-filed: now parented by M, still in O's namespace
    except Exception as ex:  # noqa
        return {"build_error": common.errstr(ex)}
    target = O if case["judge_other"] else M
    try:
        elab.Elaborator(passes=[OrphanagePass]).elaborate(target)
        return {"passes": True}
    except RuntimeError as ex:
        return {"passes": False, "msg": str(ex)[-160:]}
    except Exception as ex:  # noqa
        return {"passes": False, "other_exception": common.errstr(ex)}


def line_orph(case):
    def conv(c):
        k = c["k"]
        if k == "sig":
            return {"k": "sig", "n": "s", "w": c["w"], "o": OWN[c["own"]]}
        if k == "bundle":
            return {"k": "bundle", "n": "b", "o": OWN[c["own"]]}
        if k in ("pref", "bref"):
            return dict(c, o=OWN[c["own"]])
        if k == "slice":
            return {"k": "slice", "p": conv(c["p"]), "i": c["i"]}
        if k == "concat":
            return {"k": "concat", "ps": [conv(p) for p in c["ps"]]}
        if k == "anon":
            return {"k": "anon", "fields": [[f, conv(v)] for f, v in c["fields"]]}
        return c
    if case["judge_other"]:
        # O holds no instances; of its namespace only a robbed signal is parented elsewhere (what O owns itself is fine)
        attrs = [{"key": "victim", "name": "victim", "o": 1}] if case["rob"] else []
        return {"prop": "OR", "op": "check", "me": 2, "attrs": attrs, "conns": []}
    return {"prop": "OR", "op": "check", "me": 1, "attrs": [], "conns": [conv(c) for cs in case["conns"] for c in cs]}


def judge_orph(case, im, mo):
    if "build_error" in im:
        yield ("corr", f"harness could not build the case: {im['build_error']}")
        return
    if mo["conns"] != mo["owners_all_mine"]:
        yield ("oracle", "the recursive check and its declarative reading disagree in the model")
    if im["passes"] and not mo["passes"]:
        yield ("pred", "a module depending on an object owned by another module or by none passed the ownership check")
    elif not im["passes"] and mo["passes"]:
        yield ("corr", f"the ownership check refused a module whose every object is its own: {im}")


SOR = common.Stream("orphanage", impl_orph, line_orph, judge_orph, chunk=16)

def late_edit_programs():
    """Designs made ill-formed by an edit *after* the library has looked at something once (a slice that has resolved its index, a
    connection already made): ill-formed is ill-formed, whenever it became so. Each returns a module that must not export."""
    def leaf(w, name="LeafW"):
        m = h.Module(name=f"{name}{w}")
        m.p = h.Port(width=w)
        return m

    def narrowed_to_slice_width():
        t = h.Module(name="LateA"); t.s = h.Signal(width=8)
        sl = t.s[4:8]; t.i = leaf(4)(p=sl); _ = sl.width
        t.s.width = 4                        # s[4:8] of a four-bit signal; the slice is as wide as the whole of what is left
        return t

    def narrowed_to_one_bit():
        t = h.Module(name="LateB"); t.s = h.Signal(width=8)
        sl = t.s[5]; t.i = leaf(1)(p=sl); _ = sl.width
        t.s.width = 1
        return t

    def narrowed_to_the_bit_below(idx, w1, pw):
        def mk():
            t = h.Module(name="LateE"); t.s = h.Signal(width=8)
            sl = t.s[idx]; t.i = leaf(pw)(p=sl); _ = sl.width
            t.s.width = w1                       # the slice's top bit is the first one that no longer exists
            return t
        return mk

    def narrowed_inside_concat():
        t = h.Module(name="LateC"); t.s = h.Signal(width=8); t.u = h.Signal(width=2)
        sl = t.s[4:8]; _ = sl.width
        t.i = leaf(6)(p=h.Concat(t.u, sl))
        t.s.width = 4
        return t

    def port_widened_after_connection():
        L = leaf(1, "LateLeaf")
        t = h.Module(name="LateD"); t.s = h.Signal(width=1); t.i = L(p=t.s)
        L.p.width = 3
        return t

    # … and edits made after the design has been exported once, then exported again (every pass has completed on the modules)
    def reconnected_after_export():
        c = leaf(2, "AfterLeaf")
        t = h.Module(name="AfterA"); t.s = h.Signal(width=2); t.w = h.Signal(width=5); t.i = c(p=t.s)
        h.to_proto(t)
        t.i.connect("p", t.w)                # five bits on a two-bit port
        return t

    def child_port_widened_after_export():
        c = leaf(2, "AfterLeafB")
        t = h.Module(name="AfterB"); t.s = h.Signal(width=2); t.i = c(p=t.s)
        h.to_proto(t)
        c.p.width = 3
        return t

    def disconnected_after_export():
        c = leaf(2, "AfterLeafC")
        t = h.Module(name="AfterC"); t.s = h.Signal(width=2); t.i = c(p=t.s)
        h.to_proto(t)
        t.i.disconnect("p")                  # a port left open
        return t

    return [("after-export:reconnected-to-another-width", reconnected_after_export), ("after-export:child-port-widened", child_port_widened_after_export),
            ("after-export:disconnected", disconnected_after_export),
            ("late:narrowed-to-slice-width", narrowed_to_slice_width), ("late:narrowed-to-one-bit", narrowed_to_one_bit),
            ("late:narrowed-inside-concat", narrowed_inside_concat), ("late:bit-4-of-four", narrowed_to_the_bit_below(4, 4, 1)),
            ("late:bits-4-to-7-of-seven", narrowed_to_the_bit_below(slice(4, 8), 7, 4)), ("late:bit-7-of-seven", narrowed_to_the_bit_below(-1, 7, 1)), ("late:port-widened-after-connection", port_widened_after_connection)]


def impl_late(label):
    mk = dict(late_edit_programs())[label]
    out = {}
    for how, f in (("to_proto", lambda m: h.to_proto(m)), ("netlist", lambda m: h.netlist(m, io.StringIO(), fmt="spice"))):
        try:
            f(mk()); out[how] = "returned"
        except Exception as ex:  # noqa
            out[how] = "raised " + type(ex).__name__
    return out


def run(ctx):
    # the default pass list composed on one module, then exported (ModulePipe.lean; module_accepts_only_wellformed / module_faults_rejected)
    import modpipe
    modpipe.run(ctx)
    rep, rng = ctx.rep, ctx.rng
    rep.extra["rule"] = (
        "single-fault mutants (12 fault classes, up to 3 sites per class per design, sites drawn from every sub-connectable of every "
        "connection) of valid generated designs; a mutant counts when the model declares it ill-formed; distinct = distinct mutant JSON"
    )
    n = 40 if ctx.quick else 700
    base = designs.gen_cases(rng, n + (200 if ctx.quick else 3000), styles=("proc",))
    outs = ctx.drv.run([designs.sem_line(c, None) for c in base])
    # mutate the first n bases the model accepts; all model-ill-formed ones feed the second stream
    valid = [c for c, o in zip(base, outs) if "ok" in o["src"]][:n]
    muts = corpus()
    for c in valid:
        muts += mutants(c["design"], rng)
    mo = ctx.drv.run([designs.sem_line(m, None) for m in muts])
    ill = [(m, o) for m, o in zip(muts, mo) if "error" in o["src"]]
    impls = common.pmap(impl, [m for m, _ in ill], chunk=4)
    by_class = {}
    for (m, o), im in zip(ill, impls):
        cls = m["class"]
        st = by_class.setdefault(cls, {"mutants": 0, "rejected": 0})
        st["mutants"] += 1
        rep.count("mutants", json.dumps(m["design"]) + cls)
        if "build" in im:
            st["rejected"] += 1  # rejected even earlier, at construction
            continue
        returned = [k for k, v in im.items() if v == "returned"]
        if cls == "name_clash":
            # clashing names are an export-level fault (exporting.py:export_module_name is the anchored mechanism):
            # `elaborate` returns modules, not a package; to_proto and netlist must raise.
            returned = [k for k in returned if k not in ("elaborate", "then_elaborate")]
        if returned:
            rep.fail("pred", {"stream": "mutants", "case": m}, {"why": f"ill-formed design ({cls} at {m['site']}: {o['src']['error']}) accepted by {returned}", "impl": im},
                     None)
        else:
            st["rejected"] += 1
    # second stream: generated designs the model declares ill-formed outright (no mutation)
    gen_ill = [c for c, o in zip(base, outs) if "error" in o["src"]]
    for c, im in zip(gen_ill, common.pmap(impl, gen_ill, chunk=4)):
        rep.count("generated_illformed", json.dumps(c["design"]))
        if "build" in im:
            continue
        returned = [k for k, v in im.items() if v == "returned"]
        if returned:
            o = ctx.drv.run([designs.sem_line(c, None)])[0]
            rep.fail("pred", {"stream": "mutants", "case": {"class": "generated", "site": "-", "design": c["design"]}},
                     {"why": f"ill-formed generated design ({o['src']['error']}) accepted by {returned}", "impl": im})
    # designs that became ill-formed by a late edit
    labels = [l for l, _ in late_edit_programs()]
    for label, im in zip(labels, common.pmap_fresh(impl_late, labels)):
        rep.count("late_edits", label)
        returned = [k for k, v in im.items() if v == "returned"]
        if returned:
            # (edits after a completed export: the recorded findings name the entry points that return; anything else is reported as it is)
            fkey = label + "/" + "+".join(sorted(returned)) if label.startswith("after-export:") else None
            rep.fail("pred", {"stream": "late_edits", "label": label}, {"why": f"a design made ill-formed by a late edit ({label}) is accepted by {returned}", "impl": im},
                     finding_key=fkey)
    rep.extra["by_class"] = by_class
    SCT.run(ctx, [gen_conntypes(rng) for _ in range(300 if ctx.quick else 6000)])
    SOR.run(ctx, [gen_orph(rng) for _ in range(300 if ctx.quick else 6000)])
    rep.extra["bases"] = len(valid)
    rep.extra["model_accepts_mutant"] = len(muts) - len(ill)
    if ill:
        rep.sample({"class": ill[0][0]["class"], "site": ill[0][0]["site"], "model": ill[0][1]["src"], "impl": impls[0]})


def replay(ctx, rp):
    if rp["case"].get("stream") == "late_edits":
        im = common.pmap_fresh(impl_late, [rp["case"]["label"]])[0]
        print(json.dumps(im))
        if any(v == "returned" for v in im.values()):
            print(f"VIOLATION property=C02 replay={rp.get('_path')}")
            return 1
        return 0
    m = rp["case"]["case"]
    o = ctx.drv.run([designs.sem_line(m, None)])[0]
    im = impl(m)
    print(json.dumps({"model": o["src"], "impl": im}))
    if "error" in o["src"] and any(v == "returned" for v in im.values()):
        print(f"VIOLATION property=C02 replay={rp.get('_path')}")
        return 1
    return 0
