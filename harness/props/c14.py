"""C14 — Prefixed numbers are exact, totally ordered and hash-consistent.

Every ordered pair of the 21 prefixes × mantissa pairs (1..25 significant digits, both signs,
zero, prefix-boundary straddlers, equal values written with different prefixes, values closer
than / just beyond the 1e-20 tolerance): every operator, hash(), int(), float() of the real
`hdl21.prefix.Prefixed` vs the Lean model vs `fractions.Fraction`.
"""
import itertools
import json
import math
from decimal import Decimal, localcontext
from fractions import Fraction

import common
from common import Stream

h = common.repo_env()
from hdl21.prefix import Prefix, Prefixed

ASSUMPTIONS = [
    "fractions.Fraction arithmetic and float(Fraction) (correctly rounded) are the oracles for exact values and nearest floats",
    "'nearest float' is decided by correspondence only (Lean's Float is opaque to the kernel)",
    "tolerance clause demanded only when the values differ by more than 1e-20 in units of the LARGER prefix (the weakest reading)",
]
TRUSTED = ["CPython decimal / fractions (oracle)"]
PREFIXES = [m.value for m in Prefix.__members__.values()]
BYVAL = {m.value: m for m in Prefix.__members__.values()}


def mk(d):
    return Prefixed(number=Decimal(int(d["c"])).scaleb(d["e"]) if False else dec_of(d), prefix=BYVAL[d["p"]])


def dec_of(d):
    c = int(d["c"])
    sign = 1 if c < 0 or (c == 0 and d.get("negzero")) else 0  # Decimal("-0"), what (negative) x (zero) gives
    digits = tuple(int(ch) for ch in str(abs(c)))
    return Decimal((sign, digits, d["e"]))


def rep_of(p):
    t = p.number.as_tuple()
    if not isinstance(t.exponent, int):
        return {"special": str(p.number)}
    c = int("".join(map(str, t.digits)) or "0")
    return {"c": str(-c if t.sign else c), "e": t.exponent, "p": p.prefix.value}


def val(d):
    return Fraction(int(d["c"])) * Fraction(10) ** (d["e"] + d["p"])


def attempt(f):
    try:
        r = f()
    except Exception as ex:  # noqa
        return {"raise": type(ex).__name__}
    if isinstance(r, Prefixed):
        return {"ok": rep_of(r)}
    if isinstance(r, float):
        return {"ok": r.hex()}
    if isinstance(r, bool):
        return {"ok": r}
    return {"ok": str(r)}


def impl(case):
    a, b = mk(case["a"]), mk(case["b"])
    return {
        "add": attempt(lambda: a + b), "sub": attempt(lambda: a - b), "mul": attempt(lambda: a * b),
        "neg": attempt(lambda: -a), "abs": attempt(lambda: abs(a)),
        "scale": attempt(lambda: a.scale(b.prefix)), "scale_auto": attempt(lambda: a.scale()),
        "lt": attempt(lambda: a < b), "le": attempt(lambda: a <= b), "eq": attempt(lambda: a == b),
        "ne": attempt(lambda: a != b), "gt": attempt(lambda: a > b), "ge": attempt(lambda: a >= b),
        "hash_a": attempt(lambda: hash(a)), "hash_b": attempt(lambda: hash(b)),
        "int_a": attempt(lambda: int(a)), "float_a": attempt(lambda: float(a)),
    }


def line(case):
    return {"prop": "C14", "op": "pair", "a": case["a"], "b": case["b"]}


def near_tie(v):
    """|log10|v| - (k + 1/2)| tiny for some integer k: Prefix.closest decided by Decimal.log10 rounding."""
    if v == 0:
        return False
    with localcontext() as ctx:
        ctx.prec = 80
        L = (Decimal(abs(v).numerator) / Decimal(abs(v).denominator)).log10()
        frac = (L - Decimal("0.5")) % 1
        return min(frac, 1 - frac) < Decimal("1e-24")


def judge(case, im, mo):
    va, vb = val(case["a"]), val(case["b"])
    exact = {"add": va + vb, "sub": va - vb, "mul": va * vb, "neg": -va, "abs": abs(va), "scale": va, "scale_auto": va}
    for op, want in exact.items():
        r = im[op]
        if "ok" not in r or "special" in r["ok"]:
            yield ("pred", f"{op} raised/special {r}", f"{op}-raises")
            continue
        got = val(r["ok"])
        if got != want:
            yield ("pred", f"{op}: value {got} is not the exact result {want}", f"{op}-inexact")
        elif want == 0:
            pass  # which prefix a zero result carries is nobody's business (the "closest prefix" of 0 is a degenerate question): the value is judged
        elif r["ok"] != mo[op] and not (near_tie(want) and r["ok"]["p"] != mo[op]["p"]):
            yield ("corr", f"{op}: representation {r['ok']} vs model {mo[op]}")
        if op == "scale" and "ok" in r and r["ok"].get("p") != case["b"]["p"]:
            yield ("pred", "scale(prefix) did not land on the requested prefix")
    cmpv = {}
    for op in ("lt", "le", "eq", "ne", "gt", "ge"):
        r = im[op]
        if "ok" not in r:
            yield ("pred", f"comparison {op} raised {r}", "cmp-raises")
            return
        cmpv[op] = r["ok"]
        if r["ok"] != mo[op]:
            yield ("corr", f"{op}: {r['ok']} vs model {mo[op]}")
    if [cmpv["lt"], cmpv["eq"], cmpv["gt"]].count(True) != 1:
        yield ("pred", f"trichotomy fails: {cmpv}")
    if cmpv["le"] != (cmpv["lt"] or cmpv["eq"]) or cmpv["ge"] != (cmpv["gt"] or cmpv["eq"]) or cmpv["ne"] == cmpv["eq"]:
        yield ("pred", f"relations between operators fail: {cmpv}")
    tol = Fraction(10) ** (max(case["a"]["p"], case["b"]["p"]) - 20)
    if abs(va - vb) > tol:
        if cmpv["lt"] != (va < vb) or cmpv["gt"] != (va > vb) or cmpv["eq"]:
            yield ("pred", f"comparison disagrees with exact values beyond tolerance: {cmpv}")
    if va == vb:
        if not cmpv["eq"]:
            yield ("pred", "equal values compare unequal")
        if im["hash_a"] != im["hash_b"]:
            yield ("pred", "equal values hash differently", "hash-by-fields")
    for k in ("hash_a", "hash_b"):
        if "ok" not in im[k]:
            yield ("pred", f"{k} raised")
        elif im[k]["ok"] != mo[k]:
            yield ("corr", f"{k}: {im[k]['ok']} vs model {mo[k]}")
    if "ok" not in im["int_a"]:
        yield ("pred", f"int() raised {im['int_a']}", "int-raises")
    else:
        if int(im["int_a"]["ok"]) != math.trunc(va):
            yield ("pred", f"int() = {im['int_a']['ok']} but integer part is {math.trunc(va)}")
        if im["int_a"]["ok"] != mo["int_a"]:
            yield ("corr", f"int: {im['int_a']['ok']} vs model {mo['int_a']}")
    try:
        want = float(va).hex()
    except OverflowError:
        want = None
    if "ok" not in im["float_a"]:
        if want is not None:
            yield ("pred", f"float() raised {im['float_a']}")
    elif want is None or float.fromhex(im["float_a"]["ok"]) != float.fromhex(want):  # by value: -0.0 is the float nearest to zero too
        yield ("pred", f"float() = {im['float_a']['ok']} but the nearest float is {want}", "float-double-rounding")


S = Stream("pairs", impl, line, judge, chunk=128)


def rand_num(rng):
    kind = rng.random()
    if kind < 0.06:
        return {"c": "0", "e": rng.choice([0, 0, -3, 2]), **({"negzero": True} if rng.random() < 0.5 else {})}
    nd = rng.choice([1, 1, 2, 3, 3, 5, 8, 13, 17, 21, 25, rng.randint(1, 25), 29, 40])
    if kind < 0.25:  # straddle a power of ten: 999…9, 1000…0, 1000…1
        k = rng.randint(0, min(nd, 6))
        c = rng.choice([10**nd - 1, 10**nd, 10**nd + 1, 10 ** max(nd - 1, 0)])
        e = rng.randint(-nd - 3, 4)
    else:
        c = rng.randrange(10 ** (nd - 1), 10**nd) if nd > 1 else rng.randint(1, 9)
        e = rng.choice([0, 0, -1, -2, -3, -nd, -nd + 1, 1, 3, rng.randint(-30, 8)])
    if rng.random() < 0.35:
        c = -c
    return {"c": str(c), "e": e}


def related(rng, a, pb):
    """b related to a: equal value in another prefix, or differing by about the tolerance."""
    k = rng.random()
    c, e, pa = int(a["c"]), a["e"], a["p"]
    # same value, written with prefix pb: c * 10^(e + pa - pb)
    shift = e + pa - pb
    base = {"c": str(c), "e": shift, "p": pb}
    if k < 0.5:
        return base
    # add a tiny amount: t * 10^(min(pa,pb) - 20 - pb) with t in {0.4, 0.6, 1, 1.6, 10}
    t = rng.choice([4, 6, 10, 16, 100, -4, -16])
    te = min(pa, pb) - 21 - pb
    lo = min(shift, te)
    cc = c * 10 ** (shift - lo) + t * 10 ** (te - lo)
    return {"c": str(cc), "e": lo, "p": pb}


def corpus():
    P = lambda c, e, p: {"c": str(c), "e": e, "p": p}
    return [
        {"a": P(1, 0, 0), "b": P(1, 0, -9)},          # 1*UNIT > 1*n raised InvalidOperation
        {"a": P(1000, 0, -3), "b": P(1, 0, 0)},        # equal, hashed differently
        {"a": P(1500, 0, -3), "b": P(1, 0, 0)},        # int() raised TypeError
        {"a": P(41, -12, 1), "b": P(1, 0, 0)},         # float double rounding
        {"a": P(1, 0, 24), "b": P(1, 0, -24)},         # sum needs 49 digits
        {"a": P(1234567890123456789012345, 0, 24), "b": P(9876543210987654321098765, 0, -24)},
        {"a": P(-int("1" * 41), -40, 3), "b": P(1, 0, 0)},   # unary minus / abs rounded to 28 digits
        {"a": dict(P(0, 0, 0), negzero=True), "b": P(0, 0, 3)},   # negative zero equals zero, in every respect
        {"a": dict(P(0, -2, -9), negzero=True), "b": P(0, 0, -9)},
        {"a": P(-15, -1, -3), "b": P(0, 0, 3)},               # (negative) x (zero)
    ]


def run(ctx):
    rng = ctx.rng
    ctx.rep.extra["rule"] = (
        "all 441 ordered prefix pairs x K mantissa pairs (K=6 quick, 60 thorough): random 1..25-digit "
        "mantissas, zeros, power-of-ten straddlers, equal values in another prefix, differences around the "
        "1e-20 tolerance; every case is non-trivial; distinct = distinct (a, b) JSON"
    )
    K = 6 if ctx.quick else 60
    cases = corpus()
    for pa, pb in itertools.product(PREFIXES, PREFIXES):
        for k in range(K):
            a = {**rand_num(rng), "p": pa}
            if k % 3 == 2:
                b = related(rng, a, pb)
            else:
                b = {**rand_num(rng), "p": pb}
            cases.append({"a": a, "b": b})
    S.run(ctx, cases)
    ctx.rep.extra["prefix_pairs"] = len(PREFIXES) ** 2
    ctx.rep.extra["exhaustive"] = False


def replay(ctx, rp):
    return Stream.replay(ctx, rp)
