"""C15 — PDK compilation swaps device targets and nothing else.

Streams (all against /repo's working tree, each case in a forked worker because the PDKs keep module-level caches):
  tables     exhaustive: every entry of every device table of Sky130 and Gf180 (by model name) x the primitive(s) that can
             reach it x given / defaulted sizes and multipliers; every MosType x MosFamily x MosVth triple without a model
             name; the sample and ASAP7 PDKs over their parameter spaces.  Compared with the Lean selection model over the
             regenerated tables (device, ports, default sizes), and on the compiled instance: target, sizes "given or the
             PDK's default", each device port connected exactly once.
  hierarchy  generated hierarchies (shared sub-modules, depth <= 5) with Mos primitives at any depth, compiled once or twice
             with each PDK: the Lean walk (`compile`) on the snapshot before = the snapshot after; names, order, connections and
             all other instances untouched; equal parameters -> same device call; export + spice / spectre netlisting.
  registry   operation sequences register / set_default / compile(default | by name | by module) in fresh interpreters,
             compared with the Lean registry model.
  cells      the Sky130 / Gf180 logic-cell modules instantiated with all ports connected, exported and netlisted.
"""
import copy
import io
import itertools
import json
import os
import random
import subprocess
import sys
from fractions import Fraction

import common
import build
import observe
import gen_design
from props import c16

h = common.repo_env()

ASSUMPTIONS = [
    "a primitive whose port list differs from the selected device's (two- versus three-terminal resistors / capacitors, the five-terminal "
    "Sky130 Mos, four-terminal bipolars) compiles into an instance with an unconnected or dangling port: recorded as known findings, "
    "one per (PDK, primitive, device) — the package's own tests compile such pairs, so the walk cannot refuse them",
    "Sky130 / Gf180 pass given sizes through unscaled (the code's own FIXME); 'given' is compared as given",
    "netlisting of compiled designs is required in spice and spectre format",
]
TRUSTED = ["harness/dump_pdk_tables.py + gen_tables.gen_pdk_tables (table translator: imports the PDK packages from /repo)", "observe.pkg_json"]

PDKS = ["sample", "sky130", "gf180", "asap7"]


def pdk_module(name):
    import importlib

    return {"sample": "hdl21.pdk.sample_pdk", "sky130": "sky130_hdl21", "gf180": "gf180_hdl21", "asap7": "asap7_hdl21"}[name] and \
        importlib.import_module({"sample": "hdl21.pdk.sample_pdk", "sky130": "sky130_hdl21", "gf180": "gf180_hdl21", "asap7": "asap7_hdl21"}[name])


def exact(x):
    if x is None:
        return None
    if isinstance(x, h.Prefixed):
        return str(Fraction(x.number) * Fraction(10) ** x.prefix.value)
    if isinstance(x, h.Literal):
        return "L:" + x.text
    from decimal import Decimal
    if isinstance(x, bool):
        return "B:" + str(x)
    if isinstance(x, (int, float, Decimal)):
        try:
            return str(Fraction(Decimal(str(x))))
        except Exception:
            return "?" + repr(x)
    return "?" + repr(x)


def describe_call(of):
    """what an instance points at, as plain data"""
    import dataclasses

    if isinstance(of, h.ExternalModuleCall):
        p = of.params
        fields = {}
        if isinstance(p, dict):
            fields = {k: (exact(v) if not hasattr(v, "name") or isinstance(v, (h.Prefixed, h.Literal)) else v.name) for k, v in p.items()}
        elif dataclasses.is_dataclass(p):
            fields = {f.name: exact(getattr(p, f.name)) for f in dataclasses.fields(p)}
        return {"k": "ext", "domain": of.module.domain, "name": of.module.name, "ports": [q.name for q in of.module.port_list], "params": fields,
                "paramtype": type(p).__name__}
    if isinstance(of, h.PrimitiveCall):
        return {"k": "prim", "kind": of.prim.name}
    return {"k": "module", "name": of.name}


# ------------------------------------------------------------------------------------------------ tables stream

def mk_params(kind, spec):
    """primitive call from a spec {prim, model, tp, vth, fam, w, l, nf, mult}"""
    import hdl21.primitives as hp

    from decimal import Decimal

    def num(v):
        if v is None:
            return None
        fr = Fraction(v)
        return h.Prefixed(number=fr.numerator if fr.denominator == 1 else Decimal(fr.numerator) / Decimal(fr.denominator))

    kw = {}
    for f in ("w", "l", "nf"):
        if spec.get(f) is not None and f in ("w", "l", "nf"):
            kw[f] = num(spec[f])
    if spec.get("model") is not None:
        kw["model"] = spec["model"]
    prim = getattr(hp, kind)
    if kind == "Mos":
        if spec.get("mult") is not None:
            kw["mult"] = num(spec["mult"])
        for f, en in (("tp", hp.MosType), ("vth", hp.MosVth), ("fam", hp.MosFamily)):
            if spec.get(f) is not None:
                kw["family" if f == "fam" else f] = en[spec[f]]
    elif kind in ("PhysicalCapacitor", "ThreeTerminalCapacitor"):
        kw.pop("nf", None)
        if spec.get("mult") is not None:
            kw["mult"] = str(spec["mult"])
    elif kind == "Bipolar":
        kw.pop("nf", None)
        if spec.get("mult") is not None:
            kw["mult"] = num(spec["mult"])
    else:
        kw.pop("nf", None)
    return prim(**kw)


def impl_single(case):
    """one primitive instance with all its ports connected, compiled with one PDK"""
    spec = case["spec"]
    try:
        call = mk_params(spec["prim"], spec)
    except Exception as ex:  # noqa
        return {"build_error": common.errstr(ex)}
    m = h.Module(name="Dut")
    conns = {}
    for p in call.prim.port_list:
        setattr(m, "s_" + p.name, h.Signal())
        conns[p.name] = getattr(m, "s_" + p.name)
    m.x = call(**conns)
    pdk = pdk_module(case["pdk"])
    out = {}
    # what the process compiled before (other modules, other requests): no business of this request's (seed C15-r8-2)
    for k, bspec in enumerate(case.get("before", [])):
        try:
            bc = mk_params(bspec["prim"], bspec)
            mb = h.Module(name=f"Before{k}")
            bconns = {}
            for p in bc.prim.port_list:
                bconns[p.name] = mb.add(h.Signal(), name="s_" + p.name)
            mb.x = bc(**bconns)
            pdk.compile(mb)
        except Exception:  # noqa
            pass
    try:
        if case.get("via") == "hpdk_module":
            h.pdk.compile(m, pdk=sys.modules[pdk.__name__ + (".pdk" if case["pdk"] in ("sample", "asap7") else ".pdk_logic")])
        elif case.get("via") == "hpdk_name":
            h.pdk.compile(m, pdk=pdk.__name__ + (".pdk" if case["pdk"] in ("sample", "asap7") else ".pdk_logic"))
        else:
            pdk.compile(m)
    except Exception as ex:  # noqa
        return {"refused": common.errstr(ex), "refused_type": "RuntimeError" if isinstance(ex, RuntimeError) else type(ex).__name__, "refused_class": type(ex).__name__}
    out["of"] = describe_call(m.x.of)
    out["conn_ports"] = sorted(m.x.conns.keys())
    out["inst_name"] = m.x.name
    # compile again: same target object?
    first = m.x.of
    try:
        pdk.compile(m)
        out["second_same"] = (m.x.of is first) or safe_eq(m.x.of, first)
    except Exception as ex:  # noqa
        out["second_error"] = common.errstr(ex)
    # a second instance with equal parameters, compiled separately
    m2 = h.Module(name="Dut2")
    for p in call.prim.port_list:
        setattr(m2, "s_" + p.name, h.Signal())
    m2.y = mk_params(spec["prim"], spec)(**{p.name: getattr(m2, "s_" + p.name) for p in call.prim.port_list})
    try:
        pdk.compile(m2)
        out["equal_params_same"] = safe_eq(m2.y.of, first)
    except Exception as ex:  # noqa
        out["equal_params_error"] = common.errstr(ex)
    try:
        pkg = h.to_proto(m)
        out["pkg"] = observe.pkg_json(pkg)
        for fmt in ("spice", "spectre"):
            try:
                h.netlist(pkg, io.StringIO(), fmt=fmt)
                out[fmt] = "ok"
            except Exception as ex:  # noqa
                out[fmt] = common.errstr(ex)
    except Exception as ex:  # noqa
        out["export_error"] = common.errstr(ex)
    return out


def tables_cases(rng, tables, quick):
    cases = []
    sizes = [(None, None), ("1/1000000", "3/10000000"), ("1/500000", None), (None, "1/2000000")]
    for pdk in ("sky130", "gf180"):
        t = tables[pdk]
        for e in t["xtors"]:
            for (w, l) in sizes if not quick else [sizes[0], rng.choice(sizes[1:])]:
                nf, mult = rng.choice([(None, None), ("2", None), (None, "3"), ("4", "2")])
                cases.append({"pdk": pdk, "spec": {"prim": "Mos", "model": e["key"], "tp": e["tp"], "vth": e["vth"], "fam": e["fam"], "w": w, "l": l, "nf": nf, "mult": mult},
                              "via": rng.choice([None, None, "hpdk_module", "hpdk_name"])})
        for tp, fam, vth in itertools.product(["NMOS", "PMOS"], ["NONE", "CORE", "IO", "LP", "HP", "RF"], ["STD", "LOW", "HIGH", "ULTRA_LOW", "ZERO", "NATIVE"]):
            w, l = rng.choice(sizes)
            cases.append({"pdk": pdk, "spec": {"prim": "Mos", "model": None, "tp": tp, "vth": vth, "fam": fam, "w": w, "l": l, "nf": None, "mult": None}})
            # … the same request after every device carrying this triple was asked for by its model name with the same sizes
            rows = [e for e in t["xtors"] if (e["tp"], e["fam"], e["vth"]) == (tp, fam, vth)]
            if len(rows) > 1:
                for (w, l) in (sizes[:2] if not quick else [sizes[0]]):
                    cases.append({"pdk": pdk, "spec": {"prim": "Mos", "model": None, "tp": tp, "vth": vth, "fam": fam, "w": w, "l": l, "nf": None, "mult": None},
                                  "before": [{"prim": "Mos", "model": e["key"], "tp": e["tp"], "vth": e["vth"], "fam": e["fam"], "w": w, "l": l, "nf": None, "mult": None}
                                             for e in reversed(rows)]})
        for table, prims in (("ress", ["PhysicalResistor", "ThreeTerminalResistor"]), ("caps", ["PhysicalCapacitor", "ThreeTerminalCapacitor"]),
                             ("diodes", ["Diode"]), ("bjts", ["Bipolar"])):
            for e in t[table]:
                for prim in prims:
                    for (w, l) in (sizes[:2] if not quick else [rng.choice(sizes[:2])]):
                        cases.append({"pdk": pdk, "table": table, "spec": {"prim": prim, "model": e["key"], "w": w, "l": l, "mult": rng.choice([None, "2"])}})
            cases.append({"pdk": pdk, "table": table, "spec": {"prim": prims[0], "model": "NO_SUCH_MODEL", "w": None, "l": None}})
            cases.append({"pdk": pdk, "table": table, "spec": {"prim": prims[0], "model": None, "w": None, "l": None}})
        cases.append({"pdk": pdk, "spec": {"prim": "Mos", "model": "NO_SUCH_MODEL", "tp": "NMOS", "vth": "STD", "fam": "CORE", "w": None, "l": None, "nf": None, "mult": None}})
    for pdk in ("sample", "asap7"):
        for tp, vth in itertools.product(["NMOS", "PMOS"], ["STD", "LOW", "HIGH"]):
            for (w, l) in sizes[:2]:
                cases.append({"pdk": pdk, "spec": {"prim": "Mos", "model": None, "tp": tp, "vth": vth, "fam": "NONE", "w": w, "l": l, "nf": rng.choice([None, "2"]), "mult": rng.choice([None, "3"])},
                              "via": rng.choice([None, "hpdk_module", "hpdk_name"])})
    return cases


def model_line_single(case):
    s = case["spec"]
    if s["prim"] == "Mos":
        return {"prop": "C15", "op": "select_mos", "pdk": case["pdk"], "model": s["model"], "tp": s["tp"] or "NMOS", "vth": s["vth"] or "STD", "fam": s["fam"] or "NONE"}
    return {"prop": "C15", "op": "select_model", "pdk": case["pdk"], "table": case["table"], "model": s["model"]}


def expected_mos_params(case, found, default_size, tables):
    """(field -> exact value) the compiled device must carry"""
    s = case["spec"]
    pd = tables[case["pdk"]]["param_defaults"]
    w = s["w"] if s["w"] is not None else default_size[0]
    l = s["l"] if s["l"] is not None else default_size[1]
    if case["pdk"] == "sky130":
        if "20v" in found["modname"]:
            d = pd["Sky130Mos20VParams"]
            return {"w": w, "l": l, "m": s["mult"] or d["m"]}
        d = pd["MosParams"]
        return {"w": w, "l": l, "nf": s["nf"] or d["nf"], "mult": s["mult"] or d["mult"]}
    d = pd["MosParams"]
    return {"w": w, "l": l, "nf": s["nf"] or d["nf"], "m": s["mult"] or d["m"]}


def judge_single(case, im, mo, tables):
    s = case["spec"]
    key = f"{case['pdk']}:{s['prim']}:{s.get('model') or (s.get('tp'), s.get('fam'), s.get('vth'))}"
    if "build_error" in im:
        yield ("corr", f"harness could not build {key}: {im['build_error']}", None)
        return
    if case["pdk"] in ("sample", "asap7"):
        # small parameter spaces, no generated table: direct checks only
        if "refused" in im:
            if case["pdk"] == "asap7" and s["vth"] not in ("STD", "LOW") and im["refused_type"] == "RuntimeError":
                return  # no such device: descriptive refusal
            yield ("pred", {"why": f"{key} refused: {im['refused'][-200:]}"}, None)
            return
        of = im["of"]
        want = ({"NMOS": "nmos", "PMOS": "pmos"}[s["tp"]] if case["pdk"] == "sample" else {"NMOS": "n", "PMOS": "p"}[s["tp"]] + "mos" + {"STD": "_rvt", "LOW": "_lvt"}[s["vth"]])
        if of["k"] != "ext" or of["name"] != want:
            yield ("pred", {"why": f"{key}: compiled to {of.get('name')}, documented device is {want}"}, None)
        elif case["pdk"] == "sample":
            exp = {"w": s["w"] or "1/1000000", "l": s["l"] or "1/1000000", "nf": s["nf"] or "1", "m": s["mult"] or "1"}
            got = {k: of["params"].get(k) for k in exp}
            if got != exp:
                yield ("pred", {"why": f"{key}: sizes {got}, given-or-default is {exp}"}, None)
        else:
            for f in ("w", "l", "nf", "mult"):
                if s[f] is not None and of["params"].get(f) != s[f]:
                    yield ("pred", {"why": f"{key}: {f} = {of['params'].get(f)}, given {s[f]}"}, None)
    else:
        sel = mo["sel"]
        if "found" not in sel:
            if "refused" not in im:
                yield ("pred", {"why": f"{key}: no device satisfies the request ({list(sel)[0]}) but compilation returned {im['of']}"}, None)
            elif im["refused_type"] != "RuntimeError":
                yield ("pred", {"why": f"{key}: a request no device satisfies must raise a descriptive error, got {im['refused_type']}: {im['refused'][-120:]}"}, None)
            return
        f = sel["found"]
        if "refused" in im:
            yield ("corr", f"{key}: the tables hold device {f['key']} but compilation refused: {im['refused'][-200:]}", None)
            return
        of = im["of"]
        if of["k"] != "ext" or of["name"] != f["modname"] or of["ports"] != f["ports"] or of["paramtype"] != f["paramtype"]:
            yield ("pred", {"why": f"{key}: compiled to {of.get('name')} {of.get('ports')}, the tables' device is {f['modname']} {f['ports']}"}, None)
            return
        if s["prim"] == "Mos":
            exp = expected_mos_params(case, f, mo["default_size"], tables)
            got = {k: of["params"].get(k) for k in exp}
            if got != exp:
                yield ("pred", {"why": f"{key}: sizes {got}, given-or-default is {exp}"}, None)
        else:
            ds = mo.get("default_size")
            names = {("sky130", "ress"): ("w", "l"), ("sky130", "caps"): ("w", "l"), ("gf180", "ress"): ("r_width", "r_length")}.get((case["pdk"], case["table"]))
            if names and ds:
                for given, dflt, field in ((s["w"], ds[0], names[0]), (s["l"], ds[1], names[1])):
                    if field in of["params"] and (given or dflt) is not None and of["params"][field] != (given or dflt):
                        yield ("pred", {"why": f"{key}: {field} = {of['params'][field]}, given-or-default is {given or dflt}"}, None)
    # ---- on what was compiled, whatever the PDK
    if "of" in im:
        of = im["of"]
        if im["inst_name"] != "x":
            yield ("pred", {"why": f"{key}: instance renamed to {im['inst_name']}"}, None)
        if of["k"] == "ext" and sorted(of["ports"]) != im["conn_ports"]:
            yield ("pred", {"why": f"{key}: device ports {sorted(of['ports'])} but connected ports {im['conn_ports']}: not each device port connected exactly once"},
                   f"ports:{case['pdk']}:{s['prim']}:{s.get('model') or of['name']}")
            return
        if im.get("second_same") is False or "second_error" in im:
            yield ("pred", {"why": f"{key}: compiling twice differs from compiling once: {im.get('second_error')}"}, None)
        if im.get("equal_params_same") is False or "equal_params_error" in im:
            yield ("pred", {"why": f"{key}: equal primitive parameters gave a different device call"}, None)
        if "export_error" in im:
            yield ("pred", {"why": f"{key}: compiled design does not export: {im['export_error'][-200:]}"}, None)
        else:
            for fmt in ("spice", "spectre"):
                if im.get(fmt) != "ok":
                    yield ("pred", {"why": f"{key}: compiled design does not netlist ({fmt}): {str(im.get(fmt))[-200:]}"}, None)


# ------------------------------------------------------------------------------------------------ hierarchy stream

def snapshot(top):
    mods, idx = [], {}

    def visit(m):
        if id(m) in idx:
            return idx[id(m)]
        k = len(mods)
        idx[id(m)] = k
        mods.append(None)
        insts = []
        for i in m.instances.values():
            of = i.of
            if isinstance(of, h.Module):
                t = {"k": "module", "idx": visit(of)}
            elif isinstance(of, h.PrimitiveCall):
                t = {"k": "prim", "kind": of.prim.name, "obj": of}
            else:
                t = {"k": "ext", "name": f"{of.module.domain}.{of.module.name}", "obj": of}
            insts.append({"n": i.name, "t": t, "conns": sorted([p, getattr(c, "name", None) or repr(c)] for p, c in i.conns.items())})
        mods[k] = {"name": m.name, "insts": insts}
        return k

    visit(top)
    return mods


def safe_eq(a, b):
    """`Prefixed.__eq__` raises for a non-numeric other side (w=1µ against w=None): field-wise, with None handled"""
    import dataclasses

    if dataclasses.is_dataclass(a) and dataclasses.is_dataclass(b):
        for f in dataclasses.fields(a):
            x, y = getattr(a, f.name), getattr(b, f.name)
            if (x is None) != (y is None):
                return False
            if x is not None and not safe_eq(x, y):
                return False
        return True
    try:
        return a == b
    except Exception:  # noqa
        return False


def number_params(snaps):
    """replace parameter objects by ids: equal values (==) get equal ids, per kind"""
    seen = []
    for mods in snaps:
        for m in mods:
            for i in m["insts"]:
                t = i["t"]
                if "obj" in t:
                    o = t.pop("obj")
                    p = o.params
                    k = next((n for n, q in enumerate(seen) if type(q) is type(p) and safe_eq(q, p)), None)
                    if k is None:
                        seen.append(p)
                        k = len(seen) - 1
                    t["params"] = k
                    t["desc"] = describe_call(o)
    return snaps


MOS_CHOICES = {
    "sample": [{"tp": "NMOS"}, {"tp": "PMOS"}, {"tp": "NMOS", "w": "1/500000"}, {"tp": "NMOS", "nf": "2"}, {"tp": "NMOS", "mult": "2"}],
    "asap7": [{"tp": "NMOS", "vth": "STD"}, {"tp": "PMOS", "vth": "LOW"}, {"tp": "NMOS", "vth": "LOW", "w": "1/500000"}],
    "sky130": [{"tp": "NMOS", "fam": "CORE", "vth": "STD", "nf": "2"}, {"tp": "NMOS", "fam": "CORE", "vth": "STD", "nf": "3"}, {"tp": "NMOS", "fam": "CORE", "vth": "STD", "mult": "2"},
               {"tp": "NMOS", "fam": "CORE", "vth": "STD"}, {"tp": "PMOS", "fam": "CORE", "vth": "HIGH"}, {"model": "NMOS_5p5V_D10_STD"}, {"tp": "PMOS", "fam": "IO", "vth": "STD", "w": "1/500000"},
               {"tp": "NMOS", "fam": "NONE", "vth": "NATIVE"}],
    "gf180": [{"tp": "NMOS", "fam": "CORE"}, {"tp": "PMOS", "fam": "IO"}, {"model": "NFET_6p0V_NAT"}, {"tp": "PMOS", "fam": "CORE", "l": "1/1000000"},
              # requests that differ in one field only (the per-parameter caches must tell them apart)
              {"tp": "NMOS", "fam": "CORE", "nf": "2"}, {"tp": "NMOS", "fam": "CORE", "nf": "4"}, {"tp": "NMOS", "fam": "CORE", "mult": "3"}, {"model": "NFET_3p3V", "nf": "2"}],
}
BAD_MOS = {"sky130": {"tp": "NMOS", "fam": "CORE", "vth": "HIGH"}, "gf180": {"tp": "NMOS", "fam": "NONE"}, "asap7": {"tp": "NMOS", "vth": "HIGH"}, "sample": None}


def hier_corpus():
    """One flat top per PDK holding a Mos for every request of MOS_CHOICES — requests that differ in a single field sit side by
    side, in either order: what one request compiles to must not depend on which others the process has seen."""
    mos = next(l for l in gen_design.LEAVES if l["kind"] == "hdl21.primitives.Mos")
    out = []
    for pdk in PDKS:
        for rev in (False, True):
            choices = list(MOS_CHOICES[pdk])
            if rev:
                choices.reverse()
            insts = []
            for k, ch in enumerate(choices):
                of = copy.deepcopy(mos)
                of["py"] = {"k": "mos", "spec": dict({"prim": "Mos", "model": None, "tp": None, "vth": None, "fam": None, "w": None, "l": None, "nf": None, "mult": None}, **ch)}
                insts.append({"n": f"m{k}", "of": of, "conns": [[p["n"], {"k": "sig", "n": "s"}] for p in mos["ports"]]})
            d = {"bundles": [], "top": "Top", "modules": [{"name": "Top", "sigs": [{"n": "s", "w": 1, "port": True, "dir": "none"}], "bundles": [], "insts": insts}]}
            out.append({"design": d, "pdk": pdk, "twice": rev, "via": None, "prewalk": "subclass" if rev else None, "style": "proc", "nmos": len(insts)})
    return out


def hier_cases(rng, n):
    cases = hier_corpus()
    for k in range(n):
        d = c16.gen_hier(rng, {})
        pdk = PDKS[k % 4]
        bad = rng.random() < 0.08 and BAD_MOS[pdk] is not None
        nmos = 0
        for m in d["modules"]:
            for i in m["insts"]:
                if i["of"].get("kind") == "hdl21.primitives.Mos":
                    nmos += 1
                    choice = dict(rng.choice(MOS_CHOICES[pdk]))
                    if bad and rng.random() < 0.5:
                        choice = dict(BAD_MOS[pdk])
                    i["of"]["py"] = {"k": "mos", "spec": dict({"prim": "Mos", "model": None, "tp": None, "vth": None, "fam": None, "w": None, "l": None, "nf": None, "mult": None}, **choice)}
        cases.append({"design": d, "pdk": pdk, "twice": rng.random() < 0.5, "via": rng.choice([None, "hpdk_module", "hpdk_name"]),
                      "prewalk": rng.choice([None, None, "base", "subclass", "walk_twice"]), "style": ("proc", "class", "gen")[k % 3], "nmos": nmos})
    return cases


def impl_hier(case):
    orig = build.leaf_target

    def leaf_target(of):
        if of["py"]["k"] == "mos":
            return mk_params("Mos", of["py"]["spec"])
        return orig(of)

    build.leaf_target = leaf_target
    try:
        b = build.build(case["design"], case["style"])
        h.elaborate(b.top)
    except Exception as ex:  # noqa
        return {"build_error": common.errstr(ex)}
    finally:
        build.leaf_target = orig
    # unrelated earlier work on the same objects: a read-only walker of the hierarchy (any number of times)
    if case.get("prewalk"):
        from hdl21.walker import HierarchyWalker

        class Counter(HierarchyWalker):
            def __init__(self):
                super().__init__()
                self.n = 0

            def visit_instance(self, inst):
                self.n += 1
                return super().visit_instance(inst)

        for _ in range(2 if case["prewalk"] == "walk_twice" else 1):
            w = Counter() if case["prewalk"] != "base" else HierarchyWalker()
            w.visit_elaboratables(b.top)
    s0 = snapshot(b.top)
    pdk = pdk_module(case["pdk"])
    modname = pdk.__name__ + (".pdk" if case["pdk"] in ("sample", "asap7") else ".pdk_logic")
    out = {}
    try:
        for _ in range(2 if case["twice"] else 1):
            if case["via"] == "hpdk_module":
                h.pdk.compile(b.top, pdk=sys.modules[modname])
            elif case["via"] == "hpdk_name":
                h.pdk.compile(b.top, pdk=modname)
            else:
                pdk.compile(b.top)
    except Exception as ex:  # noqa
        out["refused"] = common.errstr(ex)
        out["refused_type"] = "RuntimeError" if isinstance(ex, RuntimeError) else type(ex).__name__  # a subclass of RuntimeError is a RuntimeError
        out["refused_class"] = type(ex).__name__
    s1 = snapshot(b.top)
    number_params([s0, s1])
    out["before"], out["after"] = s0, s1
    if "refused" not in out:
        try:
            pkg = h.to_proto(b.top)
            out["pkg"] = observe.pkg_json(pkg)
            out["top"] = out["pkg"]["modules"][-1]["name"]
            for fmt in ("spice", "spectre"):
                try:
                    h.netlist(pkg, io.StringIO(), fmt=fmt)
                    out[fmt] = "ok"
                except Exception as ex:  # noqa
                    out[fmt] = common.errstr(ex)
        except Exception as ex:  # noqa
            out["export_error"] = common.errstr(ex)
    return out


MAPPED = {"sample": {"Mos"}, "asap7": {"Mos"}, "sky130": {"Mos", "PhysicalResistor", "ThreeTerminalResistor", "PhysicalCapacitor", "ThreeTerminalCapacitor", "Diode", "Bipolar"},
          "gf180": {"Mos", "PhysicalResistor", "ThreeTerminalResistor", "PhysicalCapacitor", "ThreeTerminalCapacitor", "Diode", "Bipolar"}}


def hier_model_line(case, im):
    """the Lean walk on the snapshot before; the device map holds, per distinct primitive call, the device the implementation chose"""
    before, after = im["before"], im["after"]
    dm = {}
    for mb, ma in zip(before, after):
        for ib, ia in zip(mb["insts"], ma["insts"]):
            tb, ta = ib["t"], ia["t"]
            if tb["k"] == "prim" and tb["kind"] in MAPPED[case["pdk"]]:
                key = (tb["kind"], tb["params"])
                if ta["k"] == "ext":
                    dm.setdefault(key, {"kind": tb["kind"], "params": tb["params"], "to": {"k": "ext", "name": ta["name"], "params": ta["params"]}})
                elif "refused" in im:
                    dm.setdefault(key, {"kind": tb["kind"], "params": tb["params"], "error": "no device"})
    strip = lambda t: {k: v for k, v in t.items() if k != "desc"}
    mods = [{"name": m["name"], "insts": [{"n": i["n"], "t": strip(i["t"]), "conns": i["conns"]} for i in m["insts"]]} for m in before]
    return {"prop": "C15", "op": "compile", "mods": mods, "tops": [0], "dm": list(dm.values())}


def judge_hier(case, im, mo, sem):
    if "build_error" in im:
        yield ("corr", f"harness could not build: {im['build_error']}", None)
        return
    before, after = im["before"], im["after"]
    strip = lambda t: {k: v for k, v in t.items() if k != "desc"}
    if "refused" in im:
        bad = BAD_MOS[case["pdk"]]
        has_bad = bad is not None and any(i["of"].get("py", {}).get("spec") and all(i["of"]["py"]["spec"].get(k) == v for k, v in bad.items())
                                          for m in case["design"]["modules"] for i in m["insts"] if i["of"].get("py", {}).get("k") == "mos")
        if not has_bad:
            yield ("corr", f"compilation refused although every request has a device: {im['refused'][-200:]}", None)
        elif im["refused_type"] != "RuntimeError":
            yield ("pred", {"why": f"a request no device satisfies must raise a descriptive error, got {im['refused_type']}"}, None)
        return
    # ---- (P) direct
    if len(before) != len(after):
        yield ("pred", {"why": "hierarchy changed: number of modules reachable from the top differs"}, None)
        return
    for mb, ma in zip(before, after):
        if mb["name"] != ma["name"] or [i["n"] for i in mb["insts"]] != [i["n"] for i in ma["insts"]]:
            yield ("pred", {"why": f"module {mb['name']}: name or instance names / order changed", "before": [i["n"] for i in mb["insts"]], "after": [i["n"] for i in ma["insts"]]}, None)
            return
        for ib, ia in zip(mb["insts"], ma["insts"]):
            if ib["conns"] != ia["conns"]:
                yield ("pred", {"why": f"{mb['name']}.{ib['n']}: connections changed", "before": ib["conns"], "after": ia["conns"]}, None)
            tb, ta = ib["t"], ia["t"]
            mapped = tb["k"] == "prim" and tb["kind"] in MAPPED[case["pdk"]]
            if not mapped and strip(tb) != strip(ta):
                yield ("pred", {"why": f"{mb['name']}.{ib['n']}: an instance that is not a technology-mapped primitive was touched", "before": strip(tb), "after": strip(ta)}, None)
            if mapped and ta["k"] != "ext":
                yield ("pred", {"why": f"{mb['name']}.{ib['n']}: a technology-mapped primitive was not replaced by a device", "after": strip(ta)}, None)
            if mapped and ta["k"] == "ext" and sorted(ta["desc"]["ports"]) != sorted(p for p, _ in ia["conns"]):
                yield ("pred", {"why": f"{mb['name']}.{ib['n']}: device ports {ta['desc']['ports']} are not the connected ports"}, None)
    # equal primitive parameters -> same device call
    chosen = {}
    for mb, ma in zip(before, after):
        for ib, ia in zip(mb["insts"], ma["insts"]):
            if ib["t"]["k"] == "prim":
                k = (ib["t"]["kind"], ib["t"]["params"])
                v = (ia["t"].get("name"), ia["t"].get("params"))
                if chosen.setdefault(k, v) != v:
                    yield ("pred", {"why": f"equal primitive parameters gave different device calls: {chosen[k]} and {v}"}, None)
    if "export_error" in im:
        yield ("pred", {"why": f"compiled design does not export: {im['export_error'][-300:]}"}, None)
    else:
        for fmt in ("spice", "spectre"):
            if im.get(fmt) != "ok" and "physical `hdl21.Primitive`" not in str(im.get(fmt)) and "flicting ExternalModule" not in str(im.get(fmt)):
                # (vlsirtools refuses two external modules of one name in different domains — a netlister limit, see C06)
                yield ("pred", {"why": f"compiled design does not netlist ({fmt}): {str(im.get(fmt))[-300:]}"}, None)
        if sem is not None and sem.get("wf_problems"):
            yield ("pred", {"why": "compiled design's package is not well-formed", "problems": sem["wf_problems"][:5]}, None)
    # ---- (C) the Lean walk
    if "error" in mo:
        yield ("corr", f"model's walk fails ({mo['error']}), implementation's did not", None)
    else:
        want = [{"name": m["name"], "insts": [{"n": i["n"], "t": strip(i["t"]), "conns": i["conns"]} for i in m["insts"]]} for m in after]
        got = [{"name": m["name"], "insts": [{"n": i["n"], "t": i["t"], "conns": [list(c) for c in i["conns"]]} for i in m["insts"]]} for m in mo["ok"]]
        if want != got:
            from props import c17
            yield ("corr", {"why": "the Lean walk on the design before differs from the design after", "first_difference": c17.first_diff(got, want)}, None)


# ------------------------------------------------------------------------------------------------ registry stream

REG_WORKER = r"""
import sys, json
sys.path[:0] = json.loads(sys.argv[1])
import hdl21 as h
import hdl21.pdk as hp
import importlib, types
ops = json.loads(sys.argv[2])
NAMES = {"sample": "hdl21.pdk.sample_pdk.pdk", "sky130": "sky130_hdl21.pdk_logic", "gf180": "gf180_hdl21.pdk_logic", "asap7": "asap7_hdl21.pdk"}
def get(m):
    if m.startswith("bogus"):
        # modules the registry must refuse, one per reason: no compile(); two arguments; a wrongly typed argument; a return type
        if m not in BOGUS:
            mod = types.ModuleType(m + "_pdk")
            if m == "bogus_arity":
                def compile(src: h.Elaboratables, extra: int) -> None: raise AssertionError("a refused PDK was called")
                mod.compile = compile
            elif m == "bogus_argtype":
                def compile(src: int) -> None: raise AssertionError("a refused PDK was called")
                mod.compile = compile
            elif m == "bogus_rettype":
                def compile(src: h.Elaboratables) -> int: raise AssertionError("a refused PDK was called")
                mod.compile = compile
            BOGUS[m] = mod
        return BOGUS[m]                                # the same module object each time it is asked for
    return importlib.import_module(NAMES[m])           # importing the package registers it: only done on demand
BOGUS = {}
def which(mod):
    d = mod.x.of
    return getattr(getattr(d, "module", None), "domain", None)
out = []
for o in ops:
    try:
        if o["op"] == "register":
            hp.register(get(o["m"])); out.append({"registered": True})
        elif o["op"] == "set_default":
            hp.set_default(NAMES[o["m"]] if o.get("by") == "name" else get(o["m"])) ; out.append({"ok": True})
        else:
            m = h.Module(name="T"); m.a, m.b, m.c, m.d = h.Signals(4); m.x = h.Mos(tp=h.MosType.NMOS, family=h.MosFamily.CORE)(d=m.a, g=m.b, s=m.c, b=m.d)
            a = o["arg"]
            arg = None if a["k"] == "none" else (NAMES.get(a["s"], a["s"]) if a["k"] == "name" else get(a["m"]))
            hp.compile(m, pdk=arg)
            out.append({"pdk": which(m)})
    except Exception as ex:
        out.append({"raised": type(ex).__name__ + ": " + str(ex)[:120]})
print(json.dumps(out))
"""
DOMAIN = {"sample": "sample_pdk", "sky130": "sky130", "gf180": "gf180", "asap7": "asap7"}
REGNAME = {"sample": "hdl21.pdk.sample_pdk.pdk", "sky130": "sky130_hdl21.pdk_logic", "gf180": "gf180_hdl21.pdk_logic", "asap7": "asap7_hdl21.pdk"}


BOGUS_KINDS = ["bogus", "bogus_arity", "bogus_argtype", "bogus_rettype"]


def registry_corpus():
    """every default x every explicit target, by name and by module; no default with one / several PDKs registered"""
    pd = ["sample", "sky130", "gf180", "asap7"]
    out = []
    for d in pd:
        for by in ("name", "module"):
            ops = [{"op": "register", "m": m} for m in pd] + [{"op": "set_default", "m": d, "by": by}, {"op": "compile", "arg": {"k": "none"}}]
            for t in pd:
                ops.append({"op": "compile", "arg": {"k": "name", "s": t}})
                ops.append({"op": "compile", "arg": {"k": "module", "m": t}})
            ops.append({"op": "compile", "arg": {"k": "none"}})
            out.append(ops)
    # a refused registration (by each reason, through register and through compile-by-module) leaves no trace: the one valid PDK
    # is still the default, the refused module is refused again, and alone it is no default
    for bog in BOGUS_KINDS:
        for how in ("register", "compile"):
            bad = {"op": "register", "m": bog} if how == "register" else {"op": "compile", "arg": {"k": "module", "m": bog}}
            out.append([{"op": "register", "m": "sky130"}, {"op": "compile", "arg": {"k": "none"}}, bad, {"op": "compile", "arg": {"k": "none"}}, bad,
                        {"op": "compile", "arg": {"k": "name", "s": bog + "_pdk"}}, {"op": "compile", "arg": {"k": "none"}}])
            out.append([bad, {"op": "compile", "arg": {"k": "none"}}, bad, {"op": "register", "m": "gf180"}, {"op": "compile", "arg": {"k": "none"}}])
    out.append([{"op": "compile", "arg": {"k": "none"}}, {"op": "register", "m": "gf180"}, {"op": "compile", "arg": {"k": "none"}}, {"op": "register", "m": "sample"},
                {"op": "compile", "arg": {"k": "none"}}, {"op": "compile", "arg": {"k": "name", "s": "sample"}}, {"op": "compile", "arg": {"k": "module", "m": "asap7"}},
                {"op": "compile", "arg": {"k": "name", "s": "asap7"}}, {"op": "compile", "arg": {"k": "name", "s": "nosuch"}}])
    return out


def registry_cases(rng, n):
    cases = []
    pd = ["sample", "sky130", "gf180", "asap7"]
    for _ in range(n):
        ops = []
        for _ in range(rng.randint(1, 6)):
            r = rng.random()
            if r < 0.3:
                ops.append({"op": "register", "m": rng.choice(pd + BOGUS_KINDS)})
            elif r < 0.4:
                ops.append({"op": "set_default", "m": rng.choice(pd), "by": rng.choice(["name", "module"])})
            else:
                k = rng.choice(["none", "name", "module", "module"])
                arg = {"k": "none"} if k == "none" else ({"k": "name", "s": rng.choice(pd + ["nosuch"])} if k == "name" else {"k": "module", "m": rng.choice(pd + ["bogus"])})
                ops.append({"op": "compile", "arg": arg})
        cases.append(ops)
    return cases


def run_registry(ops):
    paths = [str(common.REPO), str(common.REPO / "pdks" / "Sky130"), str(common.REPO / "pdks" / "Gf180"), str(common.REPO / "pdks" / "Asap7")]
    p = subprocess.run([sys.executable, "-c", REG_WORKER, json.dumps(paths), json.dumps(ops)], capture_output=True, text=True, timeout=120)
    if p.returncode != 0:
        return {"worker_error": p.stderr[-400:]}
    return {"trace": json.loads(p.stdout.strip().splitlines()[-1])}


def registry_model_line(ops):
    """Importing a PDK package (which `get` does for register / set_default-by-module / compile-by-module) registers it."""
    mops = []
    for o in ops:
        if o["op"] == "register":
            mops.append({"op": "register", "m": REGNAME.get(o["m"], o["m"]), "valid": not o["m"].startswith("bogus")})
        elif o["op"] == "set_default":
            if o.get("by") == "module":
                mops.append({"op": "register", "m": REGNAME[o["m"]], "valid": True, "silent": True})
            mops.append({"op": "set_default", "m": REGNAME[o["m"]]})
        else:
            a = o["arg"]
            if a["k"] == "none":
                mops.append({"op": "compile", "arg": {"k": "none"}})
            elif a["k"] == "name":
                mops.append({"op": "compile", "arg": {"k": "name", "s": REGNAME.get(a["s"], a["s"])}})
            else:
                if not a["m"].startswith("bogus"):
                    mops.append({"op": "register", "m": REGNAME[a["m"]], "valid": True, "silent": True})
                mops.append({"op": "compile", "arg": {"k": "module", "m": REGNAME.get(a["m"], a["m"]), "valid": not a["m"].startswith("bogus")}})
    return {"prop": "C15", "op": "registry", "registered": [], "ops": mops}, [not m.get("silent") for m in mops]


def judge_registry(ops, im, mo, visible):
    if "worker_error" in im:
        yield ("corr", f"registry worker failed: {im['worker_error']}", None)
        return
    mt = [t for t, v in zip(mo["trace"], visible) if v]
    inv = {v: k for k, v in REGNAME.items()}
    for k, (o, got, want) in enumerate(zip(ops, im["trace"], mt)):
        if o["op"] == "compile":
            w = want["pdk"]
            if w is None:
                if "raised" not in got:
                    yield ("pred", {"why": f"op {k} {o}: no PDK can be determined, but {got} was used", "ops": ops}, None)
            else:
                if got.get("pdk") != DOMAIN[inv[w]]:
                    yield ("pred", {"why": f"op {k} {o}: PDK {inv[w]} must be used (by default / by name / by module), got {got}", "ops": ops}, None)
        elif o["op"] == "register":
            if want["registered"] != ("registered" in got):
                yield ("corr", {"why": f"op {k} {o}: model registered={want['registered']}, implementation {got}"}, None)
        else:
            if want["ok"] != ("ok" in got):
                yield ("corr", {"why": f"op {k} {o}: model ok={want['ok']}, implementation {got}"}, None)


# ------------------------------------------------------------------------------------------------ logic cells

def cell_names():
    import importlib

    out = []
    for pkg, subs in (("sky130_hdl21.digital_cells", ["high_density", "high_speed", "low_leakage", "low_power", "low_speed", "medium_speed"]),
                      ("gf180_hdl21.digital_cells", ["nine_track", "seven_track"])):
        for s in subs:
            m = importlib.import_module(f"{pkg}.{s}")
            for n, v in vars(m).items():
                if isinstance(v, h.ExternalModule):
                    out.append([f"{pkg}.{s}", n])
    return out


def impl_cells(batch):
    import importlib

    res = []
    for modname, name in batch:
        em = getattr(importlib.import_module(modname), name)
        try:
            m = h.Module(name="CellTb")
            conns = {}
            for p in em.port_list:
                sig = h.Signal(name="n_" + p.name.replace("[", "_").replace("]", "_"))
                m.add(sig)
                conns[p.name] = sig
            inst = h.Instance(of=em(em.paramtype()), name="u")
            for p, s in conns.items():
                inst.connect(p, s)
            m.add(inst)
            pkg = h.to_proto(m)
            pj = observe.pkg_json(pkg)
            top = pj["modules"][-1]
            ext = next(e for e in pj["ext_modules"] if e["name"] == em.name)
            bad = None
            if sorted(c[0] for c in top["instances"][0]["conns"]) != sorted(p["n"] for p in ext["ports"]) or len(ext["ports"]) != len(em.port_list):
                bad = "ports of the exported cell are not each connected exactly once"
            if len({p["n"] for p in ext["ports"]}) != len(ext["ports"]):
                bad = "duplicate port names"
            fm = {}
            for fmt in ("spice", "spectre"):
                try:
                    s = io.StringIO()
                    h.netlist(pkg, s, fmt=fmt)
                    fm[fmt] = "ok" if em.name in s.getvalue() else "cell name missing from netlist"
                except Exception as ex:  # noqa
                    fm[fmt] = common.errstr(ex)
            res.append({"cell": name, "bad": bad, **fm})
        except Exception as ex:  # noqa
            res.append({"cell": name, "error": common.errstr(ex)})
    return res


# ------------------------------------------------------------------------------------------------ run

# ---- sizes given as expressions (Literal): whatever the PDK does to a given size, it does it to the whole expression
LIT_EXPRS = ["a", "a+b", "a-b", "2*a+b", "b+a*c", "-a+b", "a/b+c"]
LIT_ENV = {"a": Fraction(3, 7), "b": Fraction(5, 11), "c": Fraction(13, 3)}


def lit_eval(text):
    """Value of an arithmetic expression over a, b, c (numbers, + - * /, parentheses), exactly."""
    import ast
    from decimal import Decimal

    def ev(n):
        if isinstance(n, ast.Expression):
            return ev(n.body)
        if isinstance(n, ast.BinOp) and isinstance(n.op, (ast.Add, ast.Sub, ast.Mult, ast.Div)):
            x, y = ev(n.left), ev(n.right)
            return {ast.Add: x + y, ast.Sub: x - y, ast.Mult: x * y, ast.Div: x / y if y else None}[type(n.op)]
        if isinstance(n, ast.UnaryOp) and isinstance(n.op, (ast.USub, ast.UAdd)):
            return -ev(n.operand) if isinstance(n.op, ast.USub) else ev(n.operand)
        if isinstance(n, ast.Name) and n.id in LIT_ENV:
            return LIT_ENV[n.id]
        if isinstance(n, ast.Constant) and isinstance(n.value, (int, float)) and not isinstance(n.value, bool):
            return Fraction(Decimal(repr(n.value)))
        raise ValueError(f"not arithmetic: {ast.dump(n)[:80]}")
    return ev(ast.parse(text.strip(), mode="eval"))


def literal_size_cases(tables):
    cases = []
    for pdk in ("sky130", "gf180"):
        t = tables[pdk]
        specs = [{"prim": "Mos", "tp": tp, "vth": vth, "fam": fam} for tp, vth, fam in (("NMOS", "STD", "CORE"), ("PMOS", "LOW", "CORE"), ("NMOS", "STD", "NONE"), ("PMOS", "STD", "IO"))]
        for table, prim in (("ress", "PhysicalResistor"), ("caps", "PhysicalCapacitor"), ("diodes", "Diode")):
            specs += [{"prim": prim, "model": e["key"]} for e in t[table][:2]]
        for spec in specs:
            for field in ("w", "l"):
                cases.append({"pdk": pdk, "spec": spec, "field": field})
    return cases


def impl_literal_sizes(case):
    """The same request with the size `field` given as each of LIT_EXPRS: the text of that parameter on the compiled device."""
    import hdl21.primitives as hp
    spec, out = case["spec"], {}
    pdk = pdk_module(case["pdk"])
    for expr in LIT_EXPRS:
        kw = {case["field"]: h.Literal(expr)}
        if spec.get("model"):
            kw["model"] = spec["model"]
        for f, en in (("tp", hp.MosType), ("vth", hp.MosVth), ("fam", hp.MosFamily)):
            if spec.get(f):
                kw["family" if f == "fam" else f] = en[spec[f]]
        try:
            call = getattr(hp, spec["prim"])(**kw)
            m = h.Module(name="DutL")
            conns = {}
            for p in call.prim.port_list:
                setattr(m, "s_" + p.name, h.Signal())
                conns[p.name] = getattr(m, "s_" + p.name)
            m.x = call(**conns)
            pdk.compile(m)
            params = m.x.of.params
            params = params if isinstance(params, dict) else {k: getattr(params, k) for k in getattr(params, "__dataclass_fields__", {})}
            # the device's parameter that carries the expression (a PDK may call it w, l, or something else)
            lits = {k: v.text for k, v in params.items() if isinstance(v, h.Literal) and any(ch in v.text for ch in "abc")}
            out[expr] = {"lits": lits}
        except Exception as ex:  # noqa
            out[expr] = {"refused": common.errstr(ex)}
    return out


def judge_literal_sizes(case, im):
    base = im.get("a", {})
    if "lits" not in base or len(base["lits"]) != 1:
        return          # the PDK does not take this size as an expression (or spreads it over several parameters): nothing to compare
    (pname, btxt), = base["lits"].items()
    try:
        k = lit_eval(btxt) / LIT_ENV["a"]     # what the PDK does to a given size: a factor
    except Exception:  # noqa
        return
    for expr in LIT_EXPRS[1:]:
        r = im.get(expr, {})
        if "lits" not in r:
            yield ("pred", f"size {case['field']}=Literal({expr!r}) refused where Literal('a') compiles: {r.get('refused')}")
            continue
        if pname not in r["lits"]:
            yield ("pred", f"size {case['field']}=Literal({expr!r}): the device's `{pname}` no longer carries the expression: {r['lits']}")
            continue
        try:
            got = lit_eval(r["lits"][pname])
        except Exception as ex:  # noqa
            continue            # a spelling this evaluator does not read: no verdict
        want = k * lit_eval(expr)
        if got != want:
            yield ("pred", {"why": f"the given size is not preserved: {case['field']}=Literal({expr!r}) compiles to {pname}={r['lits'][pname]!r}, which is {float(got):.6g} at a=3/7, b=5/11, c=13/3; "
                                   f"the whole expression scaled as a single name is scaled ({float(k):.6g}x) would be {float(want):.6g}"})


def repair_cases(tables):
    out = []
    for pdk in ("sky130", "gf180"):
        keys = [e["key"] for e in tables[pdk]["xtors"]]
        out.append({"pdk": pdk, "good": [keys[0], keys[1 % len(keys)], keys[-1]], "bad_at": 1})
        out.append({"pdk": pdk, "good": [keys[-1], keys[0], keys[2 % len(keys)]], "bad_at": 0})
    return out


def impl_repair(case):
    """A compile that fails half-way through a module (a model name no device has), the instance mended in place, the same modules compiled
    again: every mapped primitive is replaced, as in the twin that never failed (seed C15-r8-1: modules remembered as walked)."""
    import hdl21.primitives as hp

    pdk = pdk_module(case["pdk"])

    def build(tag, models):
        leaf = h.Module(name=f"RLeaf{tag}")
        leaf.d, leaf.g, leaf.s, leaf.b = h.Port(), h.Port(), h.Port(), h.Port()
        for k, mdl in enumerate(models):
            leaf.add(hp.Mos(model=mdl)(d=leaf.d, g=leaf.g, s=leaf.s, b=leaf.b), name=f"m{k + 1}")
        top = h.Module(name=f"RTop{tag}")
        top.d, top.g, top.s, top.b = h.Signals(4)
        top.l1 = leaf(d=top.d, g=top.g, s=top.s, b=top.b)
        top.l2 = leaf(d=top.d, g=top.g, s=top.s, b=top.b)
        top.m = hp.Mos(model=case["good"][-1])(d=top.d, g=top.g, s=top.s, b=top.b)
        return top, leaf

    def snap(top, leaf):
        return {f"leaf.{n}": describe_call(i.of) for n, i in leaf.instances.items()} | {"top.m": describe_call(top.m.of)}

    good = case["good"]
    try:
        twin, tleaf = build("T", good)
        pdk.compile(twin)
        want = snap(twin, tleaf)
        models = list(good)
        models[case["bad_at"]] = "NO_SUCH_MODEL"
        top, leaf = build("R", models)
        try:
            pdk.compile(top)
            return {"error": "the compile with an unknown model name was expected to fail"}
        except RuntimeError:
            pass
        bad = leaf.instances[f"m{case['bad_at'] + 1}"]
        bad.of = hp.Mos(model=good[case["bad_at"]])
        pdk.compile(top)
        got = snap(top, leaf)
    except Exception as ex:  # noqa
        return {"error": common.errstr(ex)}
    return {"want": want, "got": got}


def load_tables():
    p = subprocess.run([sys.executable, os.path.join(os.path.dirname(os.path.dirname(os.path.abspath(__file__))), "dump_pdk_tables.py")], capture_output=True, text=True, timeout=300)
    return json.loads(p.stdout.strip().splitlines()[-1])


def run(ctx):
    rep, rng = ctx.rep, ctx.rng
    rep.extra["rule"] = (
        "tables: every entry of every Sky130 / Gf180 device table x reaching primitive(s) x given/default sizes, all 72 type/family/threshold "
        "triples per PDK, sample + ASAP7 parameter spaces (exhaustive); hierarchy: generated hierarchies x 4 PDKs x once/twice x 3 ways of naming "
        "the PDK; registry: random op sequences in fresh interpreters; cells: logic-cell modules instantiated and netlisted "
        "(quick: a sample; thorough: all); non-trivial = compiled; distinct = distinct case JSON"
    )
    tables = load_tables()
    stats = {}
    # ---- tables
    cases = tables_cases(rng, tables, ctx.quick)
    impls = common.pmap_fresh(impl_single, cases) if hasattr(common, "pmap_fresh") and False else common.pmap(impl_single, cases, chunk=1)
    mos = ctx.drv.run([model_line_single(c) if c["pdk"] in ("sky130", "gf180") else {"prop": "C15", "op": "select_mos", "pdk": "gf180", "tp": "NMOS", "vth": "STD", "fam": "CORE"} for c in cases])
    stats["tables"] = {"cases": len(cases), "compiled": 0, "refused": 0}
    for c, im, mo in zip(cases, impls, mos):
        stats["tables"]["compiled" if "of" in im else "refused"] += 1
        rep.count("tables", json.dumps(c), nontrivial="of" in im)
        for kind, detail, fkey in judge_single(c, im, mo, tables):
            rep.fail(kind, {"stream": "tables", "case": c}, {"detail": detail, "refused": im.get("refused")}, finding_key=fkey)
    # ---- sizes given as expressions
    lc = literal_size_cases(tables)
    stats["literal_sizes"] = {"cases": len(lc), "compared": 0}
    for c, im in zip(lc, common.pmap(impl_literal_sizes, lc, chunk=2)):
        compared = "lits" in im.get("a", {}) and len(im["a"]["lits"]) == 1
        stats["literal_sizes"]["compared"] += compared
        rep.count("literal_sizes", json.dumps(c), nontrivial=compared)
        for kind, detail in judge_literal_sizes(c, im) or []:
            rep.fail(kind, {"stream": "literal_sizes", "case": c}, {"detail": detail})
    rep.extra["exhaustive"] = False  # only the tables stream is; see exhaustive_part
    rep.extra["exhaustive_part"] = "tables stream: every table entry and every triple (the hierarchy, registry and cells streams are sampled)"
    # ---- hierarchy
    n = 120 if ctx.quick else 2000
    hc = hier_cases(rng, n)
    hi = common.pmap(impl_hier, hc, chunk=1)
    lines, idx = [], []
    for c, im in zip(hc, hi):
        if "before" in im:
            idx.append(len(lines))
            lines.append(hier_model_line(c, im))
            lines.append({"prop": "SEM", "op": "sem", "top": c["design"]["top"], "design": c["design"], "pkg": im["pkg"], "pkg_top": im["top"]} if "pkg" in im else
                         {"prop": "SEM", "op": "sem", "top": c["design"]["top"], "design": c["design"]})
        else:
            idx.append(None)
    outs = ctx.drv.run(lines) if lines else []
    stats["hierarchy"] = {"cases": len(hc), "compiled": 0, "refused": 0, "twice": sum(c["twice"] for c in hc), "mos_instances": sum(c["nmos"] for c in hc)}
    for c, im, ix in zip(hc, hi, idx):
        stats["hierarchy"]["refused" if "refused" in im else "compiled"] += 1
        rep.count("hierarchy", json.dumps(c), nontrivial="before" in im and "refused" not in im and c["nmos"] > 0)
        mo, sem = (outs[ix], outs[ix + 1]) if ix is not None else ({}, None)
        for kind, detail, fkey in judge_hier(c, im, mo, sem if "pkg" in im else None):
            rep.fail(kind, {"stream": "hierarchy", "case": c}, {"detail": detail, "refused": im.get("refused")}, finding_key=fkey)
    # ---- alone versus among others: what a request compiles to must not depend on the requests the process saw before
    # (the PDKs keep per-parameter caches of device calls at module level)
    alone = {}
    for c in hc:
        for m in c["design"]["modules"]:
            for i in m["insts"]:
                if i["of"].get("py", {}).get("k") == "mos":
                    alone.setdefault((c["pdk"], json.dumps(i["of"]["py"]["spec"], sort_keys=True)), None)
    akeys = list(alone)
    for key, res in zip(akeys, common.pmap(impl_single, [{"pdk": p_, "spec": json.loads(sp)} for p_, sp in akeys], chunk=1)):
        alone[key] = res
    for c, im in zip(hc, hi):
        if "after" not in im or "refused" in im:
            continue
        byname = {m["name"]: m for m in c["design"]["modules"]}
        for ma in im["after"]:
            for ia in ma["insts"]:
                dj = next((i for i in byname.get(ma["name"], {"insts": []})["insts"] if i["n"] == ia["n"]), None)
                if dj is None or dj["of"].get("py", {}).get("k") != "mos" or ia["t"]["k"] != "ext":
                    continue
                ref = alone[(c["pdk"], json.dumps(dj["of"]["py"]["spec"], sort_keys=True))]
                rep.count("alone_vs_among", json.dumps([c["pdk"], dj["of"]["py"]["spec"], ma["name"], ia["n"], c["design"]["modules"][-1]["insts"][0]["n"]]))
                if "of" in ref and (ref["of"]["name"], ref["of"]["params"]) != (ia["t"]["desc"]["name"], ia["t"]["desc"]["params"]):
                    rep.fail("pred", {"stream": "alone_vs_among", "case": c, "instance": f"{ma['name']}.{ia['n']}"},
                             {"why": "a request compiled among other requests gives another device call than the same request compiled alone",
                              "request": dj["of"]["py"]["spec"], "alone": ref["of"], "among": ia["t"]["desc"]})
                    break
    # ---- a failed compile, mended and run again
    rcs = repair_cases(tables)
    stats["repair"] = {"cases": len(rcs)}
    for c, im in zip(rcs, common.pmap(impl_repair, rcs, chunk=1)):
        rep.count("repair", json.dumps(c), nontrivial="got" in im)
        if "error" in im:
            rep.fail("corr", {"stream": "repair", "case": c}, {"detail": im["error"]})
        elif im["got"] != im["want"]:
            left = sorted(k for k, v in im["got"].items() if v != im["want"][k])
            rep.fail("pred", {"stream": "repair", "case": c}, {"why": "after a failed compile was mended and run again, these instances are not what the never-failed twin has",
                                                               "instances": left, "got": {k: im["got"][k] for k in left[:3]}})
    # ---- registry
    rc = registry_corpus() + registry_cases(rng, 24 if ctx.quick else 300)
    ri = common.pmap(run_registry, rc, chunk=1)
    ml = [registry_model_line(o) for o in rc]
    rm = ctx.drv.run([l for l, _ in ml])
    stats["registry"] = {"sequences": len(rc), "ops": sum(len(o) for o in rc)}
    for ops, im, mo, (_, vis) in zip(rc, ri, rm, ml):
        rep.count("registry", json.dumps(ops), nontrivial=True)
        for kind, detail, fkey in judge_registry(ops, im, mo, vis):
            rep.fail(kind, {"stream": "registry", "case": ops}, {"detail": detail})
    # ---- cells
    names = cell_names()
    stats["cells"] = {"total": len(names)}
    if ctx.quick:
        names = rng.sample(names, 160)
    batches = [names[k:k + 40] for k in range(0, len(names), 40)]
    checked = 0
    for res in common.pmap(impl_cells, batches, chunk=1):
        for r in res:
            checked += 1
            rep.count("cells", r["cell"], nontrivial="error" not in r)
            if "error" in r or r.get("bad") or r.get("spice") != "ok" or r.get("spectre") != "ok":
                rep.fail("pred", {"stream": "cells", "case": r["cell"]}, {"detail": r})
    stats["cells"]["checked"] = checked
    rep.extra["pdk_stats"] = stats
    rep.sample({"tables_case": cases[0], "registry_case": rc[0]})


def replay(ctx, rp):
    stream, case = rp["case"]["stream"], rp["case"]["case"]
    tables = load_tables()
    fails = []
    if stream == "tables":
        im = impl_single(case)
        (mo,) = ctx.drv.run([model_line_single(case) if case["pdk"] in ("sky130", "gf180") else {"prop": "C15", "op": "select_mos", "pdk": "gf180", "tp": "NMOS", "vth": "STD", "fam": "CORE"}])
        fails = list(judge_single(case, im, mo, tables))
    elif stream == "hierarchy":
        (im,) = common.pmap(impl_hier, [case], chunk=1)
        outs = ctx.drv.run([hier_model_line(case, im)]) if "before" in im else [{}]
        fails = list(judge_hier(case, im, outs[0], None))
    elif stream == "registry":
        im = run_registry(case)
        l, vis = registry_model_line(case)
        (mo,) = ctx.drv.run([l])
        fails = list(judge_registry(case, im, mo, vis))
    else:
        print("replay of a logic cell: rerun the check")
    print(json.dumps({"failures": [(f[0], f[1]) for f in fails]}, default=str)[:3000])
    known = {k.get("match") for k in common.load_known() if k.get("status") == "known"}
    if any(f[0] == "pred" and f[2] not in known for f in fails):
        print(f"VIOLATION property=C15 replay={rp.get('_path')}")
        return 1
    return 1 if any(f[2] not in known for f in fails) else 0
