"""C08 — a failed elaboration or generator call does not poison later ones.

Failure points: every (pass position, module) of small generated designs, injected through a custom pass list with a
raising pass; real design faults caught by the checking passes (C02-style mutants); a generator body that raises once.
Continuations after the failure, in the same process: retry unchanged, restore the default elaborator and retry,
elaborate an unrelated design, elaborate a design sharing sub-modules that does not contain the offending module.
Every package returned afterwards must equal the package a fresh process returns for that design; a retry must report
the original error again; a half-rewritten module must never be exported.
"""
import hashlib
import io
import json
import importlib

import common
import designs
import build
import gen_design

h = common.repo_env()

ASSUMPTIONS = [
    "'the original error again' is judged on exception type and message (the code re-raises the stored exception object)",
    "after a failure inside a module, that module may refuse to elaborate for good (it may be half-rewritten); raising is always acceptable, "
    "returning a package a fresh process would not return is not",
]
TRUSTED = ["fresh fork per scenario"]


def digest(pkg):
    return hashlib.md5(pkg.SerializeToString(deterministic=True)).hexdigest()


def try_export(m):
    try:
        return {"ok": digest(h.to_proto(m))}
    except Exception as ex:  # noqa
        return {"raise": f"{type(ex).__name__}: {str(ex)[-160:]}"}


def scenario(case):
    """One failure + continuations in one (fresh) process."""
    elab = importlib.import_module("hdl21.elab")
    passes = importlib.import_module("hdl21.elab.passes")
    d = case["design"]
    out = {}
    b = build.build(d, case.get("style", "proc"))
    kind = case["kind"]
    if kind == "inject":
        target, pos = case["module"], case["pos"]

        class Boom(passes.ElabPass):
            def elaborate_module(self, module):
                if module.name == target:
                    raise RuntimeError("boom: injected failure")
                return module

        default = elab.Elaborator.default().passes
        elab.set_elaborator(elab.Elaborator(passes=default[:pos] + [Boom] + default[pos:]))
        out["first"] = try_export(b.top)
        out["retry_same"] = try_export(b.top)
        elab.reset_elaborator()
        out["retry_default"] = try_export(b.top)
        offending = target
    elif kind == "fault":
        out["first"] = try_export(b.top)
        out["retry_same"] = try_export(b.top)
        out["retry_default"] = try_export(b.top)
        offending = case.get("module") if "raise" in out["first"] else None
    elif kind == "midpass":
        # a failure in the middle of whichever pass makes the n-th `Module.add` of the elaboration (rewriting passes add what they
        # have just popped), of any exception type; the top possibly anonymous; the designer edits before trying again
        import sys as _sys
        hm = _sys.modules["hdl21.module"]
        exc = {"RuntimeError": RuntimeError, "TypeError": TypeError, "ValueError": ValueError, "KeyError": KeyError, "AssertionError": AssertionError}[case["exc"]]
        if case.get("anon_top"):
            b.top.name = None
        orig_add = hm.Module.add
        state = {"n": 0}

        def sabotaged(self, *a, **k):
            state["n"] += 1
            if state["n"] == case["nth"]:
                state["module"] = self.name if self.name is not None else d["top"]
                raise exc("boom: injected failure in the middle of a pass")
            return orig_add(self, *a, **k)

        hm.Module.add = sabotaged
        try:
            out["first"] = try_export(b.top)
        finally:
            hm.Module.add = orig_add
        out["adds"] = state["n"]
        out["retry_same"] = try_export(b.top)
        # the designer's edits
        if case.get("anon_top"):
            b.top.name = d["top"]
        if case.get("edit") == "signal":
            try:
                b.top.add(h.Signal(name="zz_late", width=1))
            except Exception as ex:  # noqa
                out["edit_refused"] = common.errstr(ex)
        if case.get("edit") == "reassign":
            # an attribute the module still has is assigned again (same name, same kind, nothing connected to it)
            try:
                b.top.zz_spare = h.Signal(width=1)
            except Exception as ex:  # noqa
                out["edit_refused"] = common.errstr(ex)
        out["retry_default"] = try_export(b.top)
        out["retry_again"] = try_export(b.top)
        offending = None
        if "raise" in out["first"]:
            # the modules that may be half-rewritten: those the failed call was inside of (everything that contains one is off limits too)
            offending = state.get("module")
            out["offending"] = offending
    else:
        raise ValueError(kind)
    # a design sharing sub-modules: every module of the design that does not contain the offending one
    out["others"] = {}
    contains = contains_map(d)
    for m in d["modules"]:
        if offending is not None and offending not in contains[m["name"]]:
            out["others"][m["name"]] = try_export(b.modules[m["name"]])
    # a *new* parent around every module that does not contain the offending one (a design sharing sub-modules)
    out["new_parents"] = {}
    for m in d["modules"]:
        if offending is not None and offending not in contains[m["name"]]:
            try:
                out["new_parents"][m["name"]] = try_export(new_parent(b, d, m["name"]))
            except Exception as ex:  # noqa
                out["new_parents"][m["name"]] = {"raise": common.errstr(ex)}
    # an unrelated design
    u = build.build(case["unrelated"], "proc")
    out["unrelated"] = try_export(u.top)
    return out


def new_parent(b, d, name):
    """A fresh module instantiating module `name` of the built design, every port tied to a fresh signal / bundle instance."""
    mj = next(m for m in d["modules"] if m["name"] == name)
    p = h.Module(name=f"NewParent_{name}")
    conns = {}
    for s in mj["sigs"]:
        if s["port"]:
            conns[s["n"]] = p.add(h.Signal(name=f"w_{s['n']}", width=s["w"]))
    for bi in mj["bundles"]:
        if bi["port"]:
            conns[bi["n"]] = p.add(b.bundles[bi["of"]](), name=f"wb_{bi['n']}")
    p.add(b.modules[name](**conns), name="child")
    return p


def fresh_new_parent(job):
    d, name = job
    b = build.build(d, "proc")
    return try_export(new_parent(b, d, name))


def contains_map(d):
    cm = {}
    for m in d["modules"]:
        s = {m["name"]}
        for i in m["insts"]:
            if i["of"]["k"] == "module":
                s |= cm.get(i["of"]["name"], {i["of"]["name"]})
        cm[m["name"]] = s
    return cm


def fresh_digest(job):
    d, name = job
    b = build.build(d, "proc")
    return try_export(b.modules[name])


def generator_scenario(seed):
    """A generator body that raises once, then works; and a nested generator below it."""
    calls = {"n": 0}

    @h.paramclass
    class P:
        w = h.Param(dtype=int, desc="w")

    @h.generator
    def Inner(p: P) -> h.Module:
        m = h.Module()
        m.a = h.Port(width=p.w)
        return m

    @h.generator
    def Flaky(p: P) -> h.Module:
        calls["n"] += 1
        inner = Inner(w=p.w)
        if calls["n"] == 1:
            if seed % 2:
                return None  # fails the result check, after the body returned
            raise ValueError("flaky generator body")
        m = h.Module()
        m.s = h.Signal(width=p.w)
        m.i = inner(a=m.s)
        return m

    out = {}
    for k in ("first", "second", "third"):
        try:
            m = Flaky(w=2 + seed % 3)
            out[k] = {"ok": [m.name, calls["n"], digest(h.to_proto(m))]}
        except Exception as ex:  # noqa
            out[k] = {"raise": f"{type(ex).__name__}: {str(ex)[:80]}"}
    try:
        other = Flaky(w=7)
        out["other_params"] = {"ok": other.name}
    except Exception as ex:  # noqa
        out["other_params"] = {"raise": f"{type(ex).__name__}: {str(ex)[:80]}"}
    return out



def _peek(fn):
    """A private field of Hdl21, if this tree still has it under that name; None otherwise. The correspondence is decided by what
    the public interface shows (which bodies / passes ran, what came back, by identity); private fields are compared in addition
    where they exist, and a tree that keeps its books differently is not thereby wrong."""
    try:
        return fn()
    except (AttributeError, TypeError, KeyError):
        return None


def _gen_cache_view(G):
    cache = _peek(lambda: h.generator.cache)
    done = _peek(lambda: sorted(c.params.w for c in cache.done if c.gen is G))
    pending = _peek(lambda: len(cache.pending))
    stack = _peek(lambda: len(cache.stack))
    return {"done": done, "pending": pending, "stack": stack}


def genrun_trace(plan):
    """plan: [(param value, 'ok' | 'raise' | 'none')] — calls of one generator whose body behaves as planned each time it runs.
    -> per call: result (module number by identity / failed), the cache's done keys, pending and stack sizes."""
    mode = {"now": "ok"}
    mods = []

    @h.paramclass
    class P:
        w = h.Param(dtype=int, desc="w")

    ran = []

    @h.generator
    def G(p: P) -> h.Module:
        ran.append(p.w)
        if mode["now"] == "raise":
            raise ValueError("planned failure")
        if mode["now"] == "none":
            return None
        m = h.Module()
        m.a = h.Port(width=p.w + 1)
        return m

    trace = []
    for w, what in plan:
        mode["now"] = what
        ran.clear()
        try:
            m = G(w=w)
            if not any(m is x for x in mods):
                mods.append(m)
            res = {"module": next(k for k, x in enumerate(mods) if x is m)}
        except Exception as ex:  # noqa
            res = "failed"
        trace.append(dict(_gen_cache_view(G), result=res, ran=list(ran)))
    return trace



def genrun_trace_uncached(plan):
    """The plan of `genrun_trace` on a generator made with `enable_cache=False`."""
    mode = {"now": "ok"}
    mods, ran, trace = [], [], []

    @h.paramclass
    class P:
        w = h.Param(dtype=int, desc="w")

    @h.generator(enable_cache=False)
    def G(p: P) -> h.Module:
        ran.append(p.w)
        if mode["now"] == "raise":
            raise ValueError("planned failure")
        if mode["now"] == "none":
            return None
        m = h.Module()
        m.a = h.Port(width=p.w + 1)
        return m

    for w, what in plan:
        mode["now"] = what
        ran.clear()
        try:
            m = G(w=w)
            if not any(m is x for x in mods):
                mods.append(m)
            res = {"module": next(k for k, x in enumerate(mods) if x is m)}
        except Exception as ex:  # noqa
            res = "failed: " + type(ex).__name__ + ": " + str(ex)[-80:]
        trace.append({"result": res, "ran": list(ran)})
    return trace


def gen_events(rng, depth=0):
    """a random event tree: the call, what its body does this time (nested calls, catch or not, return / raise / return None)"""
    ev = {"c": rng.randrange(4)}
    how = rng.choice(["ok", "ok", "ok", "raise", "none", "interrupt", "exit"])
    if how == "ok":
        ev["ok"] = 0
    else:
        ev["how"] = how
    if depth < 3:
        ev["nested"] = [gen_events(rng, depth + 1) for _ in range(rng.choice([0, 0, 1, 1, 2]))]
    ev["catches"] = rng.random() < 0.5
    return ev


def nested_trace(evs):
    """Top-level calls of one generator whose bodies follow the event trees. -> per top-level call: module by identity /
    failed / circular, the cache's done keys, pending and stack sizes; and the calls whose bodies ran, in order."""
    cursor, mods, ran = [], [], []

    @h.paramclass
    class P:
        w = h.Param(dtype=int, desc="w")

    def body(p: P) -> h.Module:
        ev = cursor[-1]
        assert ev["c"] == p.w
        ran.append(p.w)
        for sub in ev.get("nested", []):
            cursor.append(sub)
            try:
                G(w=sub["c"]) if len(cursor) % 2 else G(P(w=sub["c"]))
            except BaseException:  # noqa
                if not ev.get("catches"):
                    raise
            finally:
                cursor.pop()
        if "ok" in ev:
            m = h.Module()
            m.a = h.Port(width=p.w + 1)
            return m
        if ev["how"] == "none":
            return None
        if ev["how"] == "interrupt":
            raise KeyboardInterrupt("planned interrupt")  # user code is not ended by `Exception`s only
        if ev["how"] == "exit":
            raise SystemExit(3)
        raise ValueError("planned failure")

    body.__name__ = "G"
    G = h.generator(body)
    trace = []
    for ev in evs:
        cursor[:] = [ev]
        ran.clear()
        try:
            m = G(w=ev["c"])
            if not any(m is x for x in mods):
                mods.append(m)
            res = {"module": next(k for k, x in enumerate(mods) if x is m), "name": m.name}
        except BaseException as ex:  # noqa
            res = "circular" if "circular" in str(ex) else "failed"
        trace.append(dict(_gen_cache_view(G), result=res, ran=list(ran)))
    return trace


def runner_trace(job):
    """The real runner (ElabPass.elaborate_module_base / Elaborator.elaborate) over a DAG of empty modules and marker passes that
    fail at planned (pass, module) points: after every call, which pass class has completed on which module, and which modules
    remember an error."""
    from hdl21.elab.passes.base import ElabPass
    import hdl21.elab as elab

    children, npasses, fails, calls = job["children"], job["npasses"], {tuple(x) for x in job["fail"]}, job["calls"]
    mods = []
    for k, ch in enumerate(children):
        m = h.Module(name=f"N{k}")
        for j, c in enumerate(ch):
            m.add(h.Instance(of=mods[c]), name=f"i{j}")
        mods.append(m)
    idx = {id(m): k for k, m in enumerate(mods)}

    completed = [[] for _ in range(npasses)]  # per marker pass: the modules it has run to completion on, in order, all calls

    def mkpass(k):
        class Marker(ElabPass):
            def elaborate_module(self, module):
                if (k, idx[id(module)]) in fails:
                    raise RuntimeError(f"planned failure of pass {k} on {module.name}")
                completed[k].append(idx[id(module)])
                return module
        Marker.__name__ = f"Marker{k}"
        return Marker

    passes = [mkpass(k) for k in range(npasses)]
    e = elab.Elaborator(passes=passes)
    trace = []
    for tops in calls:
        try:
            e.elaborate([mods[t] for t in tops])
            ok = True
        except Exception:  # noqa
            ok = False
        # what the public interface shows: on which modules each pass has completed (a module twice = the pass ran on it again)
        trace.append({"ok": ok, "done": [sorted(set(c)) for c in completed], "twice": [sorted(x for x in set(c) if c.count(x) > 1) for c in completed],
                      # private books, where this tree has them under these names
                      "done_internal": _peek(lambda: [sorted(idx[id(m)] for m in p.CLASS_LEVEL_CACHE.done) for p in passes]),
                      "failed": _peek(lambda: sorted(k for k, m in enumerate(mods) if m._elab_error is not None)),
                      "pending": _peek(lambda: sum(len(p.CLASS_LEVEL_CACHE.pending) for p in passes))})
    return trace


def runner_jobs(rng, n):
    jobs = []
    for _ in range(n):
        nm = rng.randint(2, 7)
        children = [[]]
        for k in range(1, nm):
            children.append([rng.randrange(k) for _ in range(rng.choice([0, 1, 1, 2, 3]))])
        npasses = rng.randint(1, 4)
        fail = [[rng.randrange(npasses), rng.randrange(nm)] for _ in range(rng.choice([0, 1, 1, 2]))]
        calls = [[rng.randrange(nm) for _ in range(rng.choice([1, 1, 2, 3]))] for _ in range(rng.randint(1, 5))]
        jobs.append({"children": children, "npasses": npasses, "fail": fail, "calls": calls})
    return jobs



# ------------------------------------------------------------------------------------------------ repair and retry
# caught by Orphanage / ConnTypes / ConnTypes / ArrayFlattener / ConnTypes (width of the slice) / MarkModules (the very last pass: every other pass has completed on the parent)
REPAIR_FAULTS = ["orphan", "unconnected", "width", "array_width", "bad_slice", "anonymous"]
# what the replacement needs of the passes that had already completed on the parent: nothing, reference resolution, bundle flattening;
# array flattening (the designer also adds an instance array to the parent); checking (the replacement is wired with a port left open: must be refused)
REPAIRS = ["simple", "refs", "bundle", "plus_array", "open_port"]


def family():
    @h.module
    class Leaf:
        a, b = h.Ports(2)
    @h.bundle
    class Bn:
        x, y = h.Signals(2)
    @h.module
    class GoodSimple:
        p = h.Port()
        q = h.Signal()
        l1 = Leaf(a=p, b=q)
    @h.module
    class GoodRefs:
        p = h.Port()
        l1 = Leaf(a=p)
        l2 = Leaf(a=p, b=l1.b)
    @h.module
    class GoodBundle:
        p = h.Port()
        bp = Bn(port=True)
        l1 = Leaf(a=p, b=bp.x)
        l2 = Leaf(a=p, b=bp.y)
    @h.module
    class GoodTwoPorts:
        p, q = h.Ports(2)
        l1 = Leaf(a=p, b=q)
    return Leaf, Bn, dict(simple=GoodSimple, refs=GoodRefs, bundle=GoodBundle, two_ports=GoodTwoPorts)

def bad(kind, Leaf):
    Bad = h.Module(name="Bad"); Bad.p = h.Port()
    if kind == "orphan":
        Bad.l = Leaf(a=Bad.p, b=h.Signal())
    elif kind == "unconnected":
        Bad.l = Leaf(a=Bad.p)
    elif kind == "width":
        Bad.w = h.Signal(width=3); Bad.l = Leaf(a=Bad.p, b=Bad.w)
    elif kind == "array_width":
        Bad.w = h.Signal(width=3); Bad.arr = h.InstanceArray(Leaf, 2)(a=Bad.p, b=Bad.w)
    elif kind == "bad_slice":
        Bad.w = h.Signal(width=3); Bad.l = Leaf(a=Bad.p, b=Bad.w[5])
    elif kind == "anonymous":
        Bad.q = h.Signal(); Bad.l = Leaf(a=Bad.p, b=Bad.q); Bad.name = None
    return Bad

def top(Leaf, Bn, child, name="Top"):
    Top = h.Module(name=name); Top.p = h.Port(); Top.s = h.Signal()
    Top.keep = Leaf(a=Top.p, b=Top.s)
    kw = dict(p=Top.p)
    if "bp" in getattr(child, "bundles", {}):
        Top.bb = Bn(); kw["bp"] = Top.bb
    Top.c = child(**kw)
    return Top

def _apply_repair(T, Leaf, Bn, goods, repair):
    """The offending child `T.c` is replaced (and, for some repairs, something else is added)."""
    if repair == "plus_array":
        T.c = goods["simple"](p=T.p)
        T.w2 = h.Signal(width=2)
        T.arr = 2 * Leaf(a=T.p, b=T.w2)
    elif repair == "open_port":
        T.c = goods["two_ports"](p=T.p)          # `q` is left unconnected
    else:
        kw = dict(p=T.p)
        if repair == "bundle":
            T.bb = Bn(); kw["bp"] = T.bb
        T.c = goods[repair](**kw)


def _outcome(f):
    try:
        return "pkg " + hashlib.md5(f().SerializeToString(deterministic=True)).hexdigest()
    except Exception as e:
        return "raised " + type(e).__name__ + ": " + str(e).splitlines()[-1][:90]


def repair_case(fr):
    fault, repair = fr
    # what a fresh process makes of the repaired design: the same edits on a parent whose child was healthy all along
    Leaf, Bn, goods = family()
    R = top(Leaf, Bn, goods["simple"])
    _apply_repair(R, Leaf, Bn, goods, repair)
    ref = _outcome(lambda: h.to_proto(R))
    Leaf, Bn, goods = family()
    T = top(Leaf, Bn, bad(fault, Leaf))
    first = _outcome(lambda: h.to_proto(T))
    first = "returned" if first.startswith("pkg") else first[:40]
    try:
        _apply_repair(T, Leaf, Bn, goods, repair)
        got = _outcome(lambda: h.to_proto(T))
    except Exception as e:
        got = "raised (while editing) " + type(e).__name__ + ": " + str(e).splitlines()[-1][:90]
    if got.startswith("pkg"):
        res = "equal" if got == ref else ("DIFFERENT PACKAGE" if ref.startswith("pkg") else "RETURNED A PACKAGE; fresh: " + ref)
    elif ref.startswith("raised"):
        res = "equal"                             # refused, as a fresh process refuses it (the wording is not compared)
    else:
        res = got
    return {"first": first, "repaired": res}


INPLACE_FAULTS = ["unconnected", "width", "orphan"]
INPLACE_EXTRAS = ["nothing", "pair", "pair_scalar", "array", "noconn", "refs", "bundle"]


def inplace_case(fe):
    """The fault is in `Top` itself and a checking pass refuses it; the designer mends the connection *in place*, adds something that
    needs a rewriting pass, and exports again. Whether a module that failed may be mended at all is the library's choice (it refuses
    with the first error); what must not come back is a package other than the one a fresh process builds from the mended design."""
    fault, extra = fe

    def build(healthy):
        Leaf, Bn, goods = family()
        T = h.Module(name="Top"); T.p = h.Port(); T.s = h.Signal()
        T.keep = Leaf(a=T.p, b=T.s)
        if healthy:
            T.c = Leaf(a=T.p, b=T.s)
        elif fault == "unconnected":
            T.c = Leaf(a=T.p)
        elif fault == "width":
            T.w3 = h.Signal(width=3); T.c = Leaf(a=T.p, b=T.w3)
        else:
            T.c = Leaf(a=T.p, b=h.Signal())
        return T, Leaf, Bn, goods

    def mend(T, Leaf, Bn, goods, healthy):
        if not healthy:
            T.c.b = T.s
            if fault == "width":
                pass                    # w3 stays, unused
        if extra == "pair":
            T.dd = h.Diff(); T.pr = h.Pair(Leaf)(a=T.p, b=T.dd)
        elif extra == "pair_scalar":
            T.pr = h.Pair(Leaf)(a=T.p, b=T.s)
        elif extra == "array":
            T.w2 = h.Signal(width=2); T.arr = 2 * Leaf(a=T.p, b=T.w2)
        elif extra == "noconn":
            T.e = Leaf(a=T.p, b=h.NoConn())
        elif extra == "refs":
            T.e = Leaf(a=T.p); T.f = Leaf(a=T.p, b=T.e.b)
        elif extra == "bundle":
            T.bb = Bn(); T.g = goods["bundle"](p=T.p, bp=T.bb)

    R, *rest = build(True)
    if fault == "width":
        R.w3 = h.Signal(width=3)
    mend(R, *rest, True)
    ref = _outcome(lambda: h.to_proto(R))
    T, *rest = build(False)
    first = _outcome(lambda: h.to_proto(T))
    try:
        mend(T, *rest, False)
        got = _outcome(lambda: h.to_proto(T))
    except Exception as e:
        got = "raised (while editing) " + type(e).__name__
    return {"first": "returned" if first.startswith("pkg") else first[:50], "ref": ref[:60], "got": got[:120]}


def run_inplace(ctx):
    rep = ctx.rep
    cases = [(f, e) for f in INPLACE_FAULTS for e in INPLACE_EXTRAS]
    for (f, e), res in zip(cases, common.pmap_fresh(inplace_case, cases)):
        case = {"stream": "repair_in_place", "fault": f, "extra": e}
        rep.count("repair_in_place", json.dumps(case))
        if not res["first"].startswith("raised"):
            rep.fail("corr", case, {"why": "the planted fault was not refused", "result": res})
        elif res["got"].startswith("pkg") and res["got"] != res["ref"]:
            rep.fail("pred", case, {"why": "after mending a refused module in place a package comes back which a fresh process does not build from the mended design", "result": res},
                     f"inplace-wrong-package:{f}/{e}")


def run_repairs(ctx):
    """The child of `Top` fails in one of the checking / rewriting passes; the designer replaces that instance by a healthy module
    (one that needs nothing of the earlier passes, one with an instance-to-instance reference, one with a bundle port) and
    tries again: `Top` no longer contains the offending module and must come out as in a fresh process."""
    rep = ctx.rep
    cases = [(f, r) for f in REPAIR_FAULTS for r in REPAIRS]
    for (f, r), res in zip(cases, common.pmap_fresh(repair_case, cases)):
        case = {"stream": "repair", "fault": f, "repair": r}
        rep.count("repair", json.dumps(case))
        if not res["first"].startswith("raised"):
            rep.fail("corr", case, {"why": "the planted fault was not refused", "result": res})
        elif res["repaired"] == "equal":
            pass
        elif res["repaired"].startswith("raised"):
            rep.fail("pred", case, {"why": "a design which no longer contains the offending module is refused after the repair (a fresh process builds it)", "result": res},
                     f"repair:{f}/{r}")
        else:
            rep.fail("pred", case, {"why": "after the repair a package comes back which a fresh process does not return", "result": res},
                     f"repair-wrong-package:{f}/{r}")

def run(ctx):
    rep, rng = ctx.rep, ctx.rng
    rep.extra["rule"] = (
        "small generated designs x every (pass position 0..10, module) injection point + design-fault mutants + a generator raising once; "
        "one fresh process per scenario; continuation packages compared with fresh single-call packages; distinct = distinct scenario JSON"
    )
    ndes = 6 if ctx.quick else 40
    cand = designs.gen_cases(rng, 8 * ndes, opts={"max_modules": 3}, styles=("proc",))
    outs = ctx.drv.run([designs.sem_line(c, None) for c in cand])
    good = [c["design"] for c, o in zip(cand, outs) if "ok" in o["src"] and len(c["design"]["modules"]) >= 2][:ndes]
    unrelated = {"bundles": [], "top": "Top", "modules": [{"name": "Top", "sigs": [{"n": "x", "w": 2, "port": True, "dir": "none"}], "bundles": [],
                 "insts": [{"n": "e", "of": gen_design.LEAVES[0], "conns": [["a", {"k": "sig", "n": "x"}], ["b", {"k": "slice", "p": {"k": "sig", "n": "x"}, "i": {"i": 0}}]]}]}]}
    for m in unrelated["modules"]:
        m["name"] = "Unrelated" if m["name"] == "Top" else m["name"]
    unrelated["top"] = "Unrelated"
    npass = 10
    jobs = []
    for d in good:
        reach = reachable(d)
        for m in d["modules"]:
            if m["name"] not in reach:
                continue
            positions = range(npass + 1) if not ctx.quick else [0, 2, 4, 5, 6, 7, 10]
            for pos in positions:
                jobs.append({"kind": "inject", "design": d, "module": m["name"], "pos": pos, "unrelated": unrelated})
    # real design faults
    c02 = importlib.import_module("props.c02")
    for d in good[: max(2, ndes // 2)]:
        for mu in c02.mutants(d, rng, per_class=1):
            jobs.append({"kind": "fault", "design": mu["design"], "fault": mu["class"], "module": mu["site"].split(".")[0], "unrelated": unrelated, "style": mu.get("style", "proc")})
    # faults that a failing pass's own partial rewrite could erase: an extra connection given last on an instance array / pair / plain instance, at the top
    import copy as _copy
    import gen_design as _gd
    for kindkey, extra in (("array", {"array": 2}), ("pair", {"pair": ["p", "n"]}), ("plain", {})):
        R = _copy.deepcopy(_gd.LEAVES[3])
        sigs = [{"n": "a", "w": 1, "port": True, "dir": "none"}, {"n": "b", "w": 1, "port": False, "dir": "none"}, {"n": "zz", "w": 1, "port": False, "dir": "none"}]
        bundles = [{"n": "d1", "of": "Diff", "port": False}, {"n": "d2", "of": "Diff", "port": False}] if kindkey == "pair" else []
        good_conns = [["p", {"k": "bundle", "n": "d1"}], ["n", {"k": "bundle", "n": "d2"}]] if kindkey == "pair" else [["p", {"k": "sig", "n": "a"}], ["n", {"k": "sig", "n": "b"}]]
        inst = dict({"n": "x1", "of": R, "conns": good_conns + [["no_such_port", {"k": "sig", "n": "zz"}]]}, **extra)
        dd = {"bundles": [_gd.DIFF] if kindkey == "pair" else [], "modules": [{"name": "Top", "sigs": sigs, "bundles": bundles, "insts": [inst]}], "top": "Top"}
        jobs.append({"kind": "fault", "design": dd, "fault": f"extra_connection_last_on_{kindkey}", "module": "Top", "unrelated": unrelated, "style": "proc"})
    # failures in the middle of a pass: the n-th Module.add of the elaboration raises (any exception type); anonymous tops; edits afterwards
    mid_designs = good + [mid_corpus_design()]
    for d0 in mid_designs:
        d = with_spare(d0)
        nths = list(range(1, 13)) if not ctx.quick else sorted(rng.sample(range(1, 13), 5))
        for nth in nths:
            jobs.append({"kind": "midpass", "design": d, "nth": nth, "exc": rng.choice(["RuntimeError", "TypeError", "ValueError", "KeyError", "AssertionError"]),
                         "anon_top": rng.random() < 0.4, "edit": rng.choice([None, "signal", "reassign"]), "unrelated": unrelated})
    mo = ctx.drv.run([designs.sem_line(j, None) for j in jobs])
    jobs = [j for j, o in zip(jobs, mo) if j["kind"] in ("inject", "midpass") or "error" in o["src"]]
    results = common.pmap_fresh(scenario, jobs)
    # fresh references for every (design, module) that shows up
    need = {}
    for j in jobs:
        for m in j["design"]["modules"]:
            need[(json.dumps(j["design"]), m["name"])] = (j["design"], m["name"])
    need[(json.dumps(unrelated), "Unrelated")] = (unrelated, "Unrelated")
    for j in jobs:
        if j["kind"] == "midpass" and j.get("edit") == "signal":
            d2 = edited_design(j["design"])
            need[(json.dumps(d2), d2["top"])] = (d2, d2["top"])
    keys = list(need)
    fresh = dict(zip(keys, common.pmap_fresh(fresh_digest, [need[k] for k in keys])))
    np_keys = sorted({(json.dumps(j["design"]), n) for j, r in zip(jobs, results) for n in r.get("new_parents", {})})
    fresh_np = dict(zip(np_keys, common.pmap_fresh(fresh_new_parent, [(json.loads(k), n) for k, n in np_keys])))
    for j, r in zip(jobs, results):
        case = {"stream": "scenarios", "case": {k: v for k, v in j.items() if k != "unrelated"}}
        rep.count("scenarios", json.dumps(case))
        dk = json.dumps(j["design"])
        top = j["design"]["top"]
        ftop = fresh[(dk, top)]
        if j["kind"] == "inject":
            if "ok" in r["first"]:
                rep.fail("corr", case, "the injected pass did not fail (module not reached?)")
                continue
            # a retry reports the original error again
            if r["retry_same"] != r["first"]:
                rep.fail("pred", case, {"why": "retry reports a different outcome than the original failure", "first": r["first"], "retry": r["retry_same"]})
            # with the default elaborator restored: raise, or exactly the fresh package — never anything else
            rd = r["retry_default"]
            if "ok" in rd and rd != ftop:
                rep.fail("pred", case, {"why": "after a failed pass a package was returned that a fresh process does not return", "got": rd, "fresh": ftop})
        elif j["kind"] == "midpass":
            if "ok" in r["first"]:
                rep.extra["midpass_not_reached"] = rep.extra.get("midpass_not_reached", 0) + 1
                if r["first"] != ftop and not j.get("anon_top"):
                    rep.fail("corr", case, {"why": "elaboration without a failure differs from the fresh package", "got": r["first"], "fresh": ftop})
                continue
            if r["retry_same"] != r["first"]:
                rep.fail("pred", case, {"why": "retry reports a different outcome than the original failure", "first": r["first"], "retry": r["retry_same"]})
            d2 = edited_design(j["design"]) if j.get("edit") == "signal" and "edit_refused" not in r else j["design"]
            want = fresh[(json.dumps(d2), d2["top"])]
            for k in ("retry_default", "retry_again"):
                if "ok" in r[k] and r[k] != want:
                    rep.fail("pred", case, {"why": f"after a failure in the middle of a pass (and the designer's edit) {k} returned a package a fresh process does not return",
                                            "got": r[k], "fresh": want, "first": r["first"]})
        else:
            if "ok" in r["first"]:
                continue  # C02's business
            for k in ("retry_same", "retry_default"):
                if r[k] != r["first"]:
                    rep.fail("pred", case, {"why": f"{k} differs from the original error", "first": r["first"], k: r[k]})
        for name, res in r["others"].items():
            want = fresh[(dk, name)]
            if res != want:
                rep.fail("pred", case, {"why": f"module {name}, which does not contain the offending module, no longer elaborates as in a fresh process", "got": res, "fresh": want})
        for name, res in r.get("new_parents", {}).items():
            want = fresh_np[(dk, name)]
            if res != want:
                rep.fail("pred", case, {"why": f"a new parent of {name} (which does not contain the offending module) does not elaborate as in a fresh process", "got": res, "fresh": want})
        if r["unrelated"] != fresh[(json.dumps(unrelated), "Unrelated")]:
            rep.fail("pred", case, {"why": "an unrelated design is affected", "got": r["unrelated"]})
    # generators
    for k, r in enumerate(common.pmap_fresh(generator_scenario, list(range(4 if ctx.quick else 12)))):
        case = {"stream": "generator", "seed": k}
        rep.count("generator", str(k))
        if "raise" not in r["first"]:
            rep.fail("corr", case, r)
        elif "ok" not in r["second"]:
            rep.fail("pred", case, {"why": "a generator whose body raised once cannot be run again", "result": r})
        elif r["second"]["ok"][1] != 2 or r["third"] != r["second"] or "ok" not in r["other_params"]:
            rep.fail("pred", case, {"why": "generator cache inconsistent after a failure", "result": r})
    # generator calls against the GenRun model: random plans of failing / returning bodies over a few parameter values
    plans = [[(rng.randrange(3), rng.choice(["ok", "ok", "raise", "none"])) for _ in range(rng.randint(2, 9))] for _ in range(20 if ctx.quick else 300)]
    traces = common.pmap_fresh(genrun_trace, plans)
    lines = []
    for plan in plans:
        nxt, calls = 0, []
        given = {}
        for w, what in plan:
            if what == "ok":
                # the module number the implementation would mint next, if the body runs
                calls.append({"c": w, "ok": 0})
            else:
                calls.append({"c": w})
        lines.append({"prop": "GEN", "op": "genrun", "calls": calls})
    for plan, tr, mo in zip(plans, traces, ctx.drv.run(lines)):
        case = {"stream": "genrun", "plan": plan}
        rep.count("genrun", json.dumps(plan))
        seen = {}
        for k, ((w, what), got, want) in enumerate(zip(plan, tr, mo["trace"])):
            wres = want["result"]
            ok_model = isinstance(wres, dict)
            ok_impl = isinstance(got["result"], dict)
            if ok_model != ok_impl:
                rep.fail("pred" if not ok_impl else "corr", case, {"why": f"call {k} ({w}, body {what}): model {wres}, implementation {got['result']}"})
                break
            if ok_impl:
                # equal parameters -> the identical module, every time; different parameters -> different modules
                prev = seen.setdefault(w, got["result"]["module"])
                if prev != got["result"]["module"] or list(seen.values()).count(prev) != 1:
                    rep.fail("pred", case, {"why": f"call {k}: module identity is not a function of the parameters", "seen": seen, "got": got["result"]})
                    break
            # the body runs exactly when the model says the call is not answered from the cache
            done_before = {x[0] for x in mo["trace"][k - 1]["done"]} if k else set()
            if got["ran"] != ([] if w in done_before else [w]):
                rep.fail("pred", case, {"why": f"call {k} ({w}, body {what}): the body ran {got['ran']}, but the calls so far " +
                                        ("had memoised this call" if w in done_before else "had not memoised this call"), "model": want, "impl": got})
                break
            if (got["done"] is not None and sorted(x[0] for x in want["done"]) != got["done"]) or got["pending"] not in (0, None) or got["stack"] not in (0, None) or want["pending"] != 0:
                rep.fail("pred", case, {"why": f"after call {k} the generator cache is not what the calls so far leave behind", "model": want, "impl": got})
                break
    # the same plans on a generator made with `enable_cache=False`: nothing is remembered, so every call runs the body, whatever
    # the earlier calls did — a failure included
    for plan, tr in zip(plans, common.pmap_fresh(genrun_trace_uncached, plans)):
        case = {"stream": "genrun_uncached", "plan": plan}
        rep.count("genrun_uncached", json.dumps(plan))
        mods = []
        for k, ((w, what), got) in enumerate(zip(plan, tr)):
            if got["ran"] != [w]:
                rep.fail("pred", case, {"why": f"call {k} ({w}, body {what}) of an uncached generator: the body ran {got['ran']}", "impl": got})
                break
            if (what == "ok") != isinstance(got["result"], dict):
                rep.fail("pred", case, {"why": f"call {k} ({w}, body {what}) of an uncached generator: {got['result']}", "impl": got})
                break
            if what == "ok":
                if got["result"]["module"] in mods:
                    rep.fail("pred", case, {"why": f"call {k}: an uncached generator returned a module it had returned before", "impl": got})
                    break
                mods.append(got["result"]["module"])
    # generators calling generators: event trees against GenRun.runEv
    nplans = [[gen_events(rng) for _ in range(rng.randint(2, 6))] for _ in range(40 if ctx.quick else 600)]
    nplans.insert(0, [{"c": 0, "ok": 0, "catches": True, "nested": [{"c": 1, "how": "raise", "catches": False, "nested": []}]},
                      {"c": 1, "how": "raise", "catches": False, "nested": []}, {"c": 1, "ok": 0, "catches": False, "nested": []}])
    ntr = common.pmap_fresh(nested_trace, nplans)
    nmo = ctx.drv.run([{"prop": "GEN", "op": "genrun2", "calls": pl} for pl in nplans])
    for pl, tr, mo in zip(nplans, ntr, nmo):
        case = {"stream": "nested_generators", "plan": pl}
        rep.count("nested_generators", json.dumps(pl))
        seen = {}
        for k, (ev, got, want) in enumerate(zip(pl, tr, mo["trace"])):
            wres = want["result"]
            gres = got["result"]
            wkind = "module" if isinstance(wres, dict) else wres
            gkind = "module" if isinstance(gres, dict) else gres
            if wkind != gkind:
                spurious = gkind == "circular" or (wkind == "module" and gkind != "module")
                rep.fail("pred" if spurious else "corr", case, {"why": f"top-level call {k} (w={ev['c']}): model says {wkind}, the implementation {gkind}", "impl": got, "model": want})
                break
            if gkind == "module":
                prev = seen.setdefault(ev["c"], gres["module"])
                if prev != gres["module"] or list(seen.values()).count(prev) != 1 or gres["name"] != f"G(w={ev['c']})":
                    rep.fail("pred", case, {"why": f"call {k}: module identity / name is not a function of the parameters", "seen": seen, "got": gres})
                    break
            if (got["done"] is not None and sorted(x[0] for x in want["done"]) != got["done"]) or got["pending"] not in (0, None) or got["stack"] not in (0, None):
                rep.fail("pred", case, {"why": f"after top-level call {k} the generator cache is not what the calls so far leave behind", "model": want, "impl": got})
                break
    # the runner model itself (Runner.lean, on which the C07 / C08 / C02 theorems are stated) against the real runner
    rjobs = runner_jobs(rng, 150 if ctx.quick else 3000)
    rimpl = common.pmap(runner_trace, rjobs, chunk=8)
    rmodel = ctx.drv.run([dict(j, prop="RUN", op="runner") for j in rjobs])
    for j, im, mo in zip(rjobs, rimpl, rmodel):
        case = {"stream": "runner", "job": j}
        rep.count("runner", json.dumps(j), nontrivial=bool(j["fail"]))
        for k, (got, want) in enumerate(zip(im, mo["trace"])):
            if got["pending"] not in (0, None):
                rep.fail("pred", case, {"why": f"after call {k} a module is still marked pending", "impl": got})
                break
            if any(got["twice"]):
                rep.fail("pred", case, {"why": f"by call {k} a pass has run to completion twice on one module", "impl": got})
                break
            if got["done_internal"] is not None and got["done_internal"] != got["done"]:
                rep.fail("corr", case, {"why": f"after call {k} the pass classes' done sets are not the modules the passes completed on", "impl": got})
                break
            mine = {"ok": got["ok"], "done": got["done"], "failed": got["failed"] if got["failed"] is not None else want["failed"]}
            if mine != want:
                rep.fail("corr", case, {"why": f"after call {k} the runner's state differs from the model's", "impl": got, "model": want})
                break
    run_repairs(ctx)
    run_inplace(ctx)
    rep.extra["scenarios"] = len(jobs)
    if jobs:
        rep.sample({"scenario": {k: v for k, v in jobs[0].items() if k not in ("unrelated", "design")}, "result": results[0]})


def with_spare(d):
    import copy
    d2 = copy.deepcopy(d)
    top = next(m for m in d2["modules"] if m["name"] == d2["top"])
    top["sigs"].append({"n": "zz_spare", "w": 1, "port": False, "dir": "none"})
    return d2


def edited_design(d):
    import copy
    d2 = copy.deepcopy(d)
    top = next(m for m in d2["modules"] if m["name"] == d2["top"])
    top["sigs"].append({"n": "zz_late", "w": 1, "port": False, "dir": "none"})
    return d2


def mid_corpus_design():
    """arrays, a pair, a bundle port, a port reference and a no-connect in one top: every rewriting pass has something to pop and re-add"""
    import copy
    R = copy.deepcopy(gen_design.LEAVES[3])
    S = lambda n: {"k": "sig", "n": n}
    sg = lambda n, w=1, port=False: {"n": n, "w": w, "port": port, "dir": "none"}
    insts = [{"n": "arr", "of": R, "array": 2, "conns": [["p", S("bus")], ["n", S("a")]]},
             {"n": "pr", "of": R, "pair": ["p", "n"], "conns": [["p", {"k": "bundle", "n": "d1"}], ["n", S("a")]]},
             {"n": "r1", "of": R, "conns": [["n", S("a")]]},
             {"n": "r2", "of": R, "conns": [["p", {"k": "pref", "inst": "r1", "port": "p"}], ["n", {"k": "noconn"}]]},
             {"n": "arr2", "of": R, "array": 3, "conns": [["p", S("a")], ["n", {"k": "bref", "root": "d1", "path": ["p"]}]]}]
    return {"bundles": [copy.deepcopy(gen_design.DIFF)], "top": "Top",
            "modules": [{"name": "Top", "sigs": [sg("a", 1, True), sg("bus", 2)], "bundles": [{"n": "d1", "of": "Diff", "port": False}], "insts": insts}]}


def reachable(d):
    byname = {m["name"]: m for m in d["modules"]}
    seen, todo = set(), [d["top"]]
    while todo:
        x = todo.pop()
        if x in seen:
            continue
        seen.add(x)
        for i in byname[x]["insts"]:
            if i["of"]["k"] == "module":
                todo.append(i["of"]["name"])
    return seen


def replay(ctx, rp):
    c = rp.get("case") or {}
    if c.get("stream") == "repair":
        res = common.pmap_fresh(repair_case, [(c["fault"], c["repair"])])[0]
        print(json.dumps({"case": c, "result": res}))
        if res["first"].startswith("raised") and res["repaired"] == "equal":
            return 0
        print(f"VIOLATION property=C08 replay={rp.get('_path', '<replay>')}")
        return 1
    if c.get("stream") == "repair_in_place":
        res = common.pmap_fresh(inplace_case, [(c["fault"], c["extra"])])[0]
        print(json.dumps({"case": c, "result": res}))
        if res["first"].startswith("raised") and not (res["got"].startswith("pkg") and res["got"] != res["ref"]):
            return 0
        print(f"VIOLATION property=C08 replay={rp.get('_path', '<replay>')}")
        return 1
    if c.get("stream") == "genrun_uncached":
        print(json.dumps(genrun_trace_uncached([tuple(x) for x in c["plan"]])))
    print(json.dumps(rp.get("detail"), default=str)[:2000])
    return 1
