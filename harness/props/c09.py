"""C09 — generator calls are memoised and their modules uniquely named.

Stream `names`: param-class shapes over {str, int, float, Optional[...]} with adversarial values (spaces, '=', quotes,
          backslashes, 'None', numeric-looking strings, values pushing the name across the 128-character limit,
          int/float coercions): `_unique_name` vs the Lean `readable`; pairwise: equal params <=> equal names.
Stream `cache`: random acyclic generator programs (fresh / handing-on bodies, nested calls) and call sequences with
          repeated keys in both call forms: identity of returned modules, body-run log, module names vs the Lean `run`.
Stream `scalar`: Scalar-valued fields: Literals spelling the very text a number is named by.
Stream `uncached`: `enable_cache=False` generators: equal calls, customised results, one design.
Stream `shapes`: nested param-classes, enum, Prefixed, Module-valued fields (md5-of-JSON form): equal
          params <=> equal names, exported together in one package.
Stream `hashed`: generated shapes for the md5-of-JSON form: optional fields at falsy values against None, (Int)Enums, tuples,
          nested param-classes, Prefixed, Generator- / ExternalModule- / Module-valued fields holding same-named things of
          two Python modules; all pairs of 7 neighbouring values; exported together.
"""
import itertools
import json
import re
from enum import Enum
from typing import Optional

import common
from common import Stream

h = common.repo_env()
from hdl21.params import _unique_name

ASSUMPTIONS = [
    "md5 collision freedom and json.dumps as an injective rendering of JSON trees, for the hashed name form (the tree itself is modelled: NameEnc.lean)",
    "two different Modules / ExternalModules / Generators used as parameter values have different qualified names (Python module + name)",
    "str(int)/repr(float) are injective (CPython); NaN-valued float parameters are outside the alphabet",
]
TRUSTED = ["CPython str()/repr() of numbers"]
DT = {"str": str, "int": int, "float": float, "ostr": Optional[str], "oint": Optional[int], "ofloat": Optional[float]}
STRS = ["rpoly hi", "rpoly  hi", "rpoly\thi", "rpoly hi ", "a\nb", "a b", "x", "x b=y", "y b=z", "z", "", " ", "=", 'q"', "\\", '\\"', "None", "3", "3.0", "a=1 b=2", '"x"', "x\\", "é ü", "a" * 70, "b" * 130]


OMIT = "__omit__"


def make_pc(shape):
    ns = {}
    for ent in shape:
        k, dt = ent[0], ent[1]
        ns[k] = h.Param(dtype=DT[dt], desc=k, default=ent[2]) if len(ent) > 2 else h.Param(dtype=DT[dt], desc=k)
    return h.paramclass(type("P", (), ns))


def impl_name(case):
    P = make_pc(case["shape"])
    keys = [ent[0] for ent in case["shape"]]

    def body(p: P) -> h.Module:
        return h.Module()

    body.__name__ = "G"
    G = h.generator(body)
    out = []
    insts = []
    for vals in case["values"]:
        kw = {k: v for k, v in zip(keys, vals) if v != OMIT}
        try:
            p = P(**kw)
            insts.append(p)
            out.append({"name": _unique_name(p), "fields": [enc_field(getattr(p, k)) for k in keys]})
        except Exception as ex:  # noqa
            insts.append(None)
            out.append({"reject": type(ex).__name__})
            continue
        # the two call forms: by keywords and by param-class instance
        try:
            m_kw, m_inst, m_again = G(**kw), G(p), G(P(**kw))
            out[-1]["forms"] = {"same": m_kw is m_inst and m_inst is m_again, "kw": m_kw.name, "inst": m_inst.name}
        except Exception as ex:  # noqa
            out[-1]["forms"] = {"raised": f"{type(ex).__name__}: {str(ex)[:100]}"}
    eq = [[(a is not None and b is not None and a == b) for b in insts] for a in insts]
    # all the modules of this case in one design: as many definitions as modules, under as many names
    export = None
    try:
        mods = []
        for pi in insts:
            if pi is not None:
                mm = G(pi)
                if not any(mm is x for x in mods):
                    mods.append(mm)
        top = h.Module(name="NamesTop")
        for k, mm in enumerate(mods):
            top.add(mm(), name=f"i{k}")
        pkg = h.to_proto(top)
        defs = [pm.name for pm in pkg.modules if not pm.name.endswith("NamesTop")]
        ptop = next(pm for pm in pkg.modules if pm.name.endswith("NamesTop"))
        export = {"modules": len(mods), "defs": len(defs), "distinct_defs": len(set(defs)), "refs": len({pi_.module.local for pi_ in ptop.instances})}
    except Exception as ex:  # noqa
        export = {"raised": f"{type(ex).__name__}: {str(ex)[:120]}"}
    return {"vals": out, "eq": eq, "export": export}


def enc_field(v):
    return {"str": v} if isinstance(v, str) else {"atom": str(v)}


def line_name(case):
    return None  # model lines are issued per value below (needs the coerced fields)


NAME_FORMS = {"readable": 0, "hashed": 0, "hashed_below_the_model's_threshold": 0}


def judge_names(case, im, mo):
    vals = im["vals"]
    ex = im.get("export")
    if ex and "raised" in ex:
        yield ("pred", f"the modules generated from these parameter values cannot be exported together: {ex['raised']}", "names")
    elif ex and not (ex["modules"] == ex["defs"] == ex["distinct_defs"] == ex["refs"]):
        yield ("pred", f"{ex['modules']} different generated modules in one design came out as {ex['defs']} definitions under {ex['distinct_defs']} names, "
               f"referred to by {ex['refs']} names", "names")
    for i, a in enumerate(vals):
        if "reject" in a:
            continue
        model = mo[i]
        f = a.get("forms")
        if f is not None:
            if "raised" in f:
                yield ("corr", f"value {case['values'][i]}: generator call raised {f['raised']}")
            elif not f["same"] or f["kw"] != f["inst"]:
                yield ("pred", f"value {case['values'][i]}: call by keywords and call by instance give two modules: {f['kw']!r} / {f['inst']!r}", "forms")
            elif f["inst"] != "G(" + a["name"] + ")":
                yield ("pred", f"value {case['values'][i]}: module named {f['inst']!r}, its parameters are named {a['name']!r}", "forms")
        # A name is the readable text of the values (the model's, whose injectivity is `readable_injective`) or a digest of them (`hashed`
        # stream). At which length the code switches from the one to the other is its own business: the property asks that unequal values
        # get different names and equal ones the same, which is judged below on the names as they are.
        if a["name"] == model:
            NAME_FORMS["readable"] += 1
        elif re.fullmatch(r"[0-9a-f]{32}", a["name"]):
            NAME_FORMS["hashed" if len(model) >= 128 else "hashed_below_the_model's_threshold"] += 1
        else:
            yield ("corr", f"value {case['values'][i]}: name {a['name'][:60]!r} is neither the readable text {model[:60]!r} nor a digest")
        for j in range(i):
            b = vals[j]
            if "reject" in b:
                continue
            if im["eq"][i][j] != (a["name"] == b["name"]):
                kind = "two different parameter values share one name" if not im["eq"][i][j] else "equal parameters, two names"
                yield ("pred", f"{kind}: {case['values'][i]} / {case['values'][j]} -> {a['name']!r} / {b['name']!r}", "names")
                return


class NameStream(Stream):
    def run(self, ctx, cases):
        rep = ctx.rep
        cases = list(cases)
        impls = common.pmap(self.impl, cases, chunk=self.chunk)
        lines, where = [], []
        for ci, (c, im) in enumerate(zip(cases, impls)):
            for vi, v in enumerate(im["vals"]):
                if "reject" not in v:
                    lines.append({"prop": "C09", "op": "readable", "kvs": [[k, f] for (k, _), f in zip([e[:2] for e in c["shape"]], v["fields"])]})
                    where.append((ci, vi))
        outs = ctx.drv.run(lines)
        models = [dict() for _ in cases]
        for (ci, vi), o in zip(where, outs):
            models[ci][vi] = o["name"]
        for c, im, mo in zip(cases, impls, models):
            rep.count(self.name, json.dumps(c, default=str), n=len(c["values"]))
            for v in self.judge(c, im, mo) or []:
                rep.fail(v[0], {"stream": self.name, "case": c}, {"detail": v[1], "impl": im, "model": mo}, v[2] if len(v) > 2 else None)
        rep.sample({"stream": self.name, "case": cases[0], "impl": impls[0], "model": models[0]})


SN = NameStream("names", impl_name, line_name, judge_names, chunk=8)


def replay_names(ctx, case):
    im = impl_name(case)
    lines = [{"prop": "C09", "op": "readable", "kvs": [[k, f] for (k, _), f in zip([e[:2] for e in case["shape"]], v["fields"])]} for v in im["vals"] if "reject" not in v]
    outs = iter(ctx.drv.run(lines))
    mo = {i: next(outs)["name"] for i, v in enumerate(im["vals"]) if "reject" not in v}
    return list(judge_names(case, im, mo)), im, mo


# ------------------------------------------------------------------ cache stream


def impl_cache(case):
    ngen = case["ngen"]
    pv = case.get("pvals", [0, 1, 2])  # the model's parameter k is the value pv[k]
    table = {(e["gen"], e["params"]): e["body"] for e in case["prog"]}
    runs, created = [], []

    @h.paramclass
    class P:
        n = h.Param(dtype=int, desc="n")

    gens = [None] * ngen

    noparams = set(case.get("noparams", []))

    def call(g, n, form):
        if g in noparams:
            return gens[g]() if form else gens[g](h.NoParams)
        return gens[g](n=pv[n]) if form else gens[g](P(n=pv[n]))

    def mk(g):
        def work(n):
            runs.append({"gen": g, "params": n})
            b = table.get((g, n), {"nested": []})
            rets = []
            for k, c in enumerate(b["nested"]):
                rets.append(call(c["gen"], c["params"], k % 2))  # alternate the two call forms
            if "k" in b:
                return rets[b["k"]]
            m = h.Module()
            created.append(m)
            return m

        if g in noparams:
            def body(p: h.HasNoParams) -> h.Module:
                return work(0)
        else:
            def body(p: P) -> h.Module:
                return work(pv.index(p.n))

        body.__name__ = f"g{g}"
        return h.generator(body)

    for g in range(ngen):
        gens[g] = mk(g)
    rets = []
    for k, c in enumerate(case["calls"]):
        try:
            m = call(c["gen"], c["params"], k % 2 == 0)
            rets.append(next(i for i, x in enumerate(created) if x is m))
        except Exception as ex:  # noqa
            rets.append(None)
    names = [m.name for m in created]
    genby = [{"gen": int(m._generated_by.gen.name[1:]), "params": pv.index(getattr(m._generated_by.params, "n", pv[0])) if int(m._generated_by.gen.name[1:]) not in noparams else 0} for m in created]
    # export everything together: no two modules under one name
    export = "ok"
    try:
        top = h.Module(name="Top")
        for i, m in enumerate(created):
            top.add(m(), name=f"i{i}")
        pkg = h.to_proto(top)
        export = sorted(pm.name.split(".")[-1] for pm in pkg.modules if not pm.name.endswith("Top"))
    except Exception as ex:  # noqa
        export = f"reject {type(ex).__name__}: {str(ex)[:100]}"
    return {"returns": rets, "runs": runs, "modules": len(created), "names": names, "generated_by": genby, "export": export}


def line_cache(case):
    return {"prop": "C09", "op": "gen_run", "prog": case["prog"], "calls": case["calls"]}


def judge_cache(case, im, mo):
    # property, directly: equal keys -> identical module, body once
    seen = {}
    for c, r in zip(case["calls"], im["returns"]):
        key = (c["gen"], c["params"])
        if r is None:
            yield ("corr", f"call {c} raised")
            return
        if key in seen and seen[key] != r:
            yield ("pred", f"equal parameters returned two modules: {c}")
        seen[key] = r
    keys = [(r["gen"], r["params"]) for r in im["runs"]]
    if len(keys) != len(set(keys)):
        yield ("pred", f"a generator body ran twice for one parameter value: {im['runs']}")
    if len(set(im["names"])) != len(im["names"]):
        yield ("pred", f"two generated modules share one name: {im['names']}", "names")
    nop = set(case.get("noparams", []))
    pv = case.get("pvals", [0, 1, 2])
    want_names = [(f"g{c['gen']}" if c["gen"] in nop else f"g{c['gen']}(n={pv[c['params']]})") if c else None for c in mo["named_by"]]
    if im["names"] != want_names:
        yield ("pred", f"module names depend on more than generator and parameters: {im['names']} vs {want_names}", "renamed")
    if isinstance(im["export"], str):
        yield ("pred", f"modules of one design cannot be exported together: {im['export']}")
    for k in ("returns", "runs", "modules", "generated_by"):
        if im[k] != mo[k]:
            yield ("corr", f"{k}: {im[k]} vs model {mo[k]}")


SC = Stream("cache", impl_cache, line_cache, judge_cache, chunk=8)


def gen_prog(rng):
    ngen = rng.randint(2, 4)
    prog = []
    for g in range(ngen):
        for n in range(3):
            nested = []
            if g + 1 < ngen:
                for _ in range(rng.choice([0, 1, 1, 2])):
                    nested.append({"gen": rng.randint(g + 1, ngen - 1), "params": rng.randint(0, 2)})
            body = {"nested": nested}
            if nested and rng.random() < 0.35:
                body["k"] = rng.randrange(len(nested))
            prog.append({"gen": g, "params": n, "body": body})
    calls = [{"gen": rng.randrange(ngen), "params": rng.randint(0, 2)} for _ in range(rng.randint(2, 8))]
    noparams = [g for g in range(ngen) if rng.random() < 0.3]
    for e in prog:
        for c in e["body"]["nested"]:
            if c["gen"] in noparams:
                c["params"] = 0
    for c in calls:
        if c["gen"] in noparams:
            c["params"] = 0
    prog = [e for e in prog if not (e["gen"] in noparams and e["params"] != 0)]
    # values whose hashes collide in CPython (hash(-1) == hash(-2), hash(2**61 - 1) == hash(0)): equality, not the hash, keys the cache
    pvals = rng.choice([[0, 1, 2], [-1, -2, 0], [0, 2**61 - 1, 1], [2, -2, -1]])
    return {"ngen": ngen, "prog": prog, "calls": calls, "noparams": noparams, "pvals": pvals}


# ------------------------------------------------------------------ shapes stream (hashed names)


def shapes_check(ctx):
    rep = ctx.rep

    class Color(Enum):
        RED = "red"
        BLUE = "blue"

    @h.paramclass
    class Inner:
        a = h.Param(dtype=int, desc="a", default=1)
        s = h.Param(dtype=str, desc="s", default="x")

    @h.paramclass
    class Outer:
        inner = h.Param(dtype=Inner, desc="inner", default=Inner())
        color = h.Param(dtype=Color, desc="color", default=Color.RED)
        pre = h.Param(dtype=h.Prefixed, desc="pre", default=1 * h.prefix.m)
        mod = h.Param(dtype=h.Instantiable, desc="mod", default=None)

    M1, M2 = h.Module(name="M1"), h.Module(name="M2")

    @h.generator
    def G(p: Outer) -> h.Module:
        return h.Module()

    vals = []
    for a, s, col, pre, mod in itertools.product([1, 2], ["x", "x y", "y"], [Color.RED, Color.BLUE],
                                                  [1 * h.prefix.m, 1000 * h.prefix.µ, 2 * h.prefix.m], [M1, M2]):
        vals.append(Outer(inner=Inner(a=a, s=s), color=col, pre=pre, mod=mod))
    mods = [G(v) for v in vals]
    # the name is a function of generator and parameter value only: whichever equal spelling came first
    for i, v in enumerate(vals):
        rep.count("shapes", f"name{i}")
        want = "G(" + _unique_name(v) + ")"
        if mods[i].name != want:
            rep.fail("pred", {"stream": "shapes", "value": str(v)},
                     f"module name {mods[i].name} is not the name of this value ({want}): it depends on which equal value was called first", "renamed")
    for i in range(len(vals)):
        for j in range(i):
            rep.count("shapes", f"{i},{j}")
            same_val = vals[i] == vals[j]
            if same_val != (mods[i] is mods[j]):
                rep.fail("pred", {"stream": "shapes", "i": str(vals[i]), "j": str(vals[j])}, "equal params <-> identical module fails")
            if (mods[i] is mods[j]) != (mods[i].name == mods[j].name):
                rep.fail("pred", {"stream": "shapes", "i": str(vals[i]), "j": str(vals[j])},
                         f"names {mods[i].name} / {mods[j].name}", "names")


def scalar_check(ctx):
    """`Scalar` (Prefixed | Literal) fields: a Literal whose text is the text some number is named by is still
    a different value, and gets a different name."""
    rep = ctx.rep
    from hdl21.params import hdl21_naming_encoder

    @h.paramclass
    class Sc:
        x = h.Param(dtype=h.Scalar, desc="x")
        y = h.Param(dtype=Optional[h.Scalar], desc="y", default=None)

    @h.generator
    def GS(p: Sc) -> h.Module:
        return h.Module()

    nums = [1 * h.prefix.n, 1000 * h.prefix.p, h.Prefixed.new(5), 1 * h.prefix.K, h.Prefixed.new(0.5), 2 * h.prefix.n]
    texts = ["x", "1e-9", "1*n", ""]
    for v in nums:  # the adversarial part: whatever text the encoder derives from a number, as a Literal
        enc = hdl21_naming_encoder(v)
        texts += [enc if isinstance(enc, str) else json.dumps(enc), json.dumps(enc), str(v), repr(v)]
    pool = nums + [h.Literal(t) for t in dict.fromkeys(texts)]
    vals = [Sc(x=a, y=b) for a in pool for b in [None] + pool[:8:3]]
    vals.append(Sc(x=pool[0], y=h.Prefixed.new(hash(None))))  # collides with y=None in the cache's hash table
    mods = []
    for v in vals:
        try:
            mods.append(GS(v))
        except Exception as ex:  # noqa
            rep.fail("pred", {"stream": "scalar", "value": str(v)}, f"a valid generator call raised {type(ex).__name__}: {str(ex)[:150]}", "call-raised")
            return
    top = h.Module(name="ScTop")
    for k, m in enumerate(dict.fromkeys(mods)):
        top.add(m(), name=f"i{k}")
    try:
        h.to_proto(top)
    except Exception as ex:  # noqa
        rep.fail("pred", {"stream": "scalar"}, f"modules generated from different Scalar values cannot be exported together: {str(ex)[:200]}", "names")
    for i in range(len(vals)):
        for j in range(i):
            rep.count("scalar", f"{i},{j}")
            if (vals[i] == vals[j]) != (mods[i] is mods[j]) or (mods[i] is mods[j]) != (mods[i].name == mods[j].name):
                rep.fail("pred", {"stream": "scalar", "i": str(vals[i]), "j": str(vals[j])},
                         f"equal={vals[i] == vals[j]} same module={mods[i] is mods[j]} names {mods[i].name} / {mods[j].name}", "names")
                return


def reset_check(ctx):
    """After `generator.cache.reset()` the memo starts afresh — for every way of calling: within the new epoch a call by keywords, a
    call by instance and a call made from inside another generator's body return one and the same module, the body having run once
    (seed C09-r8-2: a memo of keyword calls that outlives the reset)."""
    rep = ctx.rep
    rng = ctx.rng

    @h.paramclass
    class P:
        width = h.Param(dtype=int, desc="w", default=1)

    for t in range(10 if ctx.quick else 150):
        runs = []

        def body(p: P) -> h.Module:
            runs.append(p.width)
            m = h.Module()
            m.io = h.Port(width=p.width)
            return m

        body.__name__ = f"R{t}"
        G = h.generator(body)

        def outer(p: P) -> h.Module:
            m = h.Module()
            m.io = h.Port(width=p.width)
            m.c = (G(width=p.width) if t % 2 else G(P(width=p.width)))(io=m.io)
            return m

        outer.__name__ = f"RO{t}"
        O = h.generator(outer)
        w = rng.randint(1, 3)
        forms = [lambda: G(width=w), lambda: G(P(width=w)), lambda: O(width=w).c.of]
        before = [rng.randrange(3) for _ in range(rng.randint(1, 3))]
        after = [rng.randrange(3) for _ in range(rng.randint(2, 4))]
        if len(set(after)) == 1:
            after.append((after[0] + 1) % 3)
        case = {"stream": "reset", "w": w, "before": before, "after": after, "t": t}
        rep.count("reset", json.dumps(case))
        try:
            old = [forms[k]() for k in before]
            h.generator.cache.reset()
            del runs[:]
            new = [forms[k]() for k in after]
        except Exception as ex:  # noqa
            rep.fail("corr", case, f"generator call raised {type(ex).__name__}: {str(ex)[:120]}")
            continue
        if any(x is not old[0] for x in old):
            rep.fail("pred", case, "equal parameters returned two modules (before the reset)")
        if any(x is not new[0] for x in new):
            rep.fail("pred", case, f"after generator.cache.reset(): equal parameters, called {[('kw', 'inst', 'nested')[k] for k in after]}, returned different modules "
                     f"({[x.name for x in new]})")
        elif runs.count(w) != 1:
            rep.fail("pred", case, f"after generator.cache.reset() the body ran {runs.count(w)} times for one parameter value")
        elif any(new[0] is x for x in old):
            # (`reset_starts_afresh`: what is handed out after the reset was made after it)
            rep.fail("pred", case, "after generator.cache.reset() a module made before the reset was handed out")


def uncached_check(ctx):
    """Generators with `enable_cache=False` return a new module per call, equal calls give equal names: a design holding
    two of them that differ is refused, or exported with a definition for each - never with one standing for both."""
    rep = ctx.rep
    rng = ctx.rng

    @h.paramclass
    class P:
        n = h.Param(dtype=int, desc="n", default=2)

    def body(p: P) -> h.Module:
        m = h.Module()
        m.io = h.Port(width=p.n)
        return m

    for t in range(12 if ctx.quick else 200):
        body.__name__ = f"T{t}"
        T = h.generator(body, enable_cache=False) if t % 3 else h.generator(enable_cache=False)(body)
        ncopy = rng.randint(2, 4)
        copies = [T(n=2) if rng.random() < 0.5 else T(P()) for _ in range(ncopy)]
        extra = [rng.choice([None, "en", "vss", "en"]) for _ in copies]
        if len(set(extra)) == 1:
            extra[-1] = "clk"
        for m, e in zip(copies, extra):
            if e:
                m.add(h.Port(name=e))
        top = h.Module(name=f"UTop{t}")
        top.bus, top.s = h.Signal(width=2), h.Signal()
        order = list(range(ncopy))
        rng.shuffle(order)
        for k in order:
            conns = {"io": top.bus, **({extra[k]: top.s} if extra[k] else {})}
            top.add(copies[k](**conns), name=f"i{k}")
        case = {"stream": "uncached", "extra": extra, "order": order}
        rep.count("uncached", json.dumps(case) + str(t))
        try:
            pkg = h.to_proto(top)
        except RuntimeError as ex:
            if "onflict" not in str(ex):
                rep.fail("corr", case, f"unexpected refusal: {str(ex)[:200]}")
            continue
        defs = {pm.name.split(".")[-1]: [p.signal for p in pm.ports] for pm in pkg.modules}
        ptop = next(pm for pm in pkg.modules if pm.name.endswith(top.name))
        for pi in ptop.instances:
            want = sorted(c.portname for c in pi.connections)
            got = sorted(defs.get(pi.module.local.split(".")[-1], []))
            if want != got:
                rep.fail("pred", case, f"instance {pi.name} connects ports {want} of a definition {pi.module.local!r} with ports {got}: "
                         "two different generated modules were exported under one name", "names")
                break


def collections_check(ctx):
    """List-, tuple- and set-valued fields: equal values, however built, give the identical module — or the call is refused
    (an unhashable value cannot key the cache); never two modules under one name."""
    rep = ctx.rep
    from typing import List, Tuple, FrozenSet

    shapes = [("lst", List[int], [[1, 2, 3], [1, 2, 3], [3, 2, 1]]), ("tup", Tuple[int, ...], [(1, 2), (1, 2), (2, 1)]),
              ("fs", FrozenSet[str], [frozenset(["a", "b", "c"]), frozenset(["c", "b", "a"]), frozenset(["a"])])]
    for nm, dt, values in shapes:
        P = h.paramclass(type("PC", (), {"v": h.Param(dtype=dt, desc="v")}))

        def body(p: P) -> h.Module:
            return h.Module()

        body.__name__ = "GC_" + nm
        G = h.generator(body)
        res = []
        for v in values:
            try:
                res.append(G(v=v))
            except Exception as ex:  # noqa
                res.append(None)
        rep.count("collections", nm)
        a, b, c = res
        if a is not None and b is not None and a is not b:
            rep.fail("pred", {"stream": "collections", "shape": nm}, f"equal {nm}-valued parameters returned two modules, named {a.name!r} and {b.name!r}", "names")
        if a is not None and c is not None and (a is c or a.name == c.name):
            rep.fail("pred", {"stream": "collections", "shape": nm}, f"different {nm}-valued parameters share a module or a name: {a.name!r} / {c.name!r}", "names")



def spellings_check(ctx):
    """Equal parameter values written or built differently — another prefix, trailing zeros, another insertion order of a (nested)
    set — each handed to a generator object of its own (so that no cache answers for the other): the name suffix depends on the
    value alone, not on how it was put down or which spelling a process saw first."""
    rep = ctx.rep
    from decimal import Decimal as D
    from typing import FrozenSet, Optional, Tuple

    P_ = h.prefix
    groups = [
        ("pre", h.Prefixed, [[1 * P_.µ, 1000 * P_.n, h.Prefixed(number=D("1.0"), prefix=P_.µ), h.Prefixed(number=D("0.001"), prefix=P_.m), h.Prefixed(number=D("1E-6"), prefix=P_.UNIT)],
                             [150 * P_.n, h.Prefixed(number=D("0.15"), prefix=P_.µ), h.Prefixed(number=D("0.150"), prefix=P_.µ)],
                             [h.Prefixed.new(5), 5000 * P_.m, h.Prefixed(number=D("0.005"), prefix=P_.K)]]),
        ("opre", Optional[h.Prefixed], [[2 * P_.K, 2000 * P_.UNIT, h.Prefixed(number=D("2.00"), prefix=P_.K)]]),
        ("fs", FrozenSet[int], [[frozenset([0, 8, 16]), frozenset([16, 8, 0]), frozenset([8, 0, 16, 8])]]),
        ("fss", FrozenSet[str], [[frozenset(["tt", "ff", "ss"]), frozenset(["ss", "ff", "tt"])]]),
        ("nested", FrozenSet[FrozenSet[int]], [[frozenset([frozenset([0, 8]), frozenset([1])]), frozenset([frozenset([1]), frozenset([8, 0])])],
                                               [frozenset([frozenset([3, 11, 19]), frozenset([19, 27])]), frozenset([frozenset([27, 19]), frozenset([19, 11, 3])])]]),
    ]
    for nm, dt, families in groups:
        for extra in (False, True):  # alone (the readable form, where the field's type allows it), and next to a tuple (the hashed form)
            fields = {"x": h.Param(dtype=dt, desc="x")}
            if extra:
                fields["t"] = h.Param(dtype=Tuple[int, ...], desc="t", default=(1, 2))
            P = h.paramclass(type("SP", (), fields))
            for fam in families:
                case = {"stream": "spellings", "field": nm, "hashed_form": extra, "values": [repr(v) for v in fam]}
                rep.count("spellings", json.dumps(case))
                suffixes = []
                for k, v in enumerate(fam):
                    def body(p: P) -> h.Module:
                        return h.Module()

                    body.__name__ = f"Sp{k}"
                    try:
                        m = h.generator(body)(x=v)
                        suffixes.append(m.name[len(f"Sp{k}"):])
                    except Exception as ex:  # noqa — a value that cannot key the cache is refused, which is allowed
                        suffixes.append(None)
                try:
                    equal = all(P(x=fam[0]) == P(x=v) for v in fam)
                except Exception:  # noqa
                    equal = False
                named = [s_ for s_ in suffixes if s_ is not None]
                if equal and len(set(named)) > 1:
                    rep.fail("pred", case, {"why": "equal parameter values get different names depending on how they were written", "suffixes": suffixes}, "names")

LIB_SRC = """
import hdl21 as h

@h.paramclass
class CellParams:
    w = h.Param(dtype=int, desc="w", default=1)

@h.generator
def Cell(p: CellParams) -> h.Module:
    m = h.Module()
    m.a = h.Input()
    {extra}
    return m

Ext = h.ExternalModule(name="Ext", port_list=[h.Port(name="a")], desc="{lib}")
Mod = h.Module(name="Mod")
"""


def two_libs():
    """two Python modules, each with a generator `Cell`, an external module `Ext` and a module `Mod`: same names, different things"""
    import importlib, os, sys, tempfile

    if "c09_liba" in sys.modules:
        return sys.modules["c09_liba"], sys.modules["c09_libb"]
    import atexit, shutil
    d = tempfile.mkdtemp(prefix="c09libs")
    atexit.register(shutil.rmtree, d, True)
    for lib, extra in (("c09_liba", "pass"), ("c09_libb", "m.b = h.Input()")):
        with open(os.path.join(d, lib + ".py"), "w") as f:
            f.write(LIB_SRC.format(extra=extra, lib=lib))
    sys.path.insert(0, d)
    try:
        return importlib.import_module("c09_liba"), importlib.import_module("c09_libb")
    finally:
        sys.path.remove(d)


# ---- the hashed form against NameEnc.lean (theorem hashed_encoding_injective): types and values as the model takes them

def _opt(t):
    return {"k": "union", "a": {"k": "none"}, "b": t}


SUB_TY = {"k": "pc", "fs": [["gain", _opt({"k": "float"})], ["tag", _opt({"k": "str"})], ["n", {"k": "int"}]]}
KIND_TY = {
    "oint": _opt({"k": "int"}), "obool": _opt({"k": "bool"}), "ofloat": _opt({"k": "float"}), "ostr": _opt({"k": "str"}),
    "corner": {"k": "enum", "t": {"k": "str"}}, "ocorner": _opt({"k": "enum", "t": {"k": "str"}}), "omode": _opt({"k": "enum", "t": {"k": "int"}}),
    "otup": _opt({"k": "tuple", "t": {"k": "int"}}), "tupstr": {"k": "tuple", "t": {"k": "str"}}, "sub": SUB_TY, "osub": _opt(SUB_TY),
    "pre": {"k": "prefixed"}, "opre": _opt({"k": "prefixed"}), "gen": {"k": "named"}, "ogen": _opt({"k": "named"}), "ext": {"k": "named"}, "inst": {"k": "named"},
}


def model_value(v):
    """a parameter value as NameEnc.PV — written from the value itself, not through the encoder under test"""
    import dataclasses
    from decimal import localcontext

    if v is None:
        return {"k": "none"}
    if isinstance(v, Enum):
        return {"k": "enum", "v": model_value(v.value)}
    if isinstance(v, bool):
        return {"k": "bool", "v": v}
    if isinstance(v, int):
        return {"k": "int", "v": str(v)}
    if isinstance(v, float):
        return {"k": "float", "v": repr(v)}
    if isinstance(v, str):
        return {"k": "str", "v": v}
    if isinstance(v, (tuple, list)):
        return {"k": "tuple", "xs": [model_value(x) for x in v]}
    if isinstance(v, h.Prefixed):
        with localcontext() as c:  # the exact value, shortest digits: equal numbers however written have one text
            c.prec = 400
            return {"k": "prefixed", "v": str(v.number.scaleb(v.prefix.value).normalize())}
    if isinstance(v, h.Generator):
        return {"k": "named", "v": f"{v.func.__module__}.{v.func.__name__}"}
    if isinstance(v, (h.ExternalModule, h.Module)):
        return {"k": "named", "v": f"{v._source_info.pymodule.__name__}.{v.name}" if False else f"{_home(v)}.{v.name}"}
    if dataclasses.is_dataclass(v):
        return {"k": "pc", "fs": [[f.name, model_value(getattr(v, f.name))] for f in dataclasses.fields(v)]}
    raise TypeError(type(v).__name__)


def _home(obj):
    """the Python module an object of the two libraries was made in (the libraries make nothing anywhere else)"""
    la, lb = two_libs()
    for lib in (la, lb):
        if obj in (lib.Ext, lib.Mod) or getattr(getattr(obj, "_generated_by", None), "gen", None) is lib.Cell:
            return lib.__name__
    raise ValueError(obj)


def impl_tree(params):
    """the JSON text `_unique_name` hashes, read back as a tree in the model's output format"""
    from hdl21.params import hdl21_naming_encoder

    text = json.dumps(params, indent=4, default=hdl21_naming_encoder)
    raw = json.loads(text, parse_float=lambda x: {"f": x}, parse_int=lambda x: {"i": x}, object_pairs_hook=lambda ps: {"o": [[k, v] for k, v in ps]})

    def wrap(x):
        if isinstance(x, str):
            return {"s": x}
        if isinstance(x, list):
            return {"a": [wrap(y) for y in x]}
        if isinstance(x, dict) and "o" in x:
            return {"o": [[k, wrap(v)] for k, v in x["o"]]}
        return x
    return wrap(raw), text


def tree_text(t):
    """`json.dumps(…, indent=4)` of a model tree"""
    def un(x):
        if isinstance(x, dict):
            if "s" in x:
                return x["s"]
            if "i" in x:
                return int(x["i"])
            if "f" in x:
                return float(x["f"])
            if "a" in x:
                return [un(y) for y in x["a"]]
            return {k: un(v) for k, v in x["o"]}
        return x
    return json.dumps(un(t), indent=4)


def hashed_check(ctx):
    """The md5-of-JSON form over generated shapes: optional fields at falsy values against None, enums (also IntEnum members of
    value 0), tuples, nested param-classes, Prefixed, and Generator- / ExternalModule- / Module-valued fields holding same-named
    things of two Python modules.  All pairs of 7 values per shape: equal parameters <=> the identical module <=> one name; the
    distinct modules of a shape are exported together."""
    from enum import IntEnum
    from typing import Tuple

    rep, rng = ctx.rep, ctx.rng
    la, lb = two_libs()

    class Corner(Enum):
        TT = "tt"
        FF = "ff"
        NONE = ""

    class Mode(IntEnum):
        OFF = 0
        ON = 1

    @h.paramclass
    class Sub:
        gain = h.Param(dtype=Optional[float], desc="gain", default=None)
        tag = h.Param(dtype=Optional[str], desc="tag", default=None)
        n = h.Param(dtype=int, desc="n", default=0)

    from decimal import Decimal as D

    # more digits than the default decimal context keeps (28): unequal in the last one; and one of them written differently
    LONG = [h.Prefixed(number=D("123456789.00000000000000000001"), prefix=h.prefix.K), h.Prefixed(number=D("123456789.00000000000000000002"), prefix=h.prefix.K),
            h.Prefixed(number=D("123456789000.0000000000000000100"), prefix=h.prefix.UNIT),
            h.Prefixed(number=D("2" + "0" * 38 + "1"), prefix=h.prefix.m), h.Prefixed(number=D("2" + "0" * 38 + "3"), prefix=h.prefix.m)]
    pools = {
        "oint": (Optional[int], [None, 0, 1, -1, 2]),
        "obool": (Optional[bool], [None, False, True]),
        "ofloat": (Optional[float], [None, 0.0, 0.5, 1.0]),
        "ostr": (Optional[str], [None, "", "None", "null", "0", "x"]),
        "corner": (Corner, [Corner.TT, Corner.FF, Corner.NONE]),
        "ocorner": (Optional[Corner], [None, Corner.TT, Corner.NONE]),
        "omode": (Optional[Mode], [None, Mode.OFF, Mode.ON]),
        "otup": (Optional[Tuple[int, ...]], [None, (), (0,), (0, 0), (1, 2), (2, 1)]),
        "tupstr": (Tuple[str, ...], [(), ("",), ("a", "b"), ("a,b",), ("a", "b", "")]),
        "sub": (Sub, [Sub(), Sub(gain=0.0), Sub(tag=""), Sub(n=1), Sub(gain=0.0, tag=""), Sub(tag="None")]),
        "osub": (Optional[Sub], [None, Sub(), Sub(gain=0.0)]),
        "pre": (h.Prefixed, [0 * h.prefix.m, 1 * h.prefix.m, 1000 * h.prefix.µ, h.Prefixed.new(1)] + LONG),
        "opre": (Optional[h.Prefixed], [None, h.Prefixed.new(0), 1 * h.prefix.K, 1000 * h.prefix.UNIT]),
        "gen": (h.Generator, [la.Cell, lb.Cell]),
        "ogen": (Optional[h.Generator], [None, la.Cell, lb.Cell]),
        "ext": (h.ExternalModule, [la.Ext, lb.Ext]),
        "inst": (h.Instantiable, [la.Mod, lb.Mod, la.Cell(w=1), lb.Cell(w=1), la.Cell(w=2)]),
    }
    hashers = ["corner", "ocorner", "omode", "otup", "tupstr", "sub", "osub", "pre", "opre", "gen", "ogen", "ext", "inst"]
    nshapes = 40 if ctx.quick else 800
    stats = {"pairs": 0, "equal_pairs": 0, "exported": 0, "trees": 0}
    singles = list(pools)  # corpus: every kind alone (next to a tuple, which forces the hashed form), with all its values
    for t in range(len(singles) + nshapes):
        if t < len(singles):
            kinds = [singles[t], "otup"]
        else:
            kinds = [rng.choice(hashers)] + rng.sample(list(pools), rng.randint(0, 3))
            rng.shuffle(kinds)
        fields = [(f"f{i}", k) for i, k in enumerate(kinds)]
        P = h.paramclass(type("HP", (), {nm: h.Param(dtype=pools[k][0], desc=nm) for nm, k in fields}))

        def body(p: P) -> h.Module:
            return h.Module()

        body.__name__ = f"H{t}"
        G = h.generator(body)
        vals = []
        base = {nm: rng.choice(pools[k][1]) for nm, k in fields}
        for _ in range(7):
            v = dict(base)
            for nm, k in rng.sample(fields, rng.randint(0, min(2, len(fields)))):  # neighbours: differ in one or two fields
                v[nm] = rng.choice(pools[k][1])
            vals.append(v)
        if t < len(singles):
            vals = [{"f0": x, "f1": None} for x in pools[singles[t]][1]] + [{"f0": pools[singles[t]][1][0], "f1": ()}]
        case = {"stream": "hashed", "fields": fields, "values": [{k: repr(x) for k, x in v.items()} for v in vals]}
        rep.count("hashed", json.dumps(case, default=str))
        try:
            ps = [P(**v) for v in vals]
            mods = [G(p) if k % 2 else G(**v) for k, (p, v) in enumerate(zip(ps, vals))]
        except Exception as ex:  # noqa
            rep.fail("pred", case, f"a valid generator call raised {type(ex).__name__}: {str(ex)[:200]}", "call-raised")
            continue
        # the tree the name is the md5 of, against the model's (theorem hashed_encoding_injective is about that tree)
        import hashlib
        ty = {"k": "pc", "fs": [[nm, KIND_TY[k]] for nm, k in fields]}
        mouts = ctx.drv.run([{"prop": "NE", "op": "enc", "ty": ty, "val": model_value(p)} for p in ps])
        for p, v, m, mo in zip(ps, case["values"], mods, mouts):
            stats["trees"] += 1
            if not (mo.get("wf") and mo.get("has")):
                rep.fail("oracle", dict(case, value=v), {"why": "the harness's value is not of the harness's type, by the model", "model": mo})
                break
            tree, text = impl_tree(p)
            if tree != mo["enc"]:
                rep.fail("corr", dict(case, value=v), {"why": "the tree the naming encoder makes of the value differs from the model's", "impl": tree, "model": mo["enc"]})
                break
            want = f"H{t}(" + hashlib.md5(tree_text(mo["enc"]).encode()).hexdigest() + ")"
            if m.name != want:
                rep.fail("corr", dict(case, value=v), {"why": "the module is not named by the md5 of the model's tree", "name": m.name, "want": want})
                break
        bad = False
        for i in range(len(vals)):
            for j in range(i):
                stats["pairs"] += 1
                same = ps[i] == ps[j]
                stats["equal_pairs"] += same
                if same != (mods[i] is mods[j]) or (mods[i] is mods[j]) != (mods[i].name == mods[j].name):
                    rep.fail("pred", dict(case, pair=[case["values"][i], case["values"][j]]),
                             f"equal={same} same module={mods[i] is mods[j]} names {mods[i].name} / {mods[j].name}", "names")
                    bad = True
                    break
            if bad:
                break
        if bad:
            continue
        top = h.Module(name=f"HTop{t}")
        for k, m in enumerate(dict.fromkeys(mods)):
            top.add(m(), name=f"i{k}")
        try:
            h.to_proto(top)
            stats["exported"] += 1
        except Exception as ex:  # noqa
            rep.fail("pred", case, f"modules generated from different values cannot be exported together: {str(ex)[:200]}", "names")
    rep.extra["hashed_stats"] = stats


def collision_search(ctx):
    """Failing-input search for the readable name: every pair of strings over a small adversarial alphabet
    (up to length 4) as the two str fields of one param class; group by name; a name shared by two different
    values is a failing input."""
    import itertools as it

    rep = ctx.rep
    P = make_pc([["a", "str"], ["b", "str"]])
    alpha = ['"', " ", "b", "=", "\\"]
    strs = [""] + ["".join(t) for n in range(1, 5) for t in it.product(alpha[:4], repeat=n)] + ["".join(t) for n in range(1, 3) for t in it.product(alpha, repeat=n)]
    strs = sorted(set(strs))
    seen = {}
    n = 0
    for a in strs:
        for b in strs:
            name = _unique_name(P(a=a, b=b))
            n += 1
            if name in seen and seen[name] != (a, b):
                rep.count("collision_search", n=n)
                rep.fail("pred", {"stream": "collision_search", "a": [a, b], "b": list(seen[name])},
                         f"two different parameter values share the name {name!r}", "names")
                return
            seen[name] = (a, b)
    rep.count("collision_search", n=n)
    rep.extra["collision_search_values"] = n


def corpus_names():
    return [
        {"shape": [["a", "str"], ["b", "str"]], "values": [["x b=y", "z"], ["x", "y b=z"], ["x", "y"], ['q"', "\\"], ["q", '"\\']]},
        {"shape": [["a", "ostr"]], "values": [[None], ["None"], ["3"], [""]]},
        {"shape": [["w", "float"], ["name", "str"]], "values": [[0.3, "poly"], [0.1 + 0.2, "poly"], [1.0, "poly"], [1.0000000000000002, "poly"], [1234567890123.0, "p"], [1234567890124.0, "p"]]},
        {"shape": [["a", "ofloat"], ["b", "oint"]], "values": [[None, 3], [3, None], [3.0, 3], [1e-11, 0], [0.1, -1]]},
        # an explicit None is a value, not "use the default"
        {"shape": [["width", "int"], ["guard", "oint", 2]], "values": [[4, None], [4, OMIT], [4, 2]]},
        {"shape": [["a", "ostr", "None"], ["b", "ofloat", 0.5]], "values": [[None, None], [OMIT, OMIT], ["None", 0.5], [None, OMIT]]},
    ]


def run(ctx):
    rng = ctx.rng
    ctx.rep.extra["rule"] = (
        "names: shapes of 1-4 scalar fields x 6 value tuples from an adversarial pool, all pairs compared; cache: random acyclic "
        "generator programs with 2-8 calls; shapes: 72 nested/enum/Prefixed/Module-valued parameter values, all pairs; "
        "every case non-trivial; distinct = distinct JSON"
    )
    cases = corpus_names()
    n = 150 if ctx.quick else 3000
    def pick(dt, optional_none=True):
        if dt in ("str", "ostr"):
            return rng.choice(STRS + ([None] if dt == "ostr" and optional_none else []))
        if dt in ("int", "oint"):
            return rng.choice([0, 1, 3, -1, 10**30, 3.0] + ([None] if dt == "oint" and optional_none else []))
        # (… and floats that differ in their last digits only: a readable name must tell them apart as the cache does — seed C09-r8-1)
        return rng.choice([0.1, 3, 3.0, 1e-11, 1e3, 1000.0, -0.0, 1e300, 0.3, 0.1 + 0.2, 1234567890123.0, 1234567890124.0, 1.0000000000000002]
                          + ([None] if dt == "ofloat" and optional_none else []))

    for _ in range(n):
        shape = [[k, rng.choice(list(DT))] for k in rng.sample(["a", "b", "c", "w", "name"], rng.randint(1, 4))]
        for ent in shape:
            if rng.random() < 0.4:  # a default: optional fields get a non-None one two times in three
                ent.append(pick(ent[1], optional_none=rng.random() < 0.33))
        shape.sort(key=lambda ent: len(ent) > 2)  # dataclass rule: fields with defaults come last
        values = []
        for _ in range(6):
            values.append([OMIT if len(ent) > 2 and rng.random() < 0.3 else pick(ent[1]) for ent in shape])
        cases.append({"shape": shape, "values": values})
    SN.run(ctx, cases)
    if not ctx.quick or ctx.rep.corr_disagreements or ctx.rep.proof_broken:
        collision_search(ctx)  # thorough tier, and the failing-input search whenever the tie is broken
    SC.run(ctx, [gen_prog(rng) for _ in range(200 if ctx.quick else 4000)])
    shapes_check(ctx)
    spellings_check(ctx)
    scalar_check(ctx)
    uncached_check(ctx)
    reset_check(ctx)
    collections_check(ctx)
    hashed_check(ctx)


def replay(ctx, rp):
    case = rp.get("case") or {}
    if case.get("stream") == "names":
        fails, im, mo = replay_names(ctx, case["case"])
        print(json.dumps({"impl": im, "model": mo, "failures": fails}, default=str)[:3000])
        if any(f[0] == "pred" for f in fails):
            print(f"VIOLATION property=C09 replay={rp.get('_path')}")
            return 1
        return 1 if fails else 0
    return Stream.replay(ctx, rp)
