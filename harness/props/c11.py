"""C11 — exported packages survive a round trip through from_proto.

For every package P produced from the design generator (3 styles), the repository's examples and the primitive /
external-module parameter space: import it with from_proto, export the imported top module(s) again, and compare the two
packages as protobuf messages (modules with ports in order / directions / widths, signals, instances, parameter values incl.
prefixed numbers and literals, connections with slices and concatenations, external modules with port order and spice type,
literals in order).
"""
import io
import json
from decimal import Decimal

import common
import designs
import observe

h = common.repo_env()
from vlsirtools import SpiceType

ASSUMPTIONS = ["protobuf message equality (==) is the comparison; the top module of P is re-exported (its dependencies follow)"]
TRUSTED = ["protobuf equality"]


_LAYOUT = {}


def ports_first():
    """Which layout the exporter at hand gives the signal list of a module: the ports' signals before the internal ones, or after
    (the property fixes neither; the module-level model has a theorem for each — `module_roundtrip`, `module_roundtrip_ports_first`)."""
    if "pf" not in _LAYOUT:
        m = h.Module(name="LayoutProbe")
        m.i1 = h.Signal()
        m.p1 = h.Port()
        m.i2 = h.Signal()
        m.r = h.R(r=1)(p=m.i1, n=m.p1)
        m.r2 = h.R(r=1)(p=m.i2, n=m.p1)
        names = [s.name for s in h.to_proto(m).modules[0].signals]
        _LAYOUT["pf"] = names.index("p1") < names.index("i1")
    return _LAYOUT["pf"]


def ns_get(node, part):
    """A child of a namespace from_proto built, by its name — read from the namespace's own entries, so that a name spelled like
    an attribute every object has (`__dict__`, `__class__`) is still the child."""
    d = vars(node)
    return d[part] if part in d else getattr(node, part)


def roundtrip(pkg, topname=None):
    """Import, then export the imported top-level modules (those no other module of the package instantiates), in package order."""
    try:
        ns = h.from_proto(pkg)
    except Exception as ex:  # noqa
        return {"import_refused": f"{type(ex).__name__}: {str(ex)[-250:]}"}
    try:
        used = {i.module.local for m in pkg.modules for i in m.instances if i.module.WhichOneof("to") == "local"}
        tops = []
        for m in pkg.modules:
            if m.name in used:
                continue
            node = ns
            parts = m.name.split(".")
            for part in parts[:-1]:
                node = ns_get(node, part)
            tops.append(ns_get(node, parts[-1]))
        pkg2 = h.to_proto(tops if len(tops) != 1 else tops[0])
    except Exception as ex:  # noqa
        return {"error": f"{type(ex).__name__}: {str(ex)[-250:]}"}
    if pkg2 == pkg:
        return "equal"
    return {"differs": first_difference(observe.pkg_json_full(pkg), observe.pkg_json_full(pkg2))}


def show_conn(c):
    """an imported connectable, written as the Lean driver writes the model's (`showConn`)"""
    if isinstance(c, h.Signal):
        return c.name
    if isinstance(c, h.Slice):
        idx = c.index
        return f"{show_conn(c.parent)}[{idx.start}:{idx.stop}]" if isinstance(idx, slice) else f"{show_conn(c.parent)}[{idx}]"
    if isinstance(c, h.Concat):
        return "{" + ",".join(show_conn(p) for p in c.parts) + "}"
    return f"<{type(c).__name__}>"


def imported_json(pkg):
    """from_proto(pkg), every module as the importer left it (before any elaboration): internal signals and ports in dict order,
    instances and their connections in dict order."""
    ns = h.from_proto(pkg)
    out = []
    for pm in pkg.modules:
        node = ns
        parts = pm.name.split(".")
        for part in parts:
            node = ns_get(node, part)
        m = node
        out.append({"name": pm.name,
                    "signals": [[s.name, s.width] for s in m.signals.values()],
                    "ports": [[s.name, s.width, s.direction.name] for s in m.ports.values()],
                    "instances": [{"n": i.name, "conns": [[pn, show_conn(c)] for pn, c in i.conns.items()]} for i in m.instances.values()]})
    return out


def impl_import(case):
    try:
        import build
        b = build.build(case["design"], case.get("style", "proc"))
        pkg = h.to_proto(b.top)
    except Exception as ex:  # noqa
        return {"reject": common.errstr(ex)}
    try:
        return {"pkg": observe.pkg_json(pkg), "imported": imported_json(pkg)}
    except Exception as ex:  # noqa
        return {"pkg": observe.pkg_json(pkg), "import_error": common.errstr(ex)}


def judge_import(case, im, mo):
    if "reject" in im:
        return
    if "import_error" in im:
        yield ("pred", f"an exported package cannot be imported: {im['import_error']}")
        return
    for got, want in zip(im["imported"], mo["modules"]):
        name = want["module"]
        if not want["shape"]:
            yield ("corr", f"module {name} of an exported package is not of the shape module_roundtrip assumes")
        if "error" in want["import"]:
            yield ("corr", f"the model refuses to import module {name}: {want['import']['error']}")
            continue
        w = want["import"]["ok"]
        w = dict(w, name=name)
        if got != w:
            yield ("corr", f"imported module {name} differs from the model's: {c11_diff(got, w)}")
        if want["import"]["export_back"] is not True:
            yield ("corr", f"the model's export of its imported module {name} is not the module ({want['import']['export_back']})")


def c11_diff(a, b):
    for k in ("signals", "ports", "instances"):
        if a.get(k) != b.get(k):
            return f"{k}: {str(a.get(k))[:300]} vs {str(b.get(k))[:300]}"
    return "names"


def line_import(case, im=None):
    return None


class ImportStream(common.Stream):
    """needs the implementation's package before the model can be asked"""

    def run(self, ctx, cases):
        rep = ctx.rep
        cases = list(cases)
        impls = common.pmap(impl_import, cases, chunk=self.chunk)
        idx = [k for k, im in enumerate(impls) if "pkg" in im]
        outs = ctx.drv.run([{"prop": "RT", "op": "package", "pkg": impls[k]["pkg"], "ports_first": ports_first()} for k in idx])
        models = dict(zip(idx, outs))
        for k, (c, im) in enumerate(zip(cases, impls)):
            rep.count(self.name, json.dumps(c, default=str), nontrivial="pkg" in im)
            for v in judge_import(c, im, models.get(k)) or []:
                rep.fail(v[0], {"stream": self.name, "case": c}, {"detail": v[1]})
        if idx:
            rep.sample({"stream": self.name, "imported": impls[idx[0]].get("imported", [])[:1], "model": models[idx[0]]["modules"][:1]})


SI = ImportStream("import_model", impl_import, line_import, judge_import, chunk=8)


def first_difference(a, b, path=""):
    if type(a) != type(b):
        return f"{path}: {a!r} != {b!r}"
    if isinstance(a, dict):
        for k in sorted(set(a) | set(b)):
            if a.get(k) != b.get(k):
                return first_difference(a.get(k), b.get(k), f"{path}.{k}")
    elif isinstance(a, list):
        if len(a) != len(b):
            return f"{path}: length {len(a)} != {len(b)}"
        for i, (x, y) in enumerate(zip(a, b)):
            if x != y:
                return first_difference(x, y, f"{path}[{i}]")
    return f"{path}: {str(a)[:80]} != {str(b)[:80]}"


@h.paramclass
class NameParams:
    s = h.Param(dtype=str, desc="a string which ends up inside the module's readable name")
    v = h.Param(dtype=float, desc="a float, whose text has a dot", default=1.8)


@h.generator
def NamedBy(p: NameParams) -> h.Module:
    m = h.Module()
    m.a = h.Port()
    m.r = h.R(r=1)(p=m.a, n=m.a)
    return m


@h.paramclass
class FalsyParams:
    m = h.Param(dtype=int, desc="m", default=1)
    nrd = h.Param(dtype=float, desc="nrd", default=1.0)
    opts = h.Param(dtype=str, desc="opts", default="x")
    w = h.Param(dtype=int, desc="w", default=1)


def param_space_packages(rng, n):
    """Primitives and external modules over the parameter space (prefixed numbers, literals, ints, floats, enums), literals."""
    from hdl21.prefix import Prefix, Prefixed

    out = []
    prefixes = list(Prefix)
    for k in range(n):
        m = h.Module(name=f"P{k}")
        m.a, m.b, m.c, m.d = h.Signals(4)
        pre = prefixes[k % len(prefixes)]
        num = Decimal(rng.randrange(1, 10**rng.randint(1, 20))).scaleb(-rng.randint(0, 12))
        val = Prefixed(number=num, prefix=pre)
        m.r = h.R(r=val)(p=m.a, n=m.b)
        m.cc = h.C(c=rng.choice([1e-12, "3*x", 5, Decimal("2.50")]))(p=m.a, n=m.b)
        m.v = h.Vdc(dc=val, ac=rng.choice([None, 1, "ac_expr"]))(p=m.a, n=m.b)
        m.vp = h.Vpulse(v1=0, v2=val, delay=1 * Prefix.NANO, rise=rng.choice([None, 2 * Prefix.PICO]), period="per", width=3)(p=m.c, n=m.b)
        m.e = h.Vcvs(gain=val)(p=m.a, n=m.b, cp=m.c, cn=m.d)
        E = h.ExternalModule(name=f"Ext{k % 3}", domain=rng.choice([None, "mydomain"]), port_list=[h.Input(name="i", width=2), h.Output(name="o"), h.Port(name="p")],
                             paramtype=dict, spicetype=rng.choice(list(SpiceType)))
        m.bus = h.Signal(width=3)
        m.x = E({"s": "str", "n": 4, "f": 0.25, "p": val, "l": h.Literal("lit")})(i=m.bus[0:2], o=m.bus[2], p=h.Concat(m.a)[0])
        # falsy but meaningful values (0, 0.0, the empty string) on a param-class typed external module
        E2 = h.ExternalModule(name=f"ExtF{k % 2}", port_list=[h.Port(name="p"), h.Port(name="n")], paramtype=FalsyParams)
        m.y = E2(FalsyParams(m=rng.choice([0, 2]), nrd=rng.choice([0.0, 0.5]), opts=rng.choice(["", "o"]), w=rng.choice([0, 1])))(p=m.a, n=m.b)
        # a second instance of the same targets whose parameters are equal in value but written differently (another prefix, float for int)
        lower = [q for q in prefixes if q.value == pre.value - 3]
        val2 = Prefixed(number=num * 1000, prefix=lower[0]) if lower else Prefixed(number=num, prefix=pre)
        m.r2 = h.R(r=val2)(p=m.a, n=m.b)
        m.x2 = E({"s": "str", "n": 4.0, "f": 0.25, "p": val2, "l": h.Literal("lit")})(i=m.bus[0:2], o=m.bus[2], p=m.b)
        m.v2 = h.Vdc(dc=val2, ac=rng.choice([None, 1.0]))(p=m.a, n=m.b)
        # a parameter given as None where the primitive's default is something else: left out on export, still None after import
        m.v3 = h.Vdc(dc=None, ac=rng.choice([None, 1]))(p=m.a, n=m.b)
        m.i3 = h.Idc(dc=None)(p=m.a, n=m.b)
        # explicit Literals whose text looks like a number stay Literals, on every kind of primitive
        m.r3 = h.R(r=h.Literal(rng.choice(["100", "1e-6", " 2.50 ", "1_000", "+3"])))(p=m.a, n=m.b)
        m.vp2 = h.Vpulse(v1=h.Literal("0"), v2="vhi", delay=h.Literal("1e-9"), rise=h.Literal("2"), period="per", width=val)(p=m.c, n=m.b)
        m.mos = h.Mos(model=rng.choice([None, "nch"]), w=h.Literal("2"), l=rng.choice(["lmin", h.Literal("0.5")]))(d=m.a, g=m.c, s=m.b, b=m.b)
        m.literals.append(h.Literal(f".param k={k}"))
        m.literals.append(h.Literal("* second literal"))
        # the same line again, next to itself and further down
        m.literals.append(h.Literal("* second literal"))
        m.literals.append(h.Literal("`endif"))
        m.literals.append(h.Literal(f".param k={k}"))
        out.append((f"params:{k}", m))
    # generated modules whose names embed strings full of the separator of qualified names: every dot must come back
    for k, txt in enumerate(["../pdk/models.sp", "a..b", ".", "..", "x.", ".hidden", "a. b", "lib/models.sp", "...", "a.b.c..d", "tt.1.8",
                             # a segment called like an attribute of the namespaces from_proto builds
                             "a.name.b", "name", "x.name", "name.name", "a.__dict__.b"]):
        m = h.Module(name=f"Dots{k}")
        m.s = h.Signal()
        m.i = NamedBy(s=txt)(a=m.s)
        m.j = NamedBy(s=txt, v=0.5)(a=m.s)
        out.append((f"dotted-name:{txt}", m))
    # one declaration made twice (a function called twice gives two ExternalModule objects of one qualified name): one entry
    def mk_ext(dom):
        return h.ExternalModule(name="Twice", domain=dom, port_list=[h.Port(name="a"), h.Input(name="i", width=2)], paramtype=dict)
    for dom in (None, "d"):
        m = h.Module(name=f"ExtTwice{dom or ''}")
        m.s, m.bus = h.Signal(), h.Signal(width=2)
        m.i1 = mk_ext(dom)({})(a=m.s, i=m.bus)
        m.i2 = mk_ext(dom)({"k": 1})(a=m.s, i=m.bus)
        out.append((f"ext:declared-twice:{dom}", m))
    # an external module declared in a domain the importer knows as its own, next to the real thing
    for dom, name, ports in [("hdl21.primitives", "Mos", "dgsb"), ("hdl21.primitives", "NoSuch", "ab"), ("vlsir.primitives", "resistor", "pn"),
                             ("hdl21.ideal", "IdealResistor", "pn")]:
        E = h.ExternalModule(name=name, domain=dom, paramtype=dict, port_list=[h.Port(name=n) for n in ports])
        m = h.Module(name=f"Priv_{name}")
        m.s, m.t = h.Signals(2)
        m.i = E({"w": 3})(**{n: m.s for n in ports})
        m.r = h.R(r=1)(p=m.s, n=m.t)
        m.mos = h.Mos(model="nch")(d=m.s, g=m.t, s=m.t, b=m.t)
        out.append((f"ext:privileged-domain:{dom}.{name}", m))
    # modules defined outside any Python module (exec-ed source with fresh globals, as in a notebook cell or `python -c`)
    src = ("import hdl21 as h\n@h.module\nclass LeafX:\n    a = h.Port()\n    r = h.R(r=1)(p=a, n=a)\n"
           "@h.module\nclass TopX:\n    s = h.Signal()\n    l = LeafX(a=s)\n")
    g = {}
    exec(src, g)
    out.append(("exec:no-import-path", g["TopX"]))
    # slices of a concatenation that take all of one signal and part of its neighbour — by hand, and as the shares of an instance array whose
    # elements straddle the parts (seed C11-r9-1: a resolver that leaves `a[0:4]` of a four-bit `a` standing exports what re-elaboration
    # of the imported module collapses to `a`)
    wide = h.Module(name="Wide6"); wide.q = h.Input(width=6)
    st = h.Module(name="Straddle")
    st.a, st.b, st.c = h.Signal(width=4), h.Signal(width=4), h.Signal(width=4)
    st.i0 = wide(q=h.Concat(st.a, st.b)[0:6])
    st.i1 = wide(q=h.Concat(st.a, st.b)[2:8])
    st.arr = 2 * wide(q=h.Concat(st.a, st.b, st.c))
    st.i2 = wide(q=h.Concat(st.a[0:4], st.b[0:2]))
    out.append(("slices:all-of-one-part-and-some-of-the-next", st))
    # a module whose qualified name is also the namespace path of another (`lib.amp` defined in lib/__init__.py, `lib.amp.Core` in
    # lib/amp.py; here: `a` under `a.b`): from_proto files modules in a tree of namespaces, where a name is a module or a namespace
    src = ("import hdl21 as h\nA = h.Module(name='a'); A.add(h.Port(name='p'))\n"
           "B = h.Module(name='a.b'); q = B.add(h.Port(name='q')); B.add(A(p=q), name='i')\n")
    g = {}
    exec(src, g)
    out.append(("names:module-is-also-namespace", g["B"]))
    return out


def known_key(label, text):
    """the recorded finding: from_proto refuses a package in which one module's qualified name is a namespace on another's path —
    matched by the program *and* by the kind of failure — from_proto itself refuses, whatever it says — (any other failure of the program:
    an import that succeeds and a re-export that differs or fails, is reported)"""
    if label == "names:module-is-also-namespace" and ("import_refused" in text or "cannot be imported" in text):
        return "import:module-is-also-namespace"
    return None


def run(ctx):
    rep, rng = ctx.rep, ctx.rng
    rep.extra["rule"] = (
        "packages of generated designs (3 styles), of the examples' exports, and of modules over the primitive / external-module parameter "
        "space with literals and spice types; non-trivial = package has an instance; distinct = distinct label/design"
    )
    n = 200 if ctx.quick else 4000
    cases = designs.gen_cases(rng, n, roundtrip=True, netlist=False)
    stats = {"equal": 0, "differs": 0, "error": 0}
    for c, im, mo in designs.run_designs(ctx, cases):
        if "pkg" not in im:
            continue
        rep.count("generated", json.dumps(c["design"]))
        rt = im["roundtrip"]
        if rt == "equal":
            stats["equal"] += 1
        else:
            stats["differs" if "differs" in rt else "error"] += 1
            rep.fail("pred", {"stream": "generated", "case": c}, {"why": "round trip does not reproduce the package", "roundtrip": str(rt)[:1500]})
    # the module-level model (RoundTrip.lean: importModule / exportModule / Shape) against what from_proto really builds
    SI.run(ctx, [dict(c, roundtrip=False) for c in cases[: (120 if ctx.quick else 2000)]])
    c06 = __import__("props.c06", fromlist=["x"])
    labelled = []
    for label, mk in c06.builtin_packages(ctx) + param_space_packages(rng, 24 if ctx.quick else 400):
        try:
            m = mk if isinstance(mk, h.Module) else mk()
            pkg = h.to_proto(m)
            labelled.append((label, pkg, pkg.modules[-1].name))
        except Exception as ex:  # noqa
            rep.fail("corr", {"stream": "builtin", "label": label}, f"export raised {type(ex).__name__}: {str(ex)[-200:]}")
    ex_pkgs, _ = c06.examples_packages()
    labelled += [(f"example:{i}", p, p.modules[-1].name) for i, p in enumerate(ex_pkgs) if p.modules]
    # the module-level model on these packages too
    pj = [observe.pkg_json(pkg) for _, pkg, _ in labelled]
    mos = ctx.drv.run([{"prop": "RT", "op": "package", "pkg": j, "ports_first": ports_first()} for j in pj])
    for (label, pkg, top), j, mo in zip(labelled, pj, mos):
        try:
            im = {"pkg": j, "imported": imported_json(pkg)}
        except Exception as ex:  # noqa
            im = {"pkg": j, "import_error": common.errstr(ex)}
        rep.count("import_model", "builtin:" + label)
        for v in judge_import(None, im, mo) or []:
            rep.fail(v[0], {"stream": "import_model", "label": label}, {"detail": v[1]}, finding_key=known_key(label, str(v[1]) + str(im.get("import_error"))))
    for label, pkg, top in labelled:
        rep.count("builtin", label)
        rt = roundtrip(pkg, top)
        if rt == "equal":
            stats["equal"] += 1
        else:
            stats["differs" if "differs" in rt else "error"] += 1
            rep.fail("pred", {"stream": "builtin", "label": label}, {"why": "round trip does not reproduce the package", "roundtrip": str(rt)[:1500]},
                     finding_key=known_key(label, str(rt)))
    rep.extra["roundtrip_stats"] = stats
    rep.sample({"label": labelled[0][0], "top": labelled[0][2]})


def replay(ctx, rp):
    print(json.dumps(rp.get("detail"), default=str)[:3000])
    if rp["case"].get("stream") == "import_model" and "case" in rp["case"]:
        return common.replay_by_rerun(ctx, rp, lambda c: SI.run(c, [rp["case"]["case"]]))
    if rp["case"].get("stream") == "generated":
        (c, im, mo), = designs.run_designs(ctx, [rp["case"]["case"]])
        print(str(im.get("roundtrip"))[:1000])
        if im.get("roundtrip") != "equal":
            print(f"VIOLATION property=C11 replay={rp.get('_path')}")
            return 1
        return 0
    return 1
