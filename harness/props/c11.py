"""C11 — exported packages survive a round trip through from_proto.

For every package P produced from the design generator (3 styles), the repository's examples and the primitive /
external-module parameter space: import it with from_proto, export the imported top module(s) again, and compare the two
packages as protobuf messages (modules with ports in order / directions / widths, signals, instances, parameter values incl.
prefixed numbers and literals, connections with slices and concatenations, external modules with port order and spice type,
literals in order).
"""
import io
import json
from decimal import Decimal

import common
import designs
import observe

h = common.repo_env()
from vlsirtools import SpiceType

ASSUMPTIONS = ["protobuf message equality (==) is the comparison; the top module of P is re-exported (its dependencies follow)"]
TRUSTED = ["protobuf equality"]


def roundtrip(pkg, topname=None):
    """Import, then export the imported top-level modules (those no other module of the package instantiates), in package order."""
    try:
        ns = h.from_proto(pkg)
        used = {i.module.local for m in pkg.modules for i in m.instances if i.module.WhichOneof("to") == "local"}
        tops = []
        for m in pkg.modules:
            if m.name in used:
                continue
            node = ns
            parts = m.name.split(".")
            for part in parts[:-1]:
                node = getattr(node, part)
            tops.append(getattr(node, parts[-1]))
        pkg2 = h.to_proto(tops if len(tops) != 1 else tops[0])
    except Exception as ex:  # noqa
        return {"error": f"{type(ex).__name__}: {str(ex)[-250:]}"}
    if pkg2 == pkg:
        return "equal"
    return {"differs": first_difference(observe.pkg_json_full(pkg), observe.pkg_json_full(pkg2))}


def first_difference(a, b, path=""):
    if type(a) != type(b):
        return f"{path}: {a!r} != {b!r}"
    if isinstance(a, dict):
        for k in sorted(set(a) | set(b)):
            if a.get(k) != b.get(k):
                return first_difference(a.get(k), b.get(k), f"{path}.{k}")
    elif isinstance(a, list):
        if len(a) != len(b):
            return f"{path}: length {len(a)} != {len(b)}"
        for i, (x, y) in enumerate(zip(a, b)):
            if x != y:
                return first_difference(x, y, f"{path}[{i}]")
    return f"{path}: {str(a)[:80]} != {str(b)[:80]}"


@h.paramclass
class FalsyParams:
    m = h.Param(dtype=int, desc="m", default=1)
    nrd = h.Param(dtype=float, desc="nrd", default=1.0)
    opts = h.Param(dtype=str, desc="opts", default="x")
    w = h.Param(dtype=int, desc="w", default=1)


def param_space_packages(rng, n):
    """Primitives and external modules over the parameter space (prefixed numbers, literals, ints, floats, enums), literals."""
    from hdl21.prefix import Prefix, Prefixed

    out = []
    prefixes = list(Prefix)
    for k in range(n):
        m = h.Module(name=f"P{k}")
        m.a, m.b, m.c, m.d = h.Signals(4)
        pre = prefixes[k % len(prefixes)]
        num = Decimal(rng.randrange(1, 10**rng.randint(1, 20))).scaleb(-rng.randint(0, 12))
        val = Prefixed(number=num, prefix=pre)
        m.r = h.R(r=val)(p=m.a, n=m.b)
        m.cc = h.C(c=rng.choice([1e-12, "3*x", 5, Decimal("2.50")]))(p=m.a, n=m.b)
        m.v = h.Vdc(dc=val, ac=rng.choice([None, 1, "ac_expr"]))(p=m.a, n=m.b)
        m.vp = h.Vpulse(v1=0, v2=val, delay=1 * Prefix.NANO, rise=rng.choice([None, 2 * Prefix.PICO]), period="per", width=3)(p=m.c, n=m.b)
        m.e = h.Vcvs(gain=val)(p=m.a, n=m.b, cp=m.c, cn=m.d)
        E = h.ExternalModule(name=f"Ext{k % 3}", domain=rng.choice([None, "mydomain"]), port_list=[h.Input(name="i", width=2), h.Output(name="o"), h.Port(name="p")],
                             paramtype=dict, spicetype=rng.choice(list(SpiceType)))
        m.bus = h.Signal(width=3)
        m.x = E({"s": "str", "n": 4, "f": 0.25, "p": val, "l": h.Literal("lit")})(i=m.bus[0:2], o=m.bus[2], p=h.Concat(m.a)[0])
        # falsy but meaningful values (0, 0.0, the empty string) on a param-class typed external module
        E2 = h.ExternalModule(name=f"ExtF{k % 2}", port_list=[h.Port(name="p"), h.Port(name="n")], paramtype=FalsyParams)
        m.y = E2(FalsyParams(m=rng.choice([0, 2]), nrd=rng.choice([0.0, 0.5]), opts=rng.choice(["", "o"]), w=rng.choice([0, 1])))(p=m.a, n=m.b)
        m.literals.append(h.Literal(f".param k={k}"))
        m.literals.append(h.Literal("* second literal"))
        out.append((f"params:{k}", m))
    # modules defined outside any Python module (exec-ed source with fresh globals, as in a notebook cell or `python -c`)
    src = ("import hdl21 as h\n@h.module\nclass LeafX:\n    a = h.Port()\n    r = h.R(r=1)(p=a, n=a)\n"
           "@h.module\nclass TopX:\n    s = h.Signal()\n    l = LeafX(a=s)\n")
    g = {}
    exec(src, g)
    out.append(("exec:no-import-path", g["TopX"]))
    return out


def run(ctx):
    rep, rng = ctx.rep, ctx.rng
    rep.extra["rule"] = (
        "packages of generated designs (3 styles), of the examples' exports, and of modules over the primitive / external-module parameter "
        "space with literals and spice types; non-trivial = package has an instance; distinct = distinct label/design"
    )
    n = 200 if ctx.quick else 4000
    cases = designs.gen_cases(rng, n, roundtrip=True, netlist=False)
    stats = {"equal": 0, "differs": 0, "error": 0}
    for c, im, mo in designs.run_designs(ctx, cases):
        if "pkg" not in im:
            continue
        rep.count("generated", json.dumps(c["design"]))
        rt = im["roundtrip"]
        if rt == "equal":
            stats["equal"] += 1
        else:
            stats["differs" if "differs" in rt else "error"] += 1
            rep.fail("pred", {"stream": "generated", "case": c}, {"why": "round trip does not reproduce the package", "roundtrip": str(rt)[:1500]})
    c06 = __import__("props.c06", fromlist=["x"])
    labelled = []
    for label, mk in c06.builtin_packages(ctx) + param_space_packages(rng, 24 if ctx.quick else 400):
        try:
            m = mk if isinstance(mk, h.Module) else mk()
            pkg = h.to_proto(m)
            labelled.append((label, pkg, pkg.modules[-1].name))
        except Exception as ex:  # noqa
            rep.fail("corr", {"stream": "builtin", "label": label}, f"export raised {type(ex).__name__}: {str(ex)[-200:]}")
    ex_pkgs, _ = c06.examples_packages()
    labelled += [(f"example:{i}", p, p.modules[-1].name) for i, p in enumerate(ex_pkgs) if p.modules]
    for label, pkg, top in labelled:
        rep.count("builtin", label)
        rt = roundtrip(pkg, top)
        if rt == "equal":
            stats["equal"] += 1
        else:
            stats["differs" if "differs" in rt else "error"] += 1
            rep.fail("pred", {"stream": "builtin", "label": label}, {"why": "round trip does not reproduce the package", "roundtrip": str(rt)[:1500]})
    rep.extra["roundtrip_stats"] = stats
    rep.sample({"label": labelled[0][0], "top": labelled[0][2]})


def replay(ctx, rp):
    print(json.dumps(rp.get("detail"), default=str)[:3000])
    if rp["case"].get("stream") == "generated":
        (c, im, mo), = designs.run_designs(ctx, [rp["case"]["case"]])
        print(str(im.get("roundtrip"))[:1000])
        if im.get("roundtrip") != "equal":
            print(f"VIOLATION property=C11 replay={rp.get('_path')}")
            return 1
        return 0
    return 1
