"""
eval_out.py — development tool: confirm sub-agent deliveries and run the checks against them, in parallel private slots.

  eval_out.py <out_dir>... [-j N]      out_dir = /tmp/agents/out/x02 (breaking: k/patch.diff, demo.py, meta.json)
                                                 /tmp/agents/out/b02 (benign:   k/patch.diff, probe.py, meta.json)
For every change: clean tree -> demo/probe rc ; patched tree -> pytest summary line, demo/probe rc ; the property's quick check.
"""
import argparse, json, os, queue, subprocess, sys, threading, time
from pathlib import Path
sys.path.insert(0, os.path.dirname(os.path.abspath(__file__)))
import sweep

EXPECT = "224 passed, 4 skipped, 8 xfailed, 1 xpassed"


def pyrun(w, script, timeout=600):
    env = dict(os.environ, PYTHONPATH=f"{w}:{w}/pdks/Sky130:{w}/pdks/Gf180:{w}/pdks/Asap7")
    try:
        p = subprocess.run(["/venv/bin/python", str(script)], cwd=w, env=env, capture_output=True, text=True, timeout=timeout)
        return p.returncode, (p.stdout + p.stderr)[-400:]
    except subprocess.TimeoutExpired:
        return 124, "timeout"


def suite(w):
    env = dict(os.environ, PYTHONPATH=f"{w}:{w}/pdks/Sky130:{w}/pdks/Gf180:{w}/pdks/Asap7")
    p = subprocess.run(["/venv/bin/python", "-m", "pytest", "-q", "-p", "no:cacheprovider", "-x", "--timeout=900"], cwd=w, env=env, capture_output=True, text=True)
    last = [l for l in (p.stdout + p.stderr).splitlines() if l.strip()][-1:]
    return last[0] if last else ""


def worker(k, jobs, results, lock):
    v, w = sweep.mk_slot(k)
    while True:
        try:
            job = jobs.get_nowait()
        except queue.Empty:
            break
        d = Path(job["dir"])
        script = d / ("demo.py" if job["kind"] == "x" else "probe.py")
        res = {"id": job["id"], "prop": job["prop"], "kind": job["kind"]}
        sweep.sh(f"git -C {w} checkout -q -- . && git -C {w} clean -fdq")
        res["clean_rc"], _ = pyrun(w, script)
        r = sweep.sh(f"git -C {w} apply {d / 'patch.diff'}")
        if r.returncode != 0:
            # written against a HEAD a few fix: commits back — try with fuzz
            sweep.sh(f"git -C {w} checkout -q -- . && git -C {w} clean -fdq")
            r = sweep.sh(f"cd {w} && patch -p1 --fuzz=3 -s --no-backup-if-mismatch < {d / 'patch.diff'} && ! find . -name '*.rej' | grep -q .")
            res["fuzz"] = r.returncode == 0
        if r.returncode != 0:
            res["error"] = "patch does not apply: " + r.stderr[-200:]
        else:
            s = suite(w)
            res["suite_ok"] = EXPECT in s
            res["suite"] = s[-120:]
            res["patched_rc"], res["patched_tail"] = pyrun(w, script)
            for prop in job["props"]:
                c = sweep.run_check(v, w, prop)
                res.setdefault("checks", {})[prop] = {"rc": c["rc"], "secs": c["secs"], "violations": c["violations"], "tail": c["tail"][-300:]}
                if c["violations"]:
                    res["checks"][prop]["replay_head"] = sweep.replay_text(v, c["violations"][0])
        with lock:
            results.append(res)
            brief = {k_: res.get(k_) for k_ in ("id", "clean_rc", "suite_ok", "patched_rc", "error")}
            brief["checks"] = {p: (c["rc"], len(c["violations"])) for p, c in res.get("checks", {}).items()}
            print(json.dumps(brief), flush=True)
    sweep.rm_slot(k)


def main():
    ap = argparse.ArgumentParser()
    ap.add_argument("dirs", nargs="+")
    ap.add_argument("-j", type=int, default=6)
    ap.add_argument("--also", default="", help="extra properties to run against every change, comma separated")
    ap.add_argument("--out", default="/tmp/sweep/eval_results.json")
    a = ap.parse_args()
    sweep.ROOT.mkdir(exist_ok=True)
    jobs = queue.Queue()
    for d in a.dirs:
        d = Path(d)
        kind = d.name[0]
        prop = "C" + d.name[1:3]
        for sub in sorted(d.iterdir()):
            if (sub / "patch.diff").exists():
                jobs.put({"id": f"{d.name}-{sub.name}", "dir": str(sub), "kind": kind, "prop": prop, "props": [prop] + [p for p in a.also.split(",") if p]})
    n = jobs.qsize()
    results, lock = [], threading.Lock()
    ts = [threading.Thread(target=worker, args=(k + 20, jobs, results, lock)) for k in range(min(a.j, n))]
    for t in ts:
        t.start()
    for t in ts:
        t.join()
    old = json.load(open(a.out)) if os.path.exists(a.out) else []
    ids = {r["id"] for r in results}
    json.dump([r for r in old if r["id"] not in ids] + results, open(a.out, "w"), indent=1)


if __name__ == "__main__":
    main()
