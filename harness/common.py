"""
Shared plumbing for the Hdl21 / Lean-4 verification harness.

* repo environment (imports hdl21 and the PDK packages from /repo's working tree)
* lake build under a lock, axiom audit, forbidden-token grep
* the compiled Lean line-protocol driver
* evidence, replay and known-findings handling
"""
import fcntl
import hashlib
import json
import os
import re
import subprocess
import sys
import time
from pathlib import Path

VERIF = Path(__file__).resolve().parent.parent
LEAN = VERIF / "lean"
REPO = Path(os.environ.get("HDL21_REPO", "/repo"))
EVIDENCE = VERIF / "evidence"
REPLAYS = VERIF / "replays"
DRV = LEAN / ".lake" / "build" / "bin" / "drv"
STD_AXIOMS = {"propext", "Classical.choice", "Quot.sound"}
FORBIDDEN = re.compile(
    r"\bsorry\b|\badmit\b|^\s*axiom\s|\bnative_decide\b|\bbv_decide\b|implemented_by|\bunsafe\s|maxHeartbeats\s+0"
)


def repo_env():
    """Put /repo and the PDK packages first on sys.path; assert hdl21 comes from /repo."""
    paths = [str(REPO), str(REPO / "pdks" / "Sky130"), str(REPO / "pdks" / "Gf180"), str(REPO / "pdks" / "Asap7")]
    for p in reversed(paths):
        if p in sys.path:
            sys.path.remove(p)
        sys.path.insert(0, p)
    import hdl21

    assert Path(hdl21.__file__).resolve().is_relative_to(REPO.resolve()), hdl21.__file__
    return hdl21


# --------------------------------------------------------------------------- Lean side


def lake_build(targets, timeout=1500):
    """`lake build <targets>` under an exclusive lock. Returns (ok, log)."""
    LEAN.mkdir(exist_ok=True)
    lock = open(LEAN / ".build.lock", "w")
    fcntl.flock(lock, fcntl.LOCK_EX)
    try:
        p = subprocess.run(
            ["lake", "build"] + list(targets), cwd=LEAN, capture_output=True, text=True, timeout=timeout
        )
        return p.returncode == 0, p.stdout + p.stderr
    finally:
        fcntl.flock(lock, fcntl.LOCK_UN)
        lock.close()


def import_closure(start):
    """`start` and every Hdl21Model module it imports, directly or not (the files leanchecker re-checks in the thorough tier)"""
    import re

    seen, todo = [], [start]
    while todo:
        m = todo.pop()
        if m in seen:
            continue
        seen.append(m)
        path = LEAN / (m.replace(".", "/") + ".lean")
        if not path.exists():
            continue
        for line in open(path):
            mm = re.match(r"import (Hdl21Model\.[\w.]+)", line)
            if mm:
                todo.append(mm.group(1))
    return seen


def strip_comments(text):
    """Remove Lean block and line comments (nesting-aware for /- -/)."""
    out, i, depth, n = [], 0, 0, len(text)
    while i < n:
        if text.startswith("/-", i):
            depth += 1
            i += 2
        elif depth and text.startswith("-/", i):
            depth -= 1
            i += 2
        elif depth:
            if text[i] == "\n":
                out.append("\n")
            i += 1
        elif text.startswith("--", i):
            while i < n and text[i] != "\n":
                i += 1
        else:
            out.append(text[i])
            i += 1
    return "".join(out)


def forbidden_tokens():
    """Grep every model/proof file for sorry/axiom/native_decide/... outside comments."""
    hits = []
    for f in sorted(LEAN.rglob("*.lean")):
        if ".lake" in f.parts:
            continue
        body = strip_comments(f.read_text())
        for ln, line in enumerate(body.splitlines(), 1):
            if FORBIDDEN.search(line):
                hits.append(f"{f.relative_to(LEAN)}:{ln}: {line.strip()[:120]}")
    return hits


def theorems_of(prop):
    """Names of the theorems stated in Props/<prop>.lean (fully qualified)."""
    src = strip_comments((LEAN / "Hdl21Model" / "Props" / f"{prop}.lean").read_text())
    names = re.findall(r"^\s*theorem\s+([A-Za-z_][A-Za-z0-9_'.]*)", src, flags=re.M)
    return [f"Hdl21.Props.{prop}.{n}" for n in names]


def audit(prop):
    """#print axioms for every theorem of the property. Returns dict name -> [axioms]
    (or None if the theorem is unknown to Lean, e.g. because its file no longer builds)."""
    names = theorems_of(prop)
    tmp = LEAN / ".audit" / f"{prop}.lean"
    tmp.parent.mkdir(exist_ok=True)
    tmp.write_text(
        f"import Hdl21Model.Props.{prop}\n" + "".join(f"#print axioms {n}\n" for n in names)
    )
    p = subprocess.run(["lake", "env", "lean", str(tmp)], cwd=LEAN, capture_output=True, text=True, timeout=600)
    out = p.stdout + p.stderr
    res = {}
    for n in names:
        m = re.search(
            r"'" + re.escape(n) + r"' (does not depend on any axioms|depends on axioms: \[([^\]]*)\])", out
        )
        if not m:
            res[n] = None
        elif m.group(2) is None:
            res[n] = []
        else:
            res[n] = [a.strip() for a in m.group(2).replace("\n", " ").split(",") if a.strip()]
    return res, out


class Drv:
    """The compiled Lean driver: batch of JSON lines in, same number of JSON lines out."""

    def __init__(self):
        if not DRV.exists():
            raise RuntimeError(f"driver not built: {DRV}")

    def run(self, objs, timeout=3600):
        if not objs:
            return []
        data = "\n".join(json.dumps(o, separators=(",", ":")) for o in objs) + "\n"
        p = subprocess.run([str(DRV)], input=data, capture_output=True, text=True, timeout=timeout)
        lines = p.stdout.splitlines()
        if p.returncode != 0 or len(lines) != len(objs):
            raise RuntimeError(
                f"driver failed rc={p.returncode} got {len(lines)} lines for {len(objs)}: {p.stderr[:500]}"
            )
        outs = [json.loads(l) for l in lines]
        for o, i in zip(outs, objs):
            if "protocol_error" in o:
                raise RuntimeError(f"driver protocol error {o['protocol_error']} on {json.dumps(i)[:300]}")
        return outs


# --------------------------------------------------------------------------- results


class Report:
    """Collects what one check run did; writes evidence; prints VIOLATION / KNOWN-FINDING."""

    def __init__(self, prop, tier, seed):
        self.prop, self.tier, self.seed = prop, tier, seed
        self.t0 = time.time()
        self.evaluations = 0
        self.distinct = set()
        self.samples = []
        self.failures = []  # (kind, case, detail, finding_key)
        self.streams = {}
        self.notes = []
        self.obligations = {}
        self.proof_broken = []  # names of theorems / files that no longer check
        self.corr_disagreements = 0
        self.assumptions = []
        self.extra = {}

    def count(self, stream, case_key=None, nontrivial=True, n=1):
        self.evaluations += n
        s = self.streams.setdefault(stream, {"cases": 0, "nontrivial": 0})
        s["cases"] += n
        if nontrivial:
            s["nontrivial"] += n
            if case_key is not None:
                self.distinct.add(hashlib.md5(f"{stream}|{case_key}".encode()).hexdigest()[:16])

    def sample(self, obj, limit=6):
        if len(self.samples) < limit:
            self.samples.append(obj)

    def fail(self, kind, case, detail, finding_key=None):
        """kind: 'pred' (property predicate false on implementation output),
        'corr' (model and implementation disagree), 'oracle' (spec vs independent oracle)."""
        self.failures.append({"kind": kind, "case": case, "detail": detail, "finding_key": finding_key})
        if kind == "corr":
            self.corr_disagreements += 1


def load_known():
    f = VERIF / "known_findings.json"
    if not f.exists():
        return []
    return json.loads(f.read_text()).get("findings", [])


def finish(rep: Report, technique_obligations, checker_cmd, trusted_base):
    """Write evidence, print verdict lines, return the exit code."""
    EVIDENCE.mkdir(exist_ok=True)
    known = [k for k in load_known() if k.get("property") == rep.prop and k.get("status") == "known"]
    unlisted, listed = [], {}
    for f in rep.failures:
        k = next((k for k in known if f.get("finding_key") and f["finding_key"] == k.get("match")), None)
        if k is not None:
            listed.setdefault(k["match"], (k, f))
        else:
            unlisted.append(f)
    rc = 0
    for key, (k, f) in sorted(listed.items()):
        print(f"KNOWN-FINDING: property={rep.prop} {k['what']}")
    # violations with a failing input first
    pred_fail = [f for f in unlisted if f["kind"] in ("pred", "oracle")]
    corr_fail = [f for f in unlisted if f["kind"] == "corr"]
    violations = 0
    if pred_fail:
        f = pred_fail[0]
        path = write_replay(rep, f, extra={"other_failures": len(pred_fail) - 1})
        print(f"VIOLATION property={rep.prop} replay={path}")
        violations = len(pred_fail)
        rc = 1
    elif corr_fail or rep.proof_broken:
        what = {
            "kind": "unproved",
            "case": corr_fail[0]["case"] if corr_fail else None,
            "detail": {
                "broken_theorems_or_files": rep.proof_broken,
                "first_correspondence_disagreement": corr_fail[0] if corr_fail else None,
                "note": "the property is no longer shown to hold; the failing-input search found no input "
                "on which the property predicate fails on the implementation",
            },
            "finding_key": None,
        }
        path = write_replay(rep, what)
        print(f"VIOLATION property={rep.prop} replay={path} no-failing-input-found")
        violations = max(1, len(corr_fail))
        rc = 1
    obligations = len(technique_obligations)
    discharged = sum(1 for v in technique_obligations.values() if v)
    cov = {
        "obligations": obligations,
        "discharged": discharged,
        "checker_cmd": checker_cmd,
        "trusted_base": trusted_base,
        "theorems": {k: ("proved" if v else "NOT CHECKED") for k, v in technique_obligations.items()},
        "evaluations": rep.evaluations,
        "distinct_nontrivial": len(rep.distinct),
        "rule": rep.extra.pop("rule", ""),
        "samples": rep.samples,
        "streams": rep.streams,
        "disagreements_checked": rep.corr_disagreements,
        "known_findings_reproduced": sorted(listed.keys()),
        "exhaustive": rep.extra.pop("exhaustive", False),
    }
    cov.update(rep.extra)
    # keys the evidence schema gives a type keep that type; anything else a stream filed under such a name moves aside
    typed = {"evaluations": int, "distinct_nontrivial": int, "rule": str, "samples": list, "states": int, "transitions": int,
             "traces_validated_against_impl": int, "obligations": int, "discharged": int, "checker_cmd": str, "trusted_base": list,
             "programs": int, "disagreements_checked": int, "explanation": str, "exhaustive": bool}
    for key, ty in typed.items():
        if key in cov and not (isinstance(cov[key], ty) and not (ty is int and isinstance(cov[key], bool))):
            cov[key + "_detail"] = cov.pop(key)
            if ty is bool:
                cov[key] = bool(cov[key + "_detail"])
            elif ty is int and hasattr(cov[key + "_detail"], "__len__"):
                cov[key] = len(cov[key + "_detail"])
    ev = {
        "property_id": rep.prop,
        "tier": rep.tier,
        "seed": rep.seed,
        "level": "proof",
        "coverage": cov,
        "assumptions": rep.assumptions,
        "wall_s": round(time.time() - rep.t0, 2),
        "violations": violations,
    }
    (EVIDENCE / f"{rep.prop}.json").write_text(json.dumps(ev, indent=1, default=str) + "\n")
    return rc


def write_replay(rep: Report, failure, extra=None):
    REPLAYS.mkdir(exist_ok=True)
    body = {"property": rep.prop, "tier": rep.tier, "seed": rep.seed, **failure}
    if extra:
        body.update(extra)
    h = hashlib.md5(json.dumps(body, sort_keys=True, default=str).encode()).hexdigest()[:10]
    path = REPLAYS / f"{rep.prop}-{h}.json"
    path.write_text(json.dumps(body, indent=1, default=str) + "\n")
    return path


# --------------------------------------------------------------------------- process pool


def pmap(fn, items, workers=None, chunk=64):
    """Map `fn` over `items` in forked worker processes (the parent must not have elaborated
    anything: Hdl21 keeps process-global caches). Order-preserving."""
    import multiprocessing as mp

    items = list(items)
    if not items:
        return []
    workers = workers or min(16, os.cpu_count() or 4)
    if len(items) < 2 * chunk or workers == 1:
        return [fn(x) for x in items]
    ctx = mp.get_context("fork")
    with ctx.Pool(workers) as pool:
        return pool.map(fn, items, chunksize=chunk)


# --------------------------------------------------------------------------- generic stream runner


class Stream:
    """One correspondence/predicate stream: cases -> implementation (forked workers) and model
    (Lean driver) -> judge.  `judge(case, impl, model)` yields (kind, detail[, finding_key])."""

    registry = {}

    def __init__(self, name, impl, line, judge, chunk=64, nontrivial=None):
        self.name, self.impl, self.line, self.judge, self.chunk = name, impl, line, judge, chunk
        self.nontrivial = nontrivial or (lambda c: True)
        Stream.registry[name] = self

    def run(self, ctx, cases, sample_every=None):
        cases = list(cases)
        rep = ctx.rep
        impls = pmap(self.impl, cases, chunk=self.chunk)
        lines = [self.line(c) for c in cases]
        idx = [i for i, l in enumerate(lines) if l is not None]
        outs = [None] * len(cases)
        for i, o in zip(idx, ctx.drv.run([lines[i] for i in idx])):
            outs[i] = o
        nfail = 0
        for c, im, mo in zip(cases, impls, outs):
            rep.count(self.name, json.dumps(c, sort_keys=True, default=str), nontrivial=self.nontrivial(c))
            for v in self.judge(c, im, mo) or []:
                kind, detail = v[0], v[1]
                key = v[2] if len(v) > 2 else None
                nfail += 1
                rep.fail(kind, {"stream": self.name, "case": c}, {"detail": detail, "impl": im, "model": mo}, key)
        if cases:
            k = min(len(cases) - 1, 7)
            rep.sample({"stream": self.name, "case": cases[k], "impl": impls[k], "model": outs[k]})
        return impls, outs

    @staticmethod
    def replay(ctx, rp):
        """Re-run the one case of a replay file on the current tree."""
        case = rp.get("case") or {}
        st = Stream.registry.get(case.get("stream"))
        if st is None or "case" not in case:
            print(json.dumps({"replay": "nothing to re-run (no failing input recorded)", "detail": rp.get("detail")}, default=str)[:2000])
            return 1 if rp.get("kind") == "unproved" else 0
        c = case["case"]
        im = st.impl(c)
        line = st.line(c)
        mo = ctx.drv.run([line])[0] if line is not None else None
        fails = list(st.judge(c, im, mo) or [])
        print(json.dumps({"case": c, "impl": im, "model": mo, "failures": fails}, default=str)[:4000])
        if any(f[0] in ("pred", "oracle") for f in fails):
            print(f"VIOLATION property={ctx.rep.prop} replay={rp.get('_path', '<replay>')}")
            return 1
        return 1 if fails else 0


def replay_by_rerun(ctx, rp, rerun):
    """Replay for streams that do not fit Stream.replay: `rerun(ctx)` runs the stream on the recorded case, reporting into ctx.rep."""
    before = len(ctx.rep.failures)
    rerun(ctx)
    new = ctx.rep.failures[before:]
    print(json.dumps({"failures": [{"kind": f["kind"], "detail": f["detail"]} for f in new]}, default=str)[:4000])
    if any(f["kind"] in ("pred", "oracle") for f in new):
        print(f"VIOLATION property={ctx.rep.prop} replay={rp.get('_path', '<replay>')}")
        return 1
    return 1 if new else 0


def pmap_fresh(fn, items, workers=None):
    """Like pmap, but every item runs in its own freshly forked process (Hdl21's process-global caches make
    histories observable only from a clean process). The parent must not have elaborated anything."""
    import multiprocessing as mp

    items = list(items)
    if not items:
        return []
    workers = workers or min(16, os.cpu_count() or 4)
    ctx = mp.get_context("fork")
    with ctx.Pool(workers, maxtasksperchild=1) as pool:
        return pool.map(fn, items, chunksize=1)


def errstr(ex, head=220, tail=80):
    """Exception text for evidence / judges: type, the beginning of the message (where the reason is) and its end."""
    msg = " ".join(str(ex).split())
    if len(msg) > head + tail + 5:
        msg = msg[:head] + " … " + msg[-tail:]
    return f"{type(ex).__name__}: {msg}"
