"""Writes MANIFEST.json from the table below (kept next to the code so it stays current)."""
import json, os
from pathlib import Path

V = Path(__file__).resolve().parent.parent
CLAIMED = {
    "C03": dict(
        text="Lean 4 theorems over the model of _slice_inner / width / SliceResolver state, for every width, index, bound, "
        "step and nesting depth, that accepted indices and slices denote exactly Python's selection (pyBits, a transcription of "
        "CPython's slice algorithm), that width = number of bits, that empty / out-of-range selections are rejected, that all "
        "exported bits lie inside their signal; that the resolver *answers* for every connectable with a denotation (resolve_total: the fuel needR c, computed from the "
        "expression, bounds the recursion — the model's fuel argument is discharged, and the driver hands the resolver exactly that much); that integer indices and unit-step ranges, at any depth, are resolved and exported with their bits (unit_step_accepted: resolve_unit, export_total); tied to the code by an exhaustive-box correspondence on Signal[...] "
        "(model = implementation = list slicing) and by nested Slice/Concat trees exported and read back from the package.",
        note="Model hand-written after hdl21/slice.py and hdl21/elab/passes/slices.py; correspondence and the property predicate run on "
        "/repo's working tree each time. Trusted: Lean kernel + standard axioms, CPython list slicing as oracle, the harness reading of packages.",
        ref="DESIGN.md §6 C03",
        technique="Lean 4 proof (omega/structural) + exhaustive differential correspondence",
    ),
    "C04": dict(
        text="Lean 4 theorems over the state machine of connection operations (conns of every instance in dict order, _connected_ports of "
        "every connectable, Refs.all/portrefs/connrefs) for every finite history of connect (call / assignment / connect()), replace, "
        "disconnect and reference creation: back-references are exactly the inverse of conns (invariant), conns is the finite map the "
        "history denotes (refinement; last write wins, disconnect erases), histories with equal final maps leave equal back-reference "
        "sets (no trace), the graph group discovery walks is the symmetric closure of the final map and the group the depth-first follow "
        "discovers from a port is exactly the set of ports linked to it in the final map (generic DFS-computes-component lemma), set.remove "
        "never raises, references only grow. Tied to the code by random histories over generated designs with the full state compared after every operation, and "
        "by the package of the history-built design compared with Sem.src of the final map and with the package of the design built directly.",
        note="Model hand-written after hdl21/instance.py (connect/replace/disconnect/_get_portref/_get_connref/_to_array). What the passes make "
        "of that state is not a theorem: it is decided on the implementation per history (Sem.pkg = Sem.src in Lean; name-free package "
        "equality with the direct build). Dead references to ports that do not exist are outside the alphabet.",
        ref="DESIGN.md §6 C04",
        technique="Lean 4 proof (invariant by induction over operation histories, refinement to a finite map) + differential correspondence of op traces and packages",
    ),
    "C16": dict(
        text="Lean 4 theorems over the model of hdl21/flatten.py (walk with its port-to-net environment, by-name re-creation) for every "
        "module table, depth and sharing: the flat module has exactly one instance per leaf of the hierarchy, all leaves, under pairwise "
        "distinct names, and the top's ports; two leaf terminals share a flat signal iff walk put them on one net (path, name), a terminal "
        "is on a flat port iff it is on that port's net; whenever two different nets or leaves would share a ':'-joined name flatten "
        "returns nothing; and (flatten_preserves_connectivity) two leaf terminals share a flat signal, or a terminal sits on a flat port, iff the "
        "signals they are attached to are connected in the hierarchy - connectivity being the equivalence closure of 'a child's port is the signal "
        "its instantiator connects to it' (hypothesis: instance names and bound ports are unique per module). Tied to "
        "the code by generated hierarchies (incl. designer names with ':' colliding with joined paths): flat module compared name by name "
        "with the model's, and Sem.pkg(to_proto(flatten(m))) = Sem.src(m) with the same devices.",
        note="Model hand-written after flatten.py. That walk's labelling is the hierarchy's connectivity is not a theorem: it is decided per "
        "design against the independent declarative semantics Sem.src (Design.lean). Slices/concats: refused by the code (NotImplementedError), "
        "outside the model; such designs are only judged on what flatten returns.",
        ref="DESIGN.md §6 C16",
        technique="Lean 4 proof (structural induction over fuel-bounded hierarchy walk; injectivity of joined names as explicit obligation) + differential correspondence",
    ),
    "C19": dict(
        text="Lean 4 theorems over the model of hdl21/generators.py (the two offset concatenations fed to an instance array, element k taking bit k; "
        "Wrapper's pass-through instance) for every n >= 2, every type of port names and every ordered pair of distinct series ports: exactly n "
        "units; unit 0's first and unit n-1's second series port are the module's series ports; unit k's second and unit k+1's first share the "
        "private net i[k] and nothing else is on it; every other port is on the same-named module port; a module port is touched only by "
        "same-named unit ports and a series port only by its end unit; n = 1 and Wrapper put every port on the same-named port; MosStack is "
        "Series over (d, s); bus series ports are refused. Tied to the code by running Series / MosStack / Wrapper over primitive, external and "
        "generated-module units (scalar, bus, bundle ports; pre-elaborated; ports named i / units / inner) and comparing the exported package's "
        "leaf-level partition with Sem.src of the plain design the theorems describe, plus a direct reading of the chain from the package.",
        note="Model hand-written after generators.py and the array width rule (arrays.py: per-element wiring when the connection is n x port width). "
        "The expected plain design is written by the harness from the model's net table. A generator call that raises is not judged unless the "
        "model accepts the unit and pair.",
        ref="DESIGN.md §6 C19",
        technique="Lean 4 proof (list indexing over range/append, omega) + differential correspondence via Sem.src/Sem.pkg",
    ),
    "C17": dict(
        text="Lean 4 theorems over the model of hdl21/sim/proto.py (export_attr dispatch, export_analysis recursion with the exporter's name "
        "counter, export_control / export_save, is_tb) for every Sim, any attributes in any order and sweep / Monte-Carlo nesting of any depth: "
        "exported iff the testbench has exactly one scalar port, and then never refused; top is the testbench; controls and options are the "
        "attributes of those kinds one to one in order, analyses the analysis attributes in order and nesting, equal to the originals but for "
        "names; one entry per attribute; named analyses keep their names position by position, unnamed ones get Analysis{j} never used by the "
        "designer, and all names are distinct whenever the designer's are (pigeonhole: a free name always exists); all five SaveTarget forms "
        "translate. Tied to the code by random Sims in four construction styles, alone and in lists with shared testbenches, the whole "
        "SimInput compared with the model's; every numeric field compared with the double nearest its exact value (fractions.Fraction).",
        note="Model hand-written after sim/proto.py and sim/data.py. Numbers are carried as exact values: Lean's Float is opaque to the kernel, so "
        "'the float nearest each prefixed value' is decided by the correspondence only. Noise outputs given as Diff bundle instances and "
        "SaveMode.SELECTED are outside the generated alphabet (the exporter refuses both).",
        ref="DESIGN.md §6 C17",
        technique="Lean 4 proof (mutual structural recursion over nested analyses, pigeonhole via Mathlib List.Nodup.subperm) + differential correspondence",
    ),
    "C15": dict(
        text="Lean 4 theorems: (walk, any hierarchy / sharing / device map) compilation keeps modules, instance names and order and every "
        "connection, changes a target only for a technology-mapped primitive in a reached module and to exactly the mapped device, gives equal "
        "parameters the same device, is idempotent, and fails only with the error of a request no device satisfies; (selection, any table) what "
        "is selected is in the table and carries the requested name / type-family-threshold / type-family, uniquely for Gf180; (tables regenerated "
        "from /repo/pdks on every run, evaluated in the kernel) every entry is what its own name selects, every triple / pair carried by an entry "
        "selects an entry carrying it or the descriptive ambiguity error, every device has the default sizes the code looks up, device ports are "
        "the primitive's ports except for recorded devices, for which the negation is proved; (registry) default / by name / by module. Tied to "
        "the code by exhaustive compilation of every table entry x reaching primitive x sizes and of all 72 triples per PDK, generated hierarchies "
        "x 4 PDKs x once/twice, registry op sequences in fresh interpreters, and the logic-cell libraries instantiated and netlisted. "
        "device_calls_are_history_free (Memo.lean: the PDK packages' per-parameter tables of device calls): from the empty or any coherent table every request of every history is "
        "answered as a fresh process answers it, a refused request files nothing — observed on the real tables by the alone_vs_among, before (a by-triple request after every device of "
        "that triple was asked for by name) and repair (a failed compile mended and run again) streams.",
        note="66 known findings (known_findings.json): a primitive whose port list differs from the selected device's (2- vs 3-terminal resistors / "
        "capacitors, the 5-terminal Sky130 Mos, 4-terminal bipolars) compiles into an instance with an unconnected or dangling port. Parameter "
        "translation beyond sizes-given-or-default is checked by correspondence only. The device map of the hierarchy stream is read off the "
        "implementation's result (structure, sharing, idempotence are what that stream decides; device choice is decided by the tables stream).",
        ref="DESIGN.md §6 C15",
        technique="Lean 4 proof (structural induction over the walk; decide +kernel over regenerated device tables) + exhaustive and generated differential correspondence",
    ),
    "C14": dict(
        text="Lean 4 theorems (Mathlib ℚ) over the model of hdl21/prefix.py: add/sub/mul/neg/abs/scale return exactly the "
        "rational result for every mantissa, exponent and prefix pair; comparisons are total, satisfy trichotomy and the usual "
        "relations, agree with the exact order beyond 1e-20 of the smaller prefix; equal values compare equal and have equal "
        "(CPython Decimal) hashes; int() truncates. Tied to the code by all 441 prefix pairs x generated mantissa pairs, every "
        "operator/hash/int/float compared with the model and with fractions.Fraction. float() nearest-float clause: correspondence only.",
        note="Model = exact Decimal arithmetic (what prefix.py computes inside its _exact context); Decimal.log10-based closest-prefix "
        "choice is modelled by exact comparison (mismatch tolerated only within 1e-24 of a midpoint, value still checked). "
        "Lean Float is opaque: float() is checked against float(Fraction) only.",
        ref="DESIGN.md §6 C14",
        technique="Lean 4 proof (Mathlib ℚ, zpow, half-even rounding uniqueness) + differential correspondence vs Fraction",
    ),
    "C18": dict(
        text="The invariant theorems quantify over all operation sequences, including those in which one identity is presented with different kinds — which is what editing a held Signal's vis amounts to (revis operations in the ops stream; coherence judged against the kind filed). Lean 4 theorems over the namespace state machine (per-kind views + namespace + object name/parent + freeze) of Module and "
        "Bundle: coherence is an invariant of every operation and hence of every finite sequence of setattr/add/get/getattr/delattr/"
        "elaborate; refinement to a name->object map; rejections (reserved names, non-HDL values, deletion, post-elaboration additions, "
        "second name for one object) leave the state unchanged; every natively answered name is reserved (table theorem over names "
        "regenerated from /repo). Tied to the code by random operation sequences with the full observable state compared after every op. Names with a leading underscore are never HDL names (underscore_names: add() refuses them, an assignment stores a plain Python attribute and files nothing); an HDL object assigned to `name` is refused; a bundle definition is frozen once a design using it has been elaborated.",
        note="Model hand-written after module.py/bundle.py (_add, _assert_addable, add, __setattr__, get, __getattr__, __delattr__); "
        "reserved/native name lists regenerated from /repo on every run. Alphabet excludes underscore names, Signal.vis mutation, m.name=str.",
        ref="DESIGN.md §6 C18",
        technique="Lean 4 proof (invariant by induction over operation sequences, refinement) + differential correspondence of op traces",
    ),
    "C10": dict(
        text="Lean 4 theorems over the model of flatten_bundle_inst_helper / replace_bundle_conn for bundle definition trees of any "
        "depth and fan-out: one flattened signal per leaf; each is the image of the leaf at its member path with the leaf's width, "
        "port visibility iff the instance is a port, and the documented direction rule (parity of flips on the path, role of the "
        "declaring instance; inout/undirected unchanged); PortDir.flipped (regenerated from the code) is the documented table and an "
        "involution; connections pair both sides by member path. Tied to the code by exhaustive single-leaf chains and random trees, "
        "exported (alone and under parents; sub-bundles optionally flagged port=True; two anonymous bundles over the same signals under permuted "
        "names) and compared on ports (name, width, direction), internal signals and instance connections.",
        note="Model hand-written after flatten_bundles.py; PortDir.flipped regenerated from /repo each run. The predicate judging the "
        "implementation uses the path-indexed rule (leafAt/dirRule), not the regenerated table. Name freshness is C05's.",
        ref="DESIGN.md §6 C10",
        technique="Lean 4 proof (mutual structural induction over bundle trees, table theorem) + differential correspondence",
    ),
    "C09": dict(
        text="reset_starts_afresh: after generator.cache.reset() every call, however nested, returns a module made after the reset and equal calls agree again (run_newer by mutual induction; reset stream). Lean 4 theorems: the readable name format k=v ... (strings quoted with escaped quotes/backslashes, numbers and None as "
        "atoms) is injective in the parameter values for all strings (proved by exhibiting the parser: unescape∘escape = id, "
        "space-free atoms split uniquely); over the generator-cache model: a cached call returns the identical module without "
        "running the body or changing state, a completed call is cached (memoisation for any call order and nesting), a "
        "handing-on generator keeps the module's name, a fresh module is named after its own call. Tied to the code by adversarial "
        "parameter values (names compared with the model, all pairs checked equal-params<->equal-names), random acyclic generator "
        "programs over hash-colliding parameter values (identity, body-run log, names, co-export), both call forms for every value (defaults, omitted "
        "keywords, explicit None), Scalar fields holding Literals that spell a number's name text, enable_cache=False generators whose results "
        "differ within one design, and nested/enum/Prefixed/Module-valued shapes. The md5-of-JSON form: hashed_encoding_injective over the model of "
        "hdl21_naming_encoder (NameEnc.lean) — the JSON tree made of a value determines the value, for every declared type whose unions are told "
        "apart by the kind of JSON they produce; tied to the code by generated shapes (optional fields at falsy values, (Int)Enums, tuples, nested "
        "param-classes, Prefixed, Generator-/ExternalModule-/Module-valued fields with same-named objects of two Python modules): the tree read "
        "back from the text the code hashes vs the model's, the module name vs the md5 of the model's tree, all pairs equal-params<->same module<->same name.",
        note="For md5-of-JSON names the rendering of a tree by json.dumps (injective) and md5 collision freedom are assumed, not modelled; set-valued "
        "fields are outside the model (checked by programs only); distinct Modules / Generators are assumed to have distinct qualified names (the exporter "
        "demands it of their modules anyway). Recursion (circular generator calls) is rejected by the code "
        "and not part of the cache model. str()/repr() of numbers trusted injective.",
        ref="DESIGN.md §6 C09",
        technique="Lean 4 proof (parser/round-trip injectivity, cache map lemmas) + differential correspondence",
    ),
    "C13": dict(
        text="Lean 4 theorems: a Prefixed number exported by export_prefixed and read back by import_prefixed has exactly the same "
        "rational value and prefix, for every mantissa length, exponent and each of the 21 prefixes, and is never rejected (integers "
        "beyond int64 use the string variant); the value dispatch of export_param_value (str/Literal/str-Enum -> literal, int -> int64 "
        "within range, float -> double, Decimal -> literal, None omitted, other rejected); table theorems over the prefix maps, the "
        "ideal-primitive name maps and the pulse-source parameter renaming of exporter and importer, all regenerated from the code. "
        "Tied to the code by generated values through export_param_value and through real instances (all 11 ideal primitives, external "
        "modules with dict / paramclass parameters) read back from the package and compared exactly (Fraction / Decimal tuple / float bits).",
        note="Decimal<->text and float<->bits conversions are CPython's (checked on every exported value, not modelled). to_scalar's "
        "numeric-string recognition is Decimal(text) (CPython). Tables come from harness/gen_tables.py (AST of the dict literals).",
        ref="DESIGN.md §6 C13",
        technique="Lean 4 proof (Mathlib ℚ exactness, decide over regenerated tables) + differential correspondence",
    ),
    "C01": dict(
        text="Proof (partial: fragment F1 and the whole-signal part of F2) + correspondence against a declarative meaning. Proved in Lean for every width, nesting depth, "
        "step and sign: SliceResolver (_list_slice/_resolve_slice/_resolve_concat) preserves the denoted bit list, returns only "
        "signals and signal-level slices, and the positional MSB-first reading of the exported target (inclusive top, reversed "
        "concat parts) equals the designer's bits, bit i to bit i (connection_preserved, bit_i_to_bit_i, concat_order). F2 (portrefs_preserve_connectivity, over the model of "
        "ResolvePortRefs with follow proved to compute connected components): after the pass two ports share a signal iff the designer's "
        "port-signal and port-reference connections join them, a port is on a declared signal iff wired to it, a no-connected port is alone, "
        "invented signals are fresh; the model is tied to the code by its own stream (resolution vs exported signals, refusal vs raise); references inside slices "
        "and concatenations (references_inside_compounds): replacing a reference by the signal it resolved to commutes with slicing and concatenating — "
        "bit i of the elaborated connection is bit i of the written one (checked on random compounds over references); per-element array wiring "
        "(array_element_bits); instance bundles (instbundle_expansion over the model of InstBundleElabPass: one instance per member, member-wise / "
        "by-name / broadcast connections, refusals; compared with the real pass per member instance); instance arrays (array_expansion, array_pass_accepts_iff, "
        "array_parts_partition over the model of ArrayFlattener: n instances with the array's ports, broadcast or the k-th w bits per element, accepted iff every "
        "width is w or n*w; compared with the real pass run alone: element names, bits, refusals); bundle-valued ports (BundleConn.lean, the re-connection BundleFlattener performs: "
        "bundle_connection_pairs_by_path — one connection per leaf path of the port's type, on the flattened port of that path, holding what the written connection holds at that "
        "path; bundle_instance_connection_memberwise for an instance of the port's own type of any depth and fan-out; subbundle_reference_is_relative; anonymous_bundle_member_by_name "
        "for members of any kind in any order; bundle_connection_refusals — compared with the real passes up to BundleFlattener on random types, instances, references and nested "
        "anonymous bundles: the bits on every flattened port, refusals). Everything beyond — the composition of the passes within a module and across the hierarchy — is decided by correspondence: Sem.src (Lean, declarative, no reference to any pass) vs "
        "Sem.pkg of the real package (Lean, netlister reading) vs the partition read from the spice text, plus leaf devices and "
        "parameters, on generated designs over all constructs in three construction styles. "
        "The passes composed (ModulePipe.lean: Orphanage, ConnTypes, SliceResolver, ConnTypesRepeat, OrphanageRepeat, export_module — the default pass list on a module of fragment F1, "
        "put together from the models each pass has): module_connections_preserved — whenever the composition returns a module it declares the module's signals, has the designer's "
        "instances in order with their targets and parameters, and on every port of every instance the netlisters read, bit i for bit i, the signal bits the designer's expression denotes "
        "(any nesting, step, sign), with no hypothesis about intermediate states; the composition itself is compared with elaborate + to_proto by the module_pipe stream (random F1 modules "
        "with planted faults: accepted vs refused, signal and port lists, instances, the bits read per connection); array_elements_read_their_bits — ArrayFlattener inside the composition (pipelineA): element k of an instance array is exported under the name the pass gave it and reads, per port, all of the connection (broadcast) or its k-th w bits (array_pipe stream); design_connections_preserved — the same for every module of an F1 design put through pipelineDesign "
        "(children first, each module against what the package holds so far), compared module by module with the real package by the design_pipe stream.",
        note="Sem.src / Sem.pkg / the net solver are specifications executed by the driver (Design.lean, Pkg.lean, Nets.lean); the "
        "pass-by-pass preservation theorems for F3 (bundles, pairs, hierarchy) are not proved. vlsirtools' positional reading is modelled and validated "
        "against the netlist text on every design. Designs the unchanged code rejects although well-formed are listed in "
        "designs.known_limitation and stepped around. module_connections_preserved takes ModOK (one object per name, dict keys distinct: C18's coherence) as its hypothesis.",
        ref="DESIGN.md §6 C01",
        technique="Lean 4 proof for F1 (resolver soundness by induction on fuel, export/read round trip, composition of the pass models on one module) + declarative-semantics differential correspondence",
    ),
    "C06": dict(
        text="Proved in Lean: the exporter's depth-first module traversal lists every module exactly once and after everything it "
        "instantiates, for any module DAG, sharing and list of tops (export_order); with module names, and each name reserved before the "
        "dependencies are exported, a returned package never holds two modules of one name and a clash anywhere below the tops raises "
        "(exported_names_unique; refusal and module order compared with the real exporter on random DAGs with clashing names); connection targets produced by resolver + "
        "exporter (fragment F1) carry exactly the connection's width and stay inside their signals (target_width, C03 "
        "exported_bits_in_range); for whole modules (export_module_wf and, for an exporter that writes the ports' signals first, export_module_wf_ports_first — same hypothesis, by lookup_append_comm — over the model of export_module / export_port / export_instance): an "
        "elaborated module in the state EWF — one object per name, no zero-width signal, directed ports, every instance of a defined target with "
        "each port connected exactly once to a connectable over the module's own signals that exports and has the port's width — is exported "
        "without error and the result has none of the module-level defects the property lists, in whatever package it ends up. EWF is evaluated on "
        "what elaboration really leaves in every module of generated designs, and the model's export is compared with the module the exporter "
        "wrote. The full closure predicate WFpkg (unique names, ports name declared signals, references resolve to "
        "earlier modules / declared external modules / primitives of the regenerated table, each target port connected exactly once, "
        "targets declared, in range and of the port's width) is a Lean definition *executed* on every package the real code returns: "
        "generated designs, the repository's examples, Series/MosStack/Wrapper over parameter ranges, a PDK-compiled design; plus "
        "acceptance by from_proto and the spice and spectre netlisters. "
        "The passes composed (ModulePipe.lean): elaborated_module_is_EWF — what Orphanage, ConnTypes, SliceResolver and the two repeats leave of a module of fragment F1 whose namespace is a "
        "namespace (ModOK) is EWF as soon as the exporter exports its connections, with no hypothesis about intermediate states — and module_pipeline_wf — whatever the composed pass list "
        "plus export_module return has none of the module-level defects C06 lists, in whatever package it ends up; the composition is compared with elaborate + to_proto by the module_pipe stream. "
        "design_pipeline_wf: for a whole F1 design put through pipelineDesign, problemsFrom of the package is empty (every instance resolved to a module exported before it, a declared external module or a primitive of the regenerated table). "
        "External-module declarations (ExtDecl.lean, the model of export_external_module): declarations_consistent — one declaration per qualified name, each object declared exactly as given, widths included; conflicting_declarations_refused; compared with the exporter by the ext_decls stream.",
        note="checked_instance_is_instOK + orphanage_gives_sigsOK: an instance that passed ConnTypes and Orphanage and whose connections are resolved satisfies the instance part of EWF "
        "(hypothesis: what a module parents is what it declares — C18's coherence). The module-level parts of EWF (names, widths, directions) are evaluated on every explored design, not proved; module-name uniqueness and external-module declarations rest on the executed predicate. Primitive port table regenerated from /repo each run.",
        ref="DESIGN.md §6 C06",
        technique="Lean 4 proof (traversal invariant by induction; width/range from C03/C01 lemmas; composition of the pass models establishing EWF) + executed Lean predicate on real packages",
    ),
    "C02": dict(
        text="Proved in Lean: a checking pass with its own pass class, placed after the last rewriting pass, runs on every module below "
        "every top whatever earlier passes and calls completed (repeat_pass_sees_every_module, over the abstract runner for any DAG); "
        "out-of-range indices, zero steps and empty selections are rejected for every width (bad_index_rejected, from C03); the array "
        "width rule accepts exactly w and n*w and hands element k bits [k*w,(k+1)*w); ResolvePortRefs raises exactly on unconnected-and-unreferenced "
        "ports, shared no-connects and groups with two sources (portrefs_rejects_iff); ConnTypes.check_instance (modelled with its pop-from-a-copy "
        "algorithm) returns exactly when every port of the target is connected, with the port's width, and nothing else is (conntypes_passes_iff; "
        "the reported bad connections are compared name by name with the model's statuses on random fault mixes); Orphanage (Orphanage.lean: the recursive "
        "check_connectable over Signal / BundleInstance / Slice / Concat / AnonymousBundle / PortRef / BundleRef / NoConn) returns exactly when every namespace "
        "entry is parented by the module and filed under its own name and everything any connection is made of is parented by the module "
        "(orphanage_passes_iff, orphanage_rejects, orphanage_exemptions; the real pass is run alone on random ownership mixes — own, another module's, nobody's, replaced — "
        "and its verdict compared with the model's). The other fault classes are decided by "
        "correspondence: single-fault mutants of valid generated designs (12 classes, sites drawn from every sub-connectable of every "
        "connection, top and deep, scalar/bus/slice/concat/reference/bundle/anonymous/array/pair) and generated ill-formed designs, with "
        "the declarative Sem.src as judge of ill-formedness; elaborate, to_proto and netlist must all raise. "
        "The passes composed (ModulePipe.lean, fragment F1): module_accepts_only_wellformed — if the default pass list and the exporter return a module, every instance is of something defined, "
        "has every port of it connected to something of the port's width, nothing else connected, every connection over the module's own signals — and module_faults_rejected — an undefined "
        "target, an open port, a connection to a port that does not exist, a connection of another width or without a width (an index out of range, an empty or zero-step slice at any depth), "
        "a signal the module does not declare: each, planted anywhere, makes the composition refuse; compared with elaborate + to_proto by the module_pipe stream (planted faults of each class). "
        "Edits made after a completed export (reconnect to another width, widen a child's port, disconnect) are exported as they are: three recorded known findings (known_findings.json, "
        "after-export:*), the root cause of the C08 repair-and-retry entries. design_accepts_only_wellformed: across the hierarchy, a package comes back only if every instance of every module is well-formed against what its target was exported as. module_elaboration_accepts: conversely nothing well-formed is refused by the five passes (with C03's resolve_total) — the composed passes accept exactly the well-formed F1 modules. module_pipeline_accepts_iff: for modules whose indices are integers or unit-step ranges, passes and exporter return a module iff every instance is well-formed. foreign_owner_rejected: with Orphanage's owner check in front (pipelineO), an object of another module or of none anywhere inside a connection makes the composition refuse. arrays_accepted_only_wellformed: with ArrayFlattener inside (pipelineA), an array is of something defined, has at least one element, and every connection is as wide as its port or n times as wide.",
        note="Of the checking passes MarkModules is not modelled in Lean (ConnTypes, Orphanage and ResolvePortRefs' refusals are); that the modelled checks together cover every "
        "fault class rests on the mutation correspondence. Clashing module names are an export-level fault: elaborate() alone is not required to notice them.",
        ref="DESIGN.md §6 C02",
        technique="Lean 4 proof (runner invariant, index/array rules) + single-fault mutation correspondence judged by a declarative model",
    ),
    "C07": dict(
        text="Proved in Lean over the abstract runner (any module DAG, sharing, pass behaviour, fuel and prior state): a completed visit "
        "leaves its pass done on everything reachable; a pass class never touches another class's done set; a module a pass completed on "
        "is never rewritten by it again; re-visiting is a no-op; a visit touches only the visited module and modules below it; and "
        "history_independent: after any sequence of elaborate calls over any lists of tops, from the fresh state, every module below any top "
        "of any call has all passes done and is in the canonical state C n x (same as elaborated alone; elaborating again changes nothing) - "
        "under the explicit hypothesis Stable (pass k on x in state C k x yields C (k+1) x whatever later canonical state its descendants "
        "are in, and does not fail), which in turn follows (stable_of_frozen_views) from three code-level conditions: a pass reads its own module "
        "and only a view of the modules below; later passes leave that view alone (what _pre_flattening_io and the per-module caches provide); on a "
        "design elaborated in step the pass takes level k to k+1. That the concrete passes meet these conditions is decided by "
        "correspondence: all orders / kinds / groupings of elaborate / to_proto / netlist calls over the modules of generated design DAGs "
        "(shared children, bundle ports, bundle-port reference groups), parents built before or after their children were elaborated, "
        "each history in a fresh process, packages compared byte for byte with fresh single-call packages; freeze checked.",
        note="Runner model abstracts passes as functions; BundleFlattener's THE_CACHE and _pre_flattening_io are exercised only by the "
        "histories. History enumeration is exhaustive for designs of <= 3 (quick) modules, sampled beyond.",
        ref="DESIGN.md §6 C07",
        technique="Lean 4 proof (runner invariants by induction on the depth-first visit) + exhaustive small-history differential runs in fresh processes",
    ),
    "C08": dict(
        text="Proved in Lean over the abstract runner with failing passes: a module on which a pass raised is marked failed and lacks that "
        "pass's done mark; any later visit of any pass reaching it through a not-yet-completed path does not complete (never exported); "
        "failure is permanent and failed modules are never rewritten; modules not below the visited top are untouched whatever happens; "
        "a retry fails again; generator calls (GenRun model): a call whose body raised leaves the cache exactly as it was, can be run again and is "
        "cached once its body returns, and no call leaves a pending mark; for generators that call generators (event trees: nested calls, failures "
        "caught or propagated at any depth) nothing is left pending after any history, 'circular dependency' is reported only when the event tree "
        "really nests a call inside the same call, a call that did not return is run again, one that did is cached for good. The runner model is tied to ElabPass / Elaborator by marker passes "
        "failing at planned points over random DAGs and call sequences (done sets per pass class, remembered errors, ok flag after every call), "
        "the generator model to the real cache by random plans of failing / returning bodies and random event trees of nested calls. Further decided by correspondence: every (pass position, module) injection point through custom pass lists, real "
        "design faults, failures in the middle of a pass (the n-th Module.add of the elaboration raises; five exception types; anonymous tops; "
        "the designer renames / edits before trying again), and a generator body raising once, each followed by retry / retry with the default elaborator / export of every "
        "module not containing the offending one / an unrelated design, in one fresh process per scenario and compared with fresh-process packages; and a repair stream (the failing child replaced by a healthy module that needs the passes which "
        "had completed on the parent): six of its fifteen (fault, replacement) pairs are refused with a spurious error on the pinned tree — recorded as known findings (known_findings.json, "
        "match repair:<fault>/<repair>) and exhibited in the model (done_parent_hides_new_child); a wrong package, or a refusal of any other pair, is a violation.",
        note="Exception texts and BundleFlattener's module-scope cache are covered by the correspondence only.",
        ref="DESIGN.md §6 C08",
        technique="Lean 4 proof (failure invariants of the runner) + fault-injection correspondence in fresh processes",
    ),
    "C12": dict(
        text="Proved in Lean: sorting a set of port references by a key that identifies its members yields the same list for every "
        "enumeration order of the set (any permutation — the model of CPython's address- and seed-dependent set iteration), so anything "
        "computed from portref.ordered() — the order of an instance's connections, invented names — is the same in every process "
        "(order_independent, computed_from_ordered, ordered_perm); the key as written, (instance name, port name) compared as tuples, identifies the "
        "references held by the instances of one module, the instance name alone does not (ordered_portrefs_independent, instance_name_alone_is_not_a_key); the group ResolvePortRefs.follow discovers by depth-first search is the same set of references whatever order "
        "the sets of connected ports are iterated in (group_members_order_independent: any per-node permutation of the neighbour lists, any fuel; dfs_nodup + dfs_component), hence everything computed "
        "from the ordered group is too (handled_group_order_independent). The runtime facts no model can exhibit (id()/seed based hashing, "
        "allocation history, protobuf determinism, md5) are decided by correspondence: every generated design and a corpus where one "
        "bundle (or one anonymous bundle object) feeds several ports of an instance, reference groups with ties, generator programs with hashed / "
        "over-long / uncached names, run in N fresh interpreters with different PYTHONHASHSEED and random unrelated "
        "allocation/elaboration — including earlier builds of other cases and of the same design — first; package bytes and spice/spectre/verilog text must be identical.",
        note="The theorem covers the iteration sites routed through portref.ordered(); any other hash-order dependence can only be found by "
        "the multi-interpreter runs (8 seeds quick, 48 thorough).",
        ref="DESIGN.md §6 C12",
        technique="Lean 4 proof (permutation invariance of sorting by an identifying key; DFS result independent of neighbour order) + multi-interpreter differential runs",
    ),
    "C11": dict(
        text="design_output_roundtrips: the same for every module of the package of an F1 design. resolved_connection_is_a_fixed_point: what SliceResolver returns (resolve_nf: a signal, a proper slice of a signal, or a non-empty concatenation of those) it returns unchanged when it is elaborated again — the re-elaboration half of the round trip. pipeline_output_roundtrips: whatever the composed pass list (ModulePipe.lean: Orphanage, ConnTypes, SliceResolver, repeats) and export_module return for a module of fragment F1 has the Shape the round-trip theorem asks for, hence is imported without error and exported back identically — the round trip of C11 composed with the elaborator, no hypothesis on the package but where it came from. Proved in Lean for connection targets of any nesting: import (slice.top inclusive -> Python stop, concatenation parts reversed) "
        "followed by export is the identity on well-formed targets (target_roundtrip); the table parts of the round trip — prefix maps, "
        "ideal-primitive name maps, pulse-source parameter renaming: importer = inverse of exporter on every entry — are decide-theorems "
        "over tables regenerated from exporter and importer on every run; for whole modules (module_roundtrip over the model of import_module / "
        "import_ports_and_signals / import_instance and export_module / export_port / export_instance): a module of the shape the exporter writes "
        "(distinct signal names, internal signals first and the ports after them in port-list order, directions of the enumeration, instances of "
        "defined things connected on existing ports to well-formed targets) is imported without error and exports back to the identical module "
        "— signals, ports and directions in order, instances with references, parameters and connection targets; the port-direction maps of "
        "exporter and importer are regenerated by calling them on every enumeration member. That model is tied to from_proto by comparing, for "
        "every module of generated / built-in / example packages, what the importer builds (signals and ports in dict order with directions, "
        "connections) with the model's import, and by evaluating Shape on every exported module. Parameter values, external modules with port "
        "order and spice type, literals, and that re-elaboration of imported modules changes nothing are "
        "decided by correspondence: to_proto(from_proto(P)) == P as protobuf equality for packages of generated designs (3 styles), the "
        "repository's examples (all top-level modules re-exported), built-in generators and the primitive / external-module parameter space. The module-level model exists for both layouts an exporter may give the signal list of a module (internal signals first: module_roundtrip; the ports' signals first: module_roundtrip_ports_first); which one the code at hand writes is read off a probe module on every run.",
        note="Parameter values and instance targets are carried through the module-level model unchanged (their value-level round trip is the "
        "table theorems plus protobuf equality on every explored package); external-module declarations and literals are correspondence-only.",
        ref="DESIGN.md §6 C11",
        technique="Lean 4 proof (target and module round trip by structural induction, decide over regenerated tables) + protobuf-equality and import-model correspondence",
    ),
    "C05": dict(
        text="Proved in Lean for every namespace, base name and length limit: the name flatname returns is not in the namespace it was told "
        "to avoid; it is the joined base name followed by underscores only, every shorter variant being taken; it fails only when base name "
        "plus one underscore per name to avoid would exceed the limit (a clash is resolved by a fresh name or by raising, never by "
        "capture); inserting under it keeps every existing name; the names invented in one batch (bundle members, array elements, instance-bundle "
        "members: each named against the live namespace and inserted before the next) are distinct from the module's names and from each other, "
        "and the namespace afterwards is the old one plus exactly those (inventAll_spec; the model's names are compared, in order, with the names "
        "the real passes choose for adversarially named modules). That every call site (create_source, replace_noconn named or not, "
        "replace_bundle_inst, array elements, instance-bundle members) passes the live namespace, and that designer objects keep their "
        "bindings and connections, is decided by correspondence: designer names are renamed to exactly the names the elaborator would "
        "invent for that design (one at a time, the invented names recomputed after each; trailing-underscore variants; names at the 511-character "
        "limit), bundle members are renamed so that two flattened names of one bundle coincide, custom InstanceBundleTypes and a fixed corpus of one "
        "design per clash class are included; the package must keep unique names (Lean WFpkg), keep every designer "
        "signal and instance, and have the same name-free net partition as the friendly-named design.",
        note="Connectivity is compared on name-free descriptors (kind, port, bit, depth), which detects merged / split nets but not a swap "
        "between two identical devices. Rejection of a renamed design is accepted (resolved by raising). Which fresh name is chosen is left to the code: the passes' own names are judged by the spec inventAll_spec proves (fresh, pairwise distinct, namespace = old + new); agreement with the model's underscore-appending flatname is recorded in the evidence, not demanded.",
        ref="DESIGN.md §6 C05",
        technique="Lean 4 proof (freshness, shape, totality by pigeonhole of the flatname loop) + adversarial-name differential correspondence",
    ),
}
NOT_YET = {}


def main():
    props = [json.loads(l)["id"] for l in open(V / "properties.jsonl")]
    checks = []
    for p in props:
        if p not in CLAIMED:
            continue
        c = CLAIMED[p]
        checks.append(
            {
                "property_id": p,
                "quick_cmd": f"./check {p} --tier quick",
                "thorough_cmd": f"./check {p} --tier thorough",
                "evidence_file": f"evidence/{p}.json",
                "replay_cmd_template": f"./check {p} --replay {{path}}",
                "engine": "lean4-model",
                "level_claimed": {"category": "proof", "text": c["text"], "design_ref": c["ref"]},
                "level_note": c["note"],
                "technique": c["technique"],
            }
        )
    na = [
        {"property_id": p, "reason": NOT_YET.get(p, "check not built yet in this session (planned in DESIGN.md §11); not claimed until its model, theorems and correspondence exist")}
        for p in props
        if p not in CLAIMED
    ]
    man = {
        "version": 1,
        "setup_cmd": "./setup.sh",
        "hooks": {
            "guard": "HDL21_VERIF",
            "enable": "no hooks are needed: every observation uses Hdl21's public API on /repo's working tree",
            "baseline_off_cmd": "cd /repo && /venv/bin/python -m pytest -q -p no:cacheprovider --timeout=900 --continue-on-collection-errors",
            "source_commits": [],
            "add_only": True,
        },
        "engines": [
            {
                "name": "lean4-model",
                "path": "lean/",
                "serves_properties": sorted(CLAIMED),
                "kind_free_text": "hand-written executable Lean 4 model + theorems (lake build, #print axioms audit, leanchecker in thorough), tied to /repo by generated tables and a JSON-lines differential correspondence (harness/)",
            }
        ],
        "checks": checks,
        "not_applicable": na,
        "notes": "See DESIGN.md. ./check <ID> [--tier quick|thorough] [--replay file]. known_findings.json lists recorded and fixed findings.",
    }
    (V / "MANIFEST.json").write_text(json.dumps(man, indent=1) + "\n")


if __name__ == "__main__":
    main()
