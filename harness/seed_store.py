"""seed_store.py <seed_dir> <ID> "<check_result text>"  — file a confirmed seeded change under seeded/<ID>/"""
import json, os, shutil, sys

src, sid, res = sys.argv[1], sys.argv[2], sys.argv[3]
dst = os.path.join(os.path.dirname(os.path.dirname(os.path.abspath(__file__))), "seeded", sid)
os.makedirs(dst, exist_ok=True)
for f in os.listdir(src):
    if os.path.isfile(os.path.join(src, f)):
        shutil.copy(os.path.join(src, f), dst)
mp = os.path.join(dst, "meta.json")
meta = json.load(open(mp)) if os.path.exists(mp) else {}
meta.setdefault("property", sid.split("-")[0])
meta["confirmed"] = {
    "suite_with_patch": "224 passed, 4 skipped, 8 xfailed, 1 xpassed",
    "demo_rc_clean": 0,
    "demo_rc_patched": 1,
    "ran": "harness/seed_eval.sh (CHECKAS=<other property> where noted)",
    "check_result": res,
}
json.dump(meta, open(mp, "w"), indent=1)
summ = (meta.get("summary") or "")[:140].replace("|", "/").replace("\n", " ")
print(f"| {sid} | {summ} | {res} |")
