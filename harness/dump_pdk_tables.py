"""Runs in its own interpreter: imports the PDK packages from /repo and prints their device tables as JSON (for gen_tables)."""
import json
import sys
import os

sys.path.insert(0, os.path.dirname(os.path.abspath(__file__)))
import common

h = common.repo_env()
from fractions import Fraction


def val(x):
    """exact text of a Prefixed / number"""
    if x is None:
        return None
    if isinstance(x, h.Prefixed):
        return str(Fraction(x.number) * Fraction(10) ** x.prefix.value)
    if isinstance(x, h.Literal):
        return "L:" + x.text
    from decimal import Decimal
    return str(Fraction(Decimal(str(x))))


def ports(mod):
    return [p.name for p in mod.port_list]


def enum_name(e):
    return e.name


def mos_entry(key, mod):
    name = key[0]
    import hdl21.primitives as hp
    tp = next((enum_name(k) for k in key[1:] if isinstance(k, hp.MosType)), None)
    vth = next((enum_name(k) for k in key[1:] if isinstance(k, hp.MosVth)), None)
    fam = next((enum_name(k) for k in key[1:] if isinstance(k, hp.MosFamily)), None)
    return {"key": name, "tp": tp, "vth": vth, "fam": fam, "modname": mod.name, "ports": ports(mod), "paramtype": mod.paramtype.__name__}


def model_entry(key, mod):
    return {"key": key, "modname": mod.name, "ports": ports(mod), "paramtype": mod.paramtype.__name__}


def defaults_of(pc):
    return {k: val(v) for k, v in h.params.default_dict(pc).items()} if hasattr(h, "params") else {}


def main():
    import hdl21.primitives as hp
    out = {"prim_ports": {n: [p.name for p in getattr(hp, n).port_list] for n in
                          ("Mos", "PhysicalResistor", "ThreeTerminalResistor", "PhysicalCapacitor", "ThreeTerminalCapacitor", "Diode", "Bipolar")}}
    import sky130_hdl21.primitives.prim_dicts as sd
    import gf180_hdl21.primitives.prim_dicts as gd
    from hdl21.params import default_dict

    def pc_defaults(pc):
        return {k: val(v) for k, v in default_dict(pc).items()}

    out["sky130"] = {
        "xtors": [mos_entry(k, v) for k, v in sd.xtors.items()],
        "ress": [model_entry(k, v) for k, v in sd.ress.items()],
        "caps": [model_entry(k, v) for k, v in sd.caps.items()],
        "diodes": [model_entry(k, v) for k, v in sd.diodes.items()],
        "bjts": [model_entry(k, v) for k, v in sd.bjts.items()],
        "default_xtor": {k: [val(v[0]), val(v[1])] for k, v in sd.default_xtor_size.items()},
        "default_gen_res": {k: [val(v[0]), val(v[1])] for k, v in sd.default_gen_res_size.items()},
        "default_prec_res_L": {k: val(v) for k, v in sd.default_prec_res_L.items()},
        "default_cap": {k: [val(v[0]), val(v[1])] for k, v in sd.default_cap_sizes.items()},
        "param_defaults": {pc.__name__: pc_defaults(pc) for pc in (sd.Sky130MosParams, sd.Sky130Mos20VParams, sd.Sky130GenResParams, sd.Sky130PrecResParams,
                                                                   sd.Sky130MimParams, sd.Sky130VarParams, sd.Sky130DiodeParams, sd.Sky130BipolarParams)},
    }
    out["gf180"] = {
        "xtors": [mos_entry(k, v) for k, v in gd.xtors.items()],
        "ress": [model_entry(k, v) for k, v in gd.ress.items()],
        "caps": [model_entry(k, v) for k, v in gd.caps.items()],
        "diodes": [model_entry(k, v) for k, v in gd.diodes.items()],
        "bjts": [model_entry(k, v) for k, v in gd.bjts.items()],
        "default_xtor": {k: [val(v[0]), val(v[1])] for k, v in gd.default_xtor_size.items()},
        "default_res": {k: [val(v[0]), val(v[1])] for k, v in gd.default_res_size.items()},
        "default_diode": {k: [val(v[0]), val(v[1])] for k, v in gd.default_diode_size.items()},
        "param_defaults": {pc.__name__: pc_defaults(pc) for pc in (gd.GF180MosParams, gd.GF180ResParams, gd.GF180CapParams, gd.GF180DiodeParams, gd.GF180BipolarParams)},
    }
    print(json.dumps(out))


if __name__ == "__main__":
    main()
