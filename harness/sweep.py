"""
sweep.py — development tool (not a registered check): run many checks in parallel, each against a
private copy of /verif and a private scratch worktree of /repo, so that /repo itself is never touched.

  sweep.py seeds  [-j N] [--only C03,C07-r4-1,...] [--out FILE]   every stored seeded change: is it still reported?
  sweep.py benign [-j N] [--only ...]                              every stored behaviour-preserving change: does every check stay quiet?
  sweep.py clean  [-j N] [--seeds 1,2,3] [--props C01,...] [--tier quick]   unchanged tree under several VERIF_SEEDs
  sweep.py patch  <patch.diff> --props C01,C02 [-j N]             one patch against several properties' checks

Scratch lives under /tmp/sweep and is removed at the end (worktrees with `git worktree remove --force`).
"""
import argparse
import json
import os
import queue
import shutil
import subprocess
import sys
import threading
import time
from pathlib import Path

VERIF = Path(__file__).resolve().parent.parent
ROOT = Path("/tmp/sweep")
PROPS = [f"C{i:02d}" for i in range(1, 20)]


def sh(cmd, **kw):
    return subprocess.run(cmd, shell=True, capture_output=True, text=True, **kw)


def mk_slot(k):
    v, w = ROOT / f"v{k}", ROOT / f"w{k}"
    if w.exists():
        sh(f"git -C /repo worktree remove --force {w}")
        shutil.rmtree(w, ignore_errors=True)
    sh("git -C /repo worktree prune")
    r = sh(f"git -C /repo worktree add -q --detach {w} HEAD")
    assert r.returncode == 0, r.stderr
    v.mkdir(parents=True, exist_ok=True)
    r = sh(f"rsync -a --delete --exclude .git --exclude seeded --exclude replays {VERIF}/ {v}/")
    assert r.returncode == 0, r.stderr
    return v, w


def rm_slot(k):
    v, w = ROOT / f"v{k}", ROOT / f"w{k}"
    sh(f"git -C /repo worktree remove --force {w}")
    shutil.rmtree(w, ignore_errors=True)
    shutil.rmtree(v, ignore_errors=True)


def run_check(v, w, prop, tier="quick", seed=0, timeout=1800):
    env = dict(os.environ, HDL21_REPO=str(w), VERIF_SEED=str(seed))
    t0 = time.time()
    try:
        p = subprocess.run([str(v / "check"), prop, "--tier", tier], capture_output=True, text=True, env=env, timeout=timeout)
        out, rc = p.stdout + p.stderr, p.returncode
    except subprocess.TimeoutExpired as e:
        out, rc = (e.stdout or b"").decode(errors="replace") if isinstance(e.stdout, bytes) else (e.stdout or ""), 124
    lines = [l for l in out.splitlines() if l.startswith(("VIOLATION", "KNOWN-FINDING"))]
    viol = [l for l in lines if l.startswith("VIOLATION")]
    return {"rc": rc, "secs": round(time.time() - t0, 1), "violations": viol[:4], "tail": out[-600:] if rc not in (0, 1) else ""}


def replay_text(v, line):
    """first few hundred characters of the replay a VIOLATION line names (so that one can see *what* was reported)"""
    try:
        path = line.split("replay=")[1].split()[0]
        p = Path(path) if os.path.isabs(path) else v / path
        return p.read_text()[:700]
    except Exception:
        return ""


def worker(k, jobs, results, lock):
    v, w = mk_slot(k)
    while True:
        try:
            job = jobs.get_nowait()
        except queue.Empty:
            break
        sh(f"git -C {w} checkout -q -- . && git -C {w} clean -fdq")
        res = {"job": job}
        if job.get("patch"):
            r = sh(f"git -C {w} apply {job['patch']}")
            if r.returncode != 0:
                # written against lines which a later fix: commit changed — try with fuzz before giving up
                sh(f"git -C {w} checkout -q -- . && git -C {w} clean -fdq")
                r = sh(f"cd {w} && patch -p1 --fuzz=3 -s --no-backup-if-mismatch < {job['patch']} && ! find . -name '*.rej' | grep -q .")
                if r.returncode != 0:
                    sh(f"git -C {w} checkout -q -- . && git -C {w} clean -fdq")
            if r.returncode != 0:
                res["error"] = "patch does not apply: " + r.stderr[-300:]
                with lock:
                    results.append(res)
                    print(json.dumps(res), flush=True)
                continue
        res.update(run_check(v, w, job["prop"], job.get("tier", "quick"), job.get("seed", 0)))
        if res["violations"]:
            res["replay_head"] = replay_text(v, res["violations"][0])
        with lock:
            results.append(res)
            print(json.dumps({k_: res[k_] for k_ in ("job", "rc", "secs", "violations")}), flush=True)
    rm_slot(k)


def main():
    ap = argparse.ArgumentParser()
    ap.add_argument("mode", choices=["seeds", "benign", "clean", "patch"])
    ap.add_argument("patchfile", nargs="?")
    ap.add_argument("-j", type=int, default=6)
    ap.add_argument("--only", default="")
    ap.add_argument("--props", default="")
    ap.add_argument("--seeds", default="1,2,3")
    ap.add_argument("--tier", default="quick")
    ap.add_argument("--out", default="/tmp/sweep/results.json")
    ap.add_argument("--as", dest="as_prop", default="", help="seeds / benign: run every patch against this property's check instead of its own")
    a = ap.parse_args()
    ROOT.mkdir(exist_ok=True)
    jobs = queue.Queue()
    if a.mode in ("seeds", "benign"):
        only = [s for s in a.only.split(",") if s]
        for d in sorted((VERIF / ("seeded" if a.mode == "seeds" else "benign")).iterdir()):
            if not (d / "patch.diff").exists():
                continue
            if only and not any(d.name == o or d.name.startswith(o + "-") for o in only):
                continue
            meta = json.load(open(d / "meta.json")) if (d / "meta.json").exists() else {}
            prop = a.as_prop or meta.get("property", d.name.split("-")[0])
            jobs.put({"id": d.name, "prop": prop, "patch": str(d / "patch.diff")})
    elif a.mode == "clean":
        props = [p for p in a.props.split(",") if p] or PROPS
        for s in a.seeds.split(","):
            for p in props:
                jobs.put({"prop": p, "seed": int(s), "tier": a.tier})
    else:
        for p in a.props.split(","):
            jobs.put({"prop": p, "patch": os.path.abspath(a.patchfile), "id": os.path.basename(os.path.dirname(os.path.abspath(a.patchfile)))})
    n = jobs.qsize()
    print(f"{n} jobs on {a.j} workers", file=sys.stderr)
    results, lock = [], threading.Lock()
    ts = [threading.Thread(target=worker, args=(k, jobs, results, lock)) for k in range(min(a.j, n))]
    for t in ts:
        t.start()
    for t in ts:
        t.join()
    json.dump(results, open(a.out, "w"), indent=1)
    if a.mode == "seeds":
        missed = [r["job"]["id"] for r in results if not r.get("violations")]
        print(f"reported: {len(results) - len(missed)} / {len(results)}; not reported: {missed}")
    elif a.mode == "benign":
        alarms = [(r["job"]["id"], r.get("rc"), r.get("violations"), r.get("error", "")[:60]) for r in results if r.get("rc") != 0]
        print(f"behaviour-preserving changes: {len(results)}; not quiet: {alarms}")
    elif a.mode == "clean":
        bad = [(r["job"], r["rc"], r["violations"]) for r in results if r.get("rc") != 0]
        print(f"clean runs: {len(results)}, non-zero: {bad}")
    else:
        for r in results:
            print(r["job"]["prop"], r.get("rc"), r.get("violations"))


if __name__ == "__main__":
    main()
