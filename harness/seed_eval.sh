#!/bin/bash
# seed_eval.sh <seed_dir> <PROP> [worktree]  — confirm a seeded change and run the check against it.
# 1. in a scratch worktree: suite passes with the patch, demo fails with it and passes without
# 2. apply to /repo, run ./check PROP (quick), undo
SEED=$1; PROP=$2; WT=${3:-/tmp/wt_seed_eval}
set -u
if [ ! -d "$WT" ]; then git -C /repo worktree add -q "$WT" HEAD; fi
git -C "$WT" checkout -q --detach $(git -C /repo rev-parse HEAD); git -C "$WT" checkout -- .
cd "$WT"
PYTHONPATH=$WT:$WT/pdks/Sky130:$WT/pdks/Gf180:$WT/pdks/Asap7 /venv/bin/python "$SEED/demo.py" >/dev/null 2>&1; clean_rc=$?
git apply "$SEED/patch.diff" || { echo "patch does not apply"; exit 3; }
suite=$(PYTHONPATH=$WT:$WT/pdks/Sky130:$WT/pdks/Gf180:$WT/pdks/Asap7 /venv/bin/python -m pytest -q -p no:cacheprovider 2>&1 | tail -1)
PYTHONPATH=$WT:$WT/pdks/Sky130:$WT/pdks/Gf180:$WT/pdks/Asap7 /venv/bin/python "$SEED/demo.py" >/dev/null 2>&1; bug_rc=$?
git checkout -- .
echo "suite_with_patch: $suite"
echo "demo rc clean=$clean_rc patched=$bug_rc"
cd /verif
git -C /repo apply "$SEED/patch.diff" || exit 3
out=$(./check "${CHECKAS:-$PROP}" --tier quick 2>&1 | grep -E "^VIOLATION" | head -3)
rc=$?
git -C /repo checkout -- .
echo "check: ${out:-no violation reported}"
