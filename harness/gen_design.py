"""Type-directed generator of hierarchical source designs in the JSON IR (mostly valid; the Lean model decides).

Constructs: buses of any width, nested slices / concatenations, port-reference chains / fans / cycles with and
without an explicit signal, (shared, named) no-connects, bundle instances as ports and internals, bundle references,
anonymous bundles, instance arrays with broadcast and per-element wiring, Pair instance bundles, hierarchy with
shared sub-modules, Primitive and ExternalModule leaves.
"""
import copy

LEAVES = [
    {"k": "leaf", "kind": ".E1", "ports": [{"n": "a", "w": 2}, {"n": "b", "w": 1}], "params": [], "py": {"k": "ext", "name": "E1"}},
    {"k": "leaf", "kind": ".E2", "ports": [{"n": "p", "w": 1}, {"n": "q", "w": 3}, {"n": "r", "w": 1}], "params": [["m", "I:2"]],
     "py": {"k": "ext", "name": "E2", "params": {"m": 2}}},
    {"k": "leaf", "kind": "vendor_b.E1", "ports": [{"n": "x", "w": 1}, {"n": "y", "w": 2}, {"n": "z", "w": 1}], "params": [],
     "py": {"k": "ext", "name": "E1", "domain": "vendor_b"}},
    {"k": "leaf", "kind": "vlsir.primitives.resistor", "ports": [{"n": "p", "w": 1}, {"n": "n", "w": 1}], "params": [["r", "P:5"]],
     "py": {"k": "prim", "name": "R", "params": {"r": 5}}},
    {"k": "leaf", "kind": "vlsir.primitives.capacitor", "ports": [{"n": "p", "w": 1}, {"n": "n", "w": 1}], "params": [["c", "P:1/1000"]],
     "py": {"k": "prim", "name": "C", "params": {"c": "1e-3"}}},
    {"k": "leaf", "kind": "hdl21.primitives.Mos", "ports": [{"n": "d", "w": 1}, {"n": "g", "w": 1}, {"n": "s", "w": 1}, {"n": "b", "w": 1}],
     "params": [["tp", "L:NMOS"], ["vth", "L:STD"], ["family", "L:NONE"]], "py": {"k": "prim", "name": "Mos", "params": {}}},
    # parameters at "falsy" values are parameters all the same (only None is left out)
    {"k": "leaf", "kind": ".E3", "ports": [{"n": "p", "w": 1}, {"n": "q", "w": 1}], "params": [["m", "I:0"], ["x", "F:0x0.0p+0"], ["tag", "L:"], ["en", "I:0"]],
     "py": {"k": "ext", "name": "E3", "params": {"m": 0, "x": 0.0, "tag": "", "en": False, "k": None}}},
]
DIFF = {"name": "Diff", "tree": {"sigs": [{"n": "p", "w": 1, "port": False, "dir": "none", "src": None, "dest": None, "kind": "plain"},
                                          {"n": "n", "w": 1, "port": False, "dir": "none", "src": None, "dest": None, "kind": "plain"}], "subs": []}}


def leaf_sig(n, w, kind="plain"):
    return {"n": n, "w": w, "port": kind in ("input", "output", "inout", "port"), "dir": kind if kind in ("input", "output", "inout") else "none",
            "src": None, "dest": None, "kind": kind}


def rand_bundle_tree(rng, depth):
    names = ["x", "y", "z", "u", "v"]
    rng.shuffle(names)
    ns = rng.randint(1, 3)
    sigs = [leaf_sig(names[i], rng.choice([1, 1, 1, 2]), rng.choice(["plain", "plain", "input", "output"])) for i in range(ns)]
    subs = []
    if depth > 0 and rng.random() < 0.6:
        subs.append({"n": names[ns], "flip": rng.random() < 0.3, "role": None, "of": rand_bundle_tree(rng, depth - 1)})
    return {"sigs": sigs, "subs": subs}


def tree_leaves(tree, pre=()):
    out = [(list(pre) + [s["n"]], s["w"]) for s in tree["sigs"]]
    for sub in tree["subs"]:
        out += tree_leaves(sub["of"], tuple(pre) + (sub["n"],))
    return out


class ModGen:
    def __init__(self, rng, name, design, opts):
        self.rng, self.name, self.design, self.opts = rng, name, design, opts
        self.sigs, self.bundles, self.insts = [], [], []
        self.counter = 0
        self.shared_nc = {}

    def fresh(self, pre):
        self.counter += 1
        return f"{pre}{self.counter}"

    def new_sig(self, w, port=False):
        n = self.fresh("p" if port else "s")
        self.sigs.append({"n": n, "w": w, "port": port, "dir": self.rng.choice(["input", "output", "inout", "none"]) if port else "none"})
        return n

    def some_sig(self, w, exact=True):
        cands = [s for s in self.sigs if (s["w"] == w if exact else s["w"] > w)]
        if cands and self.rng.random() < 0.8:
            return self.rng.choice(cands)["n"]
        return self.new_sig(w if exact else w + self.rng.randint(1, 3))

    def bundle_inst(self, bdef, port=False):
        cands = [b for b in self.bundles if b["of"] == bdef and not b["port"]]
        if cands and not port and self.rng.random() < 0.7:
            return self.rng.choice(cands)["n"]
        n = self.fresh("bp" if port else "b")
        if not port and self.rng.random() < 0.25:
            # two instances made in one go (`b1, b2 = 2 * B()`): the second is there for a later connection to pick up
            n2 = self.fresh("b")
            self.bundles.append({"n": n, "of": bdef, "port": False, "mult": n})
            self.bundles.append({"n": n2, "of": bdef, "port": False, "mult": n})
            return n
        self.bundles.append({"n": n, "of": bdef, "port": port})
        return n

    # ---- connectables of a given width
    def scalar(self, w, depth=2, allow_ref=True, this=None):
        r = self.rng.random()
        o = self.opts
        if o.get("bundles", True) and any(b["port"] for b in self.bundles) and self.rng.random() < 0.25:
            for b in self.bundles:
                if b["port"]:
                    tree = next(t["tree"] for t in self.design["bundles"] if t["name"] == b["of"])
                    leaves = [l for l in tree_leaves(tree) if l[1] == w]
                    if leaves:
                        return {"k": "bref", "root": b["n"], "path": self.rng.choice(leaves)[0]}
        if r < 0.30 or depth == 0:
            if r < 0.05 and o.get("slices", True):
                # a slice as wide as the signal it is taken from — for a one-bit signal: s[0], s[-1], s[0:1], s[:] — next to whole uses of it
                idx = self.rng.choice([{"s": 0, "e": w, "st": None}, {"s": None, "e": None, "st": None}] + ([{"i": 0}, {"i": -1}] if w == 1 else [{"s": -w, "e": None, "st": None}]))
                return {"k": "slice", "p": {"k": "sig", "n": self.some_sig(w)}, "i": idx}
            return {"k": "sig", "n": self.some_sig(w)}
        if r < 0.50:
            big = self.some_sig(w, exact=False)
            bw = next(s["w"] for s in self.sigs if s["n"] == big)
            if o.get("slices", True) and self.rng.random() < 0.3:
                # a run of bits taken out of a strided / reversed slice of the signal: bus[::2][1:3], bus[5:0:-2][0:2]  (seed C01-r8-1)
                st = self.rng.choice([2, 3, -1, -2])
                m = w + self.rng.randint(1, 2)  # never the whole of the strided slice: that one the exporter refuses (a stepped slice of a Signal)
                span = (m - 1) * abs(st) + 1
                if span <= bw:
                    off = self.rng.randint(0, bw - span)
                    inner = ({"s": off, "e": off + span, "st": st} if st > 0 else
                             {"s": off + span - 1, "e": (off - 1 if off > 0 else None), "st": st})
                    b = self.rng.randint(0, m - w)
                    return {"k": "slice", "p": {"k": "slice", "p": {"k": "sig", "n": big}, "i": inner}, "i": {"s": b, "e": b + w, "st": None}}
            a = self.rng.randint(0, bw - w)
            if w == 1 and self.rng.random() < 0.5:
                return {"k": "slice", "p": {"k": "sig", "n": big}, "i": {"i": self.rng.choice([a, a - bw])}}
            return {"k": "slice", "p": {"k": "sig", "n": big}, "i": {"s": a, "e": a + w, "st": None}}
        if r < 0.68 and w >= 1:
            # concat of parts summing to w (or a single part)
            cuts, left = [], w
            while left > 0:
                k = self.rng.randint(1, left)
                cuts.append(k)
                left -= k
            return {"k": "concat", "ps": [self.scalar(k, depth - 1, allow_ref, this) for k in cuts]}
        if r < 0.80 and depth > 0:
            # slice (possibly reversed / stepped) of a concat or of another slice
            extra = self.rng.randint(1, 2)
            parent = {"k": "concat", "ps": [self.scalar(w, depth - 1, allow_ref, this), self.scalar(extra, depth - 1, allow_ref, this)]}
            if self.rng.random() < 0.3:
                return {"k": "slice", "p": parent, "i": {"s": w - 1, "e": None, "st": -1}}
            return {"k": "slice", "p": parent, "i": {"s": 0, "e": w, "st": None}}
        if r < 0.93 and allow_ref and o.get("refs", True):
            cands = [(i["n"], p, pw) for i in self.insts for (p, path, pw) in i["_iface"] if pw == w and not path and "array" not in i and "pair" not in i
                     and (i["n"], p) != this]
            wider = [(i["n"], p, pw) for i in self.insts for (p, path, pw) in i["_iface"] if pw > w and not path and "array" not in i and "pair" not in i
                     and (i["n"], p) != this]
            if wider and self.rng.random() < 0.3:
                # a slice taken directly from a reference to a wider port
                j, q, pw = self.rng.choice(wider)
                a = self.rng.randint(0, pw - w)
                idx = {"i": a} if w == 1 and self.rng.random() < 0.5 else {"s": a, "e": a + w, "st": None}
                return {"k": "slice", "p": {"k": "pref", "inst": j, "port": q}, "i": idx}
            if cands:
                j, q, _ = self.rng.choice(cands)
                return {"k": "pref", "inst": j, "port": q}
        if o.get("bundles", True) and self.rng.random() < 0.5:
            # a bundle reference to a leaf of an internal bundle instance
            for b in self.rng.sample(self.design["bundles"], len(self.design["bundles"])):
                if b["name"] == "Diff" and not o.get("pairs", True):
                    continue
                leaves = [l for l in tree_leaves(b["tree"]) if l[1] == w]
                wider = [l for l in tree_leaves(b["tree"]) if l[1] > w]
                if wider and self.rng.random() < 0.35:
                    # a member used only through a slice of its reference (never connected whole)
                    path, lw = self.rng.choice(wider)
                    ports = [x["n"] for x in self.bundles if x["of"] == b["name"] and x["port"]]
                    root = self.rng.choice(ports) if ports and self.rng.random() < 0.4 else self.bundle_inst(b["name"])
                    a = self.rng.randint(0, lw - w)
                    return {"k": "slice", "p": {"k": "bref", "root": root, "path": path}, "i": {"s": a, "e": a + w, "st": None}}
                if leaves:
                    path, _ = self.rng.choice(leaves)
                    ports = [x["n"] for x in self.bundles if x["of"] == b["name"] and x["port"]]
                    root = self.rng.choice(ports) if ports and self.rng.random() < 0.7 else self.bundle_inst(b["name"])
                    return {"k": "bref", "root": root, "path": path}
        return {"k": "sig", "n": self.some_sig(w)}

    def bundle_conn(self, bdef, depth=1, this=None):
        tree = next(b["tree"] for b in self.design["bundles"] if b["name"] == bdef)
        r = self.rng.random()
        if self.opts.get("refs", True) and self.rng.random() < 0.3:
            # a reference to another instance's bundle-valued port of the same bundle type
            cands = [(i["n"], q) for i in self.insts for q, bd in i.get("_bports", {}).items()
                     if bd == bdef and "array" not in i and "pair" not in i and (i["n"], q) != this]
            if cands:
                j, q = self.rng.choice(cands)
                return {"k": "pref", "inst": j, "port": q}
        if r < 0.55 or not self.opts.get("anon", True):
            return {"k": "bundle", "n": self.bundle_inst(bdef)}
        return self.anon_for(tree)

    def anon_for(self, tree):
        fields = [[s["n"], self.scalar(s["w"], 1, allow_ref=False)] for s in tree["sigs"]]
        for sub in tree["subs"]:
            fields.append([sub["n"], self.anon_for(sub["of"])])
        self.rng.shuffle(fields)
        return {"k": "anon", "fields": fields}


def iface_of(design, of):
    if of["k"] == "leaf":
        return [(p["n"], [], p["w"]) for p in of["ports"]]
    m = next(x for x in design["modules"] if x["name"] == of["name"])
    out = [(s["n"], [], s["w"]) for s in m["sigs"] if s["port"]]
    for b in m["bundles"]:
        if b["port"]:
            tree = next(t["tree"] for t in design["bundles"] if t["name"] == b["of"])
            out += [(b["n"], path, w) for path, w in tree_leaves(tree)]
    return out


def bundle_ports_of(design, of):
    if of["k"] == "leaf":
        return {}
    m = next(x for x in design["modules"] if x["name"] == of["name"])
    return {b["n"]: b["of"] for b in m["bundles"] if b["port"]}


def gen_design(rng, opts=None):
    opts = dict(opts or {})
    design = {"bundles": [], "modules": [], "top": "Top"}
    if opts.get("bundles", True):
        for k in range(rng.randint(0, 2)):
            design["bundles"].append({"name": f"B{k}", "tree": rand_bundle_tree(rng, rng.randint(0, 1))})
    if opts.get("pairs", True):
        design["bundles"].append(copy.deepcopy(DIFF))
        if opts.get("ibtypes", False) and rng.random() < 0.7:
            # a flat bundle of one-bit members for custom `InstanceBundleType`s
            names = ["x", "y", "z", "u", "v"]
            rng.shuffle(names)
            design["bundles"].append({"name": "IB0", "ib": True, "tree": {"sigs": [leaf_sig(n, 1) for n in names[:rng.randint(1, 3) if not opts.get("ib_prob") else rng.randint(2, 3)]], "subs": []}})
    nmods = rng.randint(1, opts.get("max_modules", 4))
    for mi in range(nmods):
        name = "Top" if mi == nmods - 1 else f"M{mi}"
        g = ModGen(rng, name, design, opts)
        # ports (not on the top of a one-module design only: tops may have ports too)
        for _ in range(rng.randint(0, 3)):
            g.new_sig(rng.choice([1, 1, 2, 3]), port=True)
        for _ in range(rng.randint(1, 3)):
            g.new_sig(rng.choice([1, 2, 3, 5]))
        if design["bundles"] and rng.random() < 0.5 and opts.get("bundles", True):
            b = rng.choice([b for b in design["bundles"] if b["name"] != "Diff"] or design["bundles"])
            g.bundle_inst(b["name"], port=True)
        # instances, first without connections (so that references can point forwards and backwards)
        targets = [copy.deepcopy(l) for l in LEAVES] + [{"k": "module", "name": m["name"]} for m in design["modules"]]
        for _ in range(rng.randint(1, 4)):
            of = rng.choice(targets if rng.random() < 0.5 or not design["modules"] else targets[len(LEAVES):])
            inst = {"n": g.fresh("i"), "of": of, "conns": [], "_iface": iface_of(design, of), "_bports": bundle_ports_of(design, of)}
            r = rng.random()
            if r < 0.15 and opts.get("arrays", True):
                inst["array"] = rng.randint(2, 3) if rng.random() < 0.9 else rng.randint(11, 13)  # (past 10: element names no longer sort like indices)
            elif r < 0.15 + opts.get("pair_prob", 0.10) and opts.get("pairs", True) and not inst["_bports"] and all(w == 1 for _, _, w in inst["_iface"]):
                ibs = [b for b in design["bundles"] if b.get("ib")]
                if ibs and rng.random() < opts.get("ib_prob", 0.6):
                    inst["pair"], inst["pair_of"] = [x["n"] for x in ibs[0]["tree"]["sigs"]], ibs[0]["name"]
                else:
                    inst["pair"] = ["p", "n"]
            g.insts.append(inst)
        for inst in g.insts:
            scalar_ports = [(p, w) for (p, path, w) in inst["_iface"] if not path]
            for p, w in scalar_ports:
                r = rng.random()
                if ("array" in inst or "pair" in inst) and r < 0.12 and opts.get("noconns", True):
                    # a no-connect on an array / pair port: every element ends on a net of its own
                    c = {"k": "noconn"}
                    if rng.random() < 0.4:
                        c["name"] = g.fresh("nc")
                elif "array" in inst:
                    n = inst["array"]
                    ww = w * n if rng.random() < 0.5 else w
                    if ww == w * n and rng.random() < 0.35:
                        # strided / reversed slice taken directly from a signal: the per-element re-slicing peels it
                        st = rng.choice([-1, 2, -2, 3])
                        extra = rng.randint(0, 2)
                        big = g.new_sig(abs(st) * ww + extra)
                        off = rng.randint(0, extra)  # the strided slice need not start at bit 0
                        c = {"k": "slice", "p": {"k": "sig", "n": big}, "i": ({"s": off, "e": off + abs(st) * ww, "st": st} if st > 0 else
                                                                            {"s": off + abs(st) * ww - 1, "e": (off - 1 if off > 0 else None), "st": st})}
                    else:
                        c = g.scalar(ww, 2, allow_ref=False)
                elif "pair" in inst:
                    if r < 0.3:
                        c = {"k": "bundle", "n": g.bundle_inst(inst.get("pair_of", "Diff"))}
                    elif r < 0.55 and opts.get("anon", True):
                        # an anonymous bundle (also as dict shorthand), members in either order
                        fields = [[mem, g.scalar(w, 1, allow_ref=False)] for mem in inst["pair"]]
                        rng.shuffle(fields)
                        c = {"k": "anon", "fields": fields}
                    else:
                        c = g.scalar(w, 1, allow_ref=False)
                elif r < 0.14 and opts.get("noconns", True):
                    c = {"k": "noconn"}
                    rr = rng.random()
                    if rr < 0.3:
                        c["name"] = g.fresh("nc")
                    elif rr < 0.75:
                        # one NoConn object (named or not) shared by several ports
                        key = (w, 0)
                        if key not in g.shared_nc:
                            g.shared_nc[key] = {"id": len(g.shared_nc) + 1, "name": g.fresh("nc") if rng.random() < 0.6 else None}
                        c.update(g.shared_nc[key])
                elif r < 0.16 and opts.get("refs", True):
                    # leave unconnected but referenced by someone later — or referenced nowhere (invalid): the model decides
                    others = [j for j in g.insts if j is not inst and "array" not in j and "pair" not in j]
                    cand = [(j, q) for j in others for (q, path, qw) in j["_iface"] if not path and qw == w and not any(c0[0] == q for c0 in j["conns"])]
                    if cand:
                        j, q = rng.choice(cand)
                        j["conns"].append([q, {"k": "pref", "inst": inst["n"], "port": p}])
                        continue
                    c = g.scalar(w, 2, this=(inst["n"], p))
                else:
                    c = g.scalar(w, 2, this=(inst["n"], p))
                if not any(c0[0] == p for c0 in inst["conns"]):
                    inst["conns"].append([p, c])
            for bp, bdef in inst["_bports"].items():
                if rng.random() < 0.12 and opts.get("noconns", True) and opts.get("bundle_noconns", True):
                    # a no-connect on a bundle-valued port (of an instance, or of every element of an array): every leaf on a net of its own
                    c = {"k": "noconn"}
                    if rng.random() < 0.4:
                        c["name"] = g.fresh("nc")
                    inst["conns"].append([bp, c])
                elif "array" in inst:
                    inst["conns"].append([bp, {"k": "bundle", "n": g.bundle_inst(bdef)}])
                else:
                    inst["conns"].append([bp, g.bundle_conn(bdef, this=(inst["n"], bp))])
        for inst in g.insts:
            del inst["_iface"], inst["_bports"]
        design["modules"].append({"name": name, "sigs": g.sigs, "bundles": g.bundles, "insts": g.insts})
    return design
