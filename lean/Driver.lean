import Hdl21Model.Drv.C03
import Hdl21Model.Drv.C14
import Hdl21Model.Drv.C18
import Hdl21Model.Drv.C10
import Hdl21Model.Drv.C09
import Hdl21Model.Drv.C13
import Hdl21Model.Drv.Sem
import Hdl21Model.Drv.C04
import Hdl21Model.Drv.C16
import Hdl21Model.Drv.C19
import Hdl21Model.Drv.C17
import Hdl21Model.Drv.C15
import Hdl21Model.Drv.PortRefs
import Hdl21Model.Drv.GenRun
import Hdl21Model.Drv.Runner
import Hdl21Model.Drv.Names
import Hdl21Model.Drv.RoundTrip
import Hdl21Model.Drv.ExportWF
import Hdl21Model.Drv.ConnTypes
import Hdl21Model.Drv.ExportNames
import Hdl21Model.Drv.InstBundle
import Hdl21Model.Drv.ArrayPass
import Hdl21Model.Drv.NameEnc
import Hdl21Model.Drv.Orphanage
import Hdl21Model.Drv.BundleConn
import Hdl21Model.Drv.ModulePipe
import Hdl21Model.Drv.ExtDecl
open Lean

/-- Line protocol: one JSON object per input line `{"prop": "C03", "op": ..., ...}`,
    one JSON object per output line. Errors in the protocol itself are reported as
    `{"protocol_error": ...}` so that the harness never mistakes them for a verdict. -/
def dispatch (j : Json) : Except String Json := do
  let prop ← Hdl21.J.getStr j "prop"
  let op ← Hdl21.J.getStr j "op"
  match prop with
  | "C03" => Hdl21.Drv.C03.handle op j
  | "C14" => Hdl21.Drv.C14.handle op j
  | "C18" => Hdl21.Drv.C18.handle op j
  | "C10" => Hdl21.Drv.C10.handle op j
  | "C09" => Hdl21.Drv.C09.handle op j
  | "C13" => Hdl21.Drv.C13.handle op j
  | "C04" => Hdl21.Drv.C04.handle op j
  | "C16" => Hdl21.Drv.C16.handle op j
  | "C19" => Hdl21.Drv.C19.handle op j
  | "C17" => Hdl21.Drv.C17.handle op j
  | "C15" => Hdl21.Drv.C15.handle op j
  | "F2" => Hdl21.Drv.PortRefs.handle op j
  | "GEN" => Hdl21.Drv.GenRun.handle op j
  | "RUN" => Hdl21.Drv.Runner.handle op j
  | "NAMES" => Hdl21.Drv.Names.handle op j
  | "RT" => Hdl21.Drv.RoundTrip.handle op j
  | "EWF" => Hdl21.Drv.ExportWF.handle op j
  | "CT" => Hdl21.Drv.ConnTypes.handle op j
  | "EN" => Hdl21.Drv.ExportNames.handle op j
  | "IB" => Hdl21.Drv.InstBundle.handle op j
  | "AP" => Hdl21.Drv.ArrayPass.handle op j
  | "NE" => Hdl21.Drv.NameEnc.handle op j
  | "OR" => Hdl21.Drv.Orphanage.handle op j
  | "BC" => Hdl21.Drv.BundleConn.handle op j
  | "MP" => Hdl21.Drv.ModulePipe.handle op j
  | "XD" => Hdl21.Drv.ExtDecl.handle op j
  | "SEM" => Hdl21.Drv.Sem.handle op j
  | _ => .error s!"unknown prop {prop}"

partial def loop (hin hout : IO.FS.Stream) : IO Unit := do
  let line ← hin.getLine
  if line.isEmpty then return ()
  let out : Json := match Json.parse line with
    | .error e => Json.mkObj [("protocol_error", s!"parse: {e}")]
    | .ok j => match dispatch j with
      | .ok r => r
      | .error e => Json.mkObj [("protocol_error", e)]
  hout.putStrLn out.compress
  loop hin hout

def main : IO Unit := do
  let hin ← IO.getStdin
  let hout ← IO.getStdout
  loop hin hout
  hout.flush
