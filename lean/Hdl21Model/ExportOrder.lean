/-
# The exporter's module traversal (hdl21/proto/exporting.py:ProtoExporter.export_module/export_instance) — C06

`export_module(m)`: return if `id(m)` is already in `modules_by_id`; otherwise export the target of every
instance first (depth-first, in instance order), then append `m` to `pkg.modules`.
Modules are numbered so that a module's children have smaller numbers (elaboration rejects cycles).
-/
namespace Hdl21.ExportOrder

def exportModule (children : Nat → List Nat) : Nat → List Nat → Nat → List Nat
  | 0, done, _ => done
  | fuel + 1, done, m =>
    if m ∈ done then done
    else (children m).foldl (fun d c => exportModule children fuel d c) done ++ [m]

/-- `export()`: every top in turn. -/
def exportTops (children : Nat → List Nat) (fuel : Nat) (tops : List Nat) : List Nat :=
  tops.foldl (fun d t => exportModule children fuel d t) []

/-- Definition before use: everything a listed module instantiates is listed earlier. -/
def Closed (children : Nat → List Nat) (l : List Nat) : Prop :=
  ∀ i x, l[i]? = some x → ∀ c ∈ children x, c ∈ l.take i

end Hdl21.ExportOrder
