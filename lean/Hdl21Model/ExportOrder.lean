/-
# The exporter's module traversal (hdl21/proto/exporting.py:ProtoExporter.export_module/export_instance) — C06

`export_module(m)`: return if `id(m)` is already in `modules_by_id`; otherwise export the target of every
instance first (depth-first, in instance order), then append `m` to `pkg.modules`.
Modules are numbered so that a module's children have smaller numbers (elaboration rejects cycles).
-/
namespace Hdl21.ExportOrder

def exportModule (children : Nat → List Nat) : Nat → List Nat → Nat → List Nat
  | 0, done, _ => done
  | fuel + 1, done, m =>
    if m ∈ done then done
    else (children m).foldl (fun d c => exportModule children fuel d c) done ++ [m]

/-- `export()`: every top in turn. -/
def exportTops (children : Nat → List Nat) (fuel : Nat) (tops : List Nat) : List Nat :=
  tops.foldl (fun d t => exportModule children fuel d t) []

/-- Definition before use: everything a listed module instantiates is listed earlier. -/
def Closed (children : Nat → List Nat) (l : List Nat) : Prop :=
  ∀ i x, l[i]? = some x → ∀ c ∈ children x, c ∈ l.take i

end Hdl21.ExportOrder

/-! ## with names: `export_module_name` reserves the serialized name before the dependencies are exported -/
namespace Hdl21.ExportOrder

structure NState where
  done : List Nat            -- `pkg.modules`, by module number
  reserved : List String     -- keys of `modules_by_name`
  deriving Repr, DecidableEq

/-- a `for` loop that stops at the first failure -/
def foldOpt (f : NState → Nat → Option NState) : NState → List Nat → Option NState
  | s, [] => some s
  | s, c :: rest =>
    match f s c with
    | none => none
    | some s' => foldOpt f s' rest

/-- `export_module(m)` with the name check: already exported → nothing; name taken → `RuntimeError` (`none`); otherwise reserve
    the name, export the dependencies, append the module. -/
def exportNamed (name : Nat → String) (children : Nat → List Nat) : Nat → NState → Nat → Option NState
  | 0, _, _ => none
  | fuel + 1, s, m =>
    if m ∈ s.done then some s
    else if name m ∈ s.reserved then none
    else
      match foldOpt (exportNamed name children fuel) { s with reserved := name m :: s.reserved } (children m) with
      | none => none
      | some s' => some { s' with done := s'.done ++ [m] }

/-- `export()`: every top in turn -/
def exportNamedTops (name : Nat → String) (children : Nat → List Nat) (fuel : Nat) (tops : List Nat) : Option NState :=
  foldOpt (exportNamed name children fuel) ⟨[], []⟩ tops

end Hdl21.ExportOrder
