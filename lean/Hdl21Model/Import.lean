/-
# Import of connection targets (hdl21/proto/importing.py:import_connection_target/import_concat)  — C11
-/
import Hdl21Model.Export
namespace Hdl21
open Hdl21.Pkg

mutual
/-- `import_connection_target`: `slice{signal, top, bot}` becomes `signal[bot : top+1]`,
    concatenation parts are read back in reverse (VLSIR lists the most significant part first). -/
def importTarget (ws : List (String × Nat)) : PTarget → SConn
  | .sig n => .sig n ((lookup n ws).getD 0)
  | .slice n top bot => .slice (.sig n ((lookup n ws).getD 0)) (.range (some (bot : Int)) (some ((top : Int) + 1)) none)
  | .concat parts => .concat (importParts ws parts)
/-- `for ppart in reversed(pconc.parts)` -/
def importParts (ws : List (String × Nat)) : List PTarget → List SConn
  | [] => []
  | p :: rest => importParts ws rest ++ [importTarget ws p]
end

mutual
/-- A connection target as the exporter writes it into a well-formed package: declared signals, slices
    inside their signal. -/
def wfTarget (ws : List (String × Nat)) : PTarget → Bool
  | .sig n => (lookup n ws).isSome
  | .slice n top bot => match lookup n ws with
    | some w => decide (bot ≤ top) && decide (top < w)
    | none => false
  | .concat parts => wfParts ws parts
def wfParts (ws : List (String × Nat)) : List PTarget → Bool
  | [] => true
  | p :: rest => wfTarget ws p && wfParts ws rest
end

end Hdl21
