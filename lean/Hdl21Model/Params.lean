/-
# Parameter export / import (hdl21/proto/exporting.py:export_param_value/export_prefixed/export_prefix,
#                            hdl21/proto/importing.py:import_parameter_value/import_prefixed)      — C13, C11
-/
import Hdl21Model.Prefix
import Hdl21Model.Generated.PrimTables
namespace Hdl21.Params
open Hdl21

/-- Python-side parameter values the exporter accepts. -/
inductive PyVal where
  | none
  | str (s : String)
  | literal (s : String)         -- hdl21.Literal
  | enumStr (s : String)         -- Enum with a string value
  | enumOther                    -- Enum with a non-string value (rejected)
  | prefixed (p : Prefixed)
  | decimal (d : Dec)
  | int (i : Int)
  | float (repr : String)        -- IEEE double, identified by its hex repr
  | other                        -- anything else (rejected)
  deriving Repr, DecidableEq

/-- vlsir.Prefixed.number -/
inductive PNum where
  | int64 (n : Int)
  | string (d : Dec)             -- `str(Decimal)`; read back by `Decimal(text)` (CPython round trip)
  deriving Repr, DecidableEq

/-- vlsir.ParamValue -/
inductive PVal where
  | literal (s : String)
  | decLiteral (d : Dec)         -- `literal=str(Decimal)`
  | prefixed (n : PNum) (prefixName : String)
  | int64 (i : Int)
  | double (repr : String)
  deriving Repr, DecidableEq

def lookupS {β} (k : String) : List (String × β) → Option β
  | [] => none
  | (a, b) :: rest => if a = k then some b else lookupS k rest

def lookupI {β} (k : Int) : List (Int × β) → Option β
  | [] => none
  | (a, b) :: rest => if a = k then some b else lookupI k rest

/-- `export_prefix` -/
def exportPrefix (pre : Int) : Option String := lookupI pre exportPrefixMap

/-- `import_prefix`: vlsir name ↦ hdl21 member name ↦ exponent -/
def importPrefix (name : String) : Option Int :=
  match lookupS name importPrefixMap with
  | some member => lookupS member prefixTable
  | none => none

def inInt64 (n : Int) : Bool := decide (-(2 ^ 63 : Int) ≤ n) && decide (n < (2 ^ 63 : Int))

/-- `number == int(number)` -/
def Dec.isInt (d : Dec) : Bool := if d.e ≥ 0 then true else d.c % (10 ^ (-d.e).toNat) = 0

/-- `export_prefixed` -/
def exportPrefixed (p : Prefixed) : Option PVal :=
  match exportPrefix p.pre with
  | none => none
  | some name =>
    if Dec.isInt p.number && inInt64 p.number.toInt then some (.prefixed (.int64 p.number.toInt) name)
    else some (.prefixed (.string p.number) name)

/-- `export_param_value`. Outer `none` = TypeError, inner `none` = parameter omitted. -/
def exportParamValue : PyVal → Option (Option PVal)
  | .none => some none
  | .str s => some (some (.literal s))
  | .enumStr s => some (some (.literal s))
  | .enumOther => none
  | .literal s => some (some (.literal s))
  | .prefixed p => (exportPrefixed p).map some
  | .decimal d => some (some (.decLiteral d))
  | .int i => if inInt64 i then some (some (.int64 i)) else none
  | .float r => some (some (.double r))
  | .other => none

/-- `import_prefixed` -/
def importPrefixed (n : PNum) (name : String) : Option Prefixed :=
  match importPrefix name with
  | none => none
  | some pre =>
    match n with
    | .int64 k => some ⟨⟨k, 0⟩, pre⟩
    | .string d => some ⟨d, pre⟩

end Hdl21.Params
