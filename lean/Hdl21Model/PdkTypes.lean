/-
# Types of the PDK device tables (pdks/*/primitives/prim_dicts.py), shared by the generated tables and the model — C15
-/
namespace Hdl21.Pdk

/-- one entry of an `xtors` dict: key tuple (component name, MosType, [MosVth], [MosFamily]) ↦ ExternalModule -/
structure MosEntry where
  key : String
  tp : String
  vth : Option String        -- GF180 keys carry no threshold
  fam : Option String
  modname : String
  ports : List String
  paramtype : String
  deriving Repr, DecidableEq

/-- one entry of a `ress` / `caps` / `diodes` / `bjts` dict: model key ↦ ExternalModule -/
structure ModelEntry where
  key : String
  modname : String
  ports : List String
  paramtype : String
  deriving Repr, DecidableEq

/-- a default-size dict entry: module name ↦ (w, l), exact values as text -/
structure SizeEntry where
  modname : String
  w : String
  l : String
  deriving Repr, DecidableEq

end Hdl21.Pdk
