/-
# Slice index normalisation  (hdl21/slice.py:_slice_inner)          — property C03

`pyAdjust`/`pyBits` transcribe CPython's `PySlice_Unpack` + `PySlice_AdjustIndices`
+ `PySlice_AdjustIndices`' length formula (Objects/sliceobject.c) over unbounded
integers: they are the *specification* ("what the same slice selects from a Python
list of the w bits").  They are validated on every run against the real
`list(range(w))[idx]` by the correspondence harness.

`sliceInner` mirrors `hdl21/slice.py:_slice_inner` (the representation
`top/bot/step/width` stored on every `Slice`), and `Inner.bits` is the one reading
of that representation used by `_list_slice` and `export_slice`.
-/
namespace Hdl21

/-- A Python subscript: `x[i]` or `x[start:stop:step]`. -/
inductive Index where
  | int (i : Int)
  | range (start stop step : Option Int)
  deriving Repr, DecidableEq, Inhabited

/-- `SliceInner` of hdl21/slice.py. `top` exclusive, `bot` inclusive. -/
structure Inner where
  top : Int
  bot : Int
  step : Int
  width : Int
  deriving Repr, DecidableEq, Inhabited

/-- Errors are collapsed to one enum (the harness maps every exception to `reject`). -/
inductive Err where
  | reject (why : String)
  deriving Repr, Inhabited

instance : BEq Err := ⟨fun _ _ => true⟩

/-! ## Python's slice algorithm (the oracle) -/

/-- One bound of `PySlice_AdjustIndices`: clamp `x` for sequence length `len`. -/
def pyClamp (len step x : Int) : Int :=
  if x < 0 then
    let x' := x + len
    if x' < 0 then (if step < 0 then -1 else 0) else x'
  else if x ≥ len then (if step < 0 then len - 1 else len)
  else x

/-- (start, stop, step) after `PySlice_Unpack` defaults and `PySlice_AdjustIndices`.
    Requires `step ≠ 0` (Python raises `ValueError` otherwise). -/
def pyAdjust (len : Int) (a b : Option Int) (step : Int) : Int × Int :=
  let start := match a with
    | some x => pyClamp len step x
    | none => if step < 0 then len - 1 else 0
  let stop := match b with
    | some x => pyClamp len step x
    | none => if step < 0 then -1 else len
  (start, stop)

/-- Slice length as computed by `PySlice_AdjustIndices`. -/
def pyLen (start stop step : Int) : Nat :=
  if step < 0 then
    if stop < start then ((start - stop - 1) / (-step) + 1).toNat else 0
  else
    if start < stop then ((stop - start - 1) / step + 1).toNat else 0

/-- Arithmetic progression `first, first+step, …` of `n` terms. -/
def arith (first step : Int) (n : Nat) : List Int :=
  (List.range n).map (fun (k : Nat) => first + (k : Int) * step)

/-- The indices Python selects from a list of length `w` for `[a:b:st]`;
    `none` when the step is zero (ValueError). -/
def pyBits (w : Nat) (a b st : Option Int) : Option (List Int) :=
  let step := st.getD 1
  if step = 0 then none else
    let (start, stop) := pyAdjust w a b step
    some (arith start step (pyLen start stop step))

/-- The index Python selects for an integer subscript, `none` = IndexError. -/
def pyIndex (w : Nat) (i : Int) : Option Int :=
  if -(w : Int) ≤ i ∧ i < w then some (i % (w : Int)) else none

/-! ## hdl21's representation -/

/-- The bit indices (into the parent, LSB = 0) that a `SliceInner` stands for.
    `step > 0`: `bot, bot+step, …` ; `step < 0`: `top-1, top-1+step, …`. -/
def Inner.bits (s : Inner) : List Int :=
  if s.step < 0 then arith (s.top - 1) s.step s.width.toNat
  else arith s.bot s.step s.width.toNat

/-- Mirror of `hdl21/slice.py:_slice_inner` for a parent of width `w`. -/
def sliceInner (w : Nat) : Index → Except Err Inner
  | .int i =>
    if i ≥ w ∨ i < -(w : Int) then .error (.reject "index out of bounds")
    else
      let i := if i < 0 then i + w else i
      .ok { top := i + 1, bot := i, step := 1, width := 1 }
  | .range a b st =>
    let step := st.getD 1
    if step = 0 then .error (.reject "slice step cannot be zero") else
      let (start, stop) := pyAdjust w a b step
      let n := pyLen start stop step
      if n = 0 then .error (.reject "empty slice") else
        let last := start + ((n : Int) - 1) * step
        if step > 0 then .ok { top := last + 1, bot := start, step := step, width := n }
        else .ok { top := start + 1, bot := last, step := step, width := n }

end Hdl21
