/-
# Instance bundles become scalar instances (hdl21/elab/passes/inst_bundles.py:InstBundleElabPass)            — C01, C02, C05

`h.Pair(M)(…)` (or any `InstanceBundleType` over a flat bundle with members `ms`): one instance of `M` per member, named
`<inst>_<member>` (through `flatname`, C05), each with every connection of the instance bundle:
  * a bundle instance of the very bundle type  →  that member of the bundle instance;
  * an anonymous bundle                        →  its field of the member's name (a field the bundle type does not have is refused;
                                                 a member without a field cannot be connected);
  * anything scalar                            →  the connection itself, the same for every member;
  * a no-connect                               →  left for `ResolvePortRefs`, which gives every member's port a net of its own.
Bundle types with nested bundles are refused.
-/
import Hdl21Model.Conn
namespace Hdl21.InstBundle
open Hdl21

inductive IBConn
  | bundle (ty : String) (name : String)
  | anon (fields : List (String × SConn))
  | scalar (c : SConn)
  | noconn
  deriving Repr

/-- what one member's instance is connected to on one port -/
inductive ElemConn
  | member (bundleInst : String) (member : String)
  | conn (c : SConn)
  | noconn
  deriving Repr

def lookupF (k : String) : List (String × SConn) → Option SConn
  | [] => none
  | (a, c) :: rest => if a = k then some c else lookupF k rest

def elemConn (ty : String) (ms : List String) (m : String) : IBConn → Except String ElemConn
  | .bundle ty' b => if ty' = ty then .ok (.member b m) else .error "Invalid Instance Bundle connection"
  | .anon fields =>
    if fields.any (fun f => !ms.contains f.1) then .error "has no members"
    else match lookupF m fields with
      | some c => .ok (.conn c)
      | none => .error "attempting to connect non-connectable None"
  | .scalar c => .ok (.conn c)
  | .noconn => .ok .noconn

def elemConns (ty : String) (ms : List String) (m : String) : List (String × IBConn) → Except String (List (String × ElemConn))
  | [] => .ok []
  | (p, c) :: rest =>
    match elemConn ty ms m c, elemConns ty ms m rest with
    | .ok e, .ok r => .ok ((p, e) :: r)
    | .error e, _ => .error e
    | _, .error e => .error e

def expandMembers (ty : String) (ms : List String) (conns : List (String × IBConn)) : List String → Except String (List (String × List (String × ElemConn)))
  | [] => .ok []
  | m :: rest =>
    match elemConns ty ms m conns, expandMembers ty ms conns rest with
    | .ok e, .ok r => .ok ((m, e) :: r)
    | .error e, _ => .error e
    | _, .error e => .error e

/-- the pass on one instance bundle: per member, the member's instance's connections -/
def expand (ty : String) (nested : Bool) (ms : List String) (conns : List (String × IBConn)) :
    Except String (List (String × List (String × ElemConn))) :=
  if nested then .error "Invalid Instance Bundle with nested Bundles" else expandMembers ty ms conns ms

end Hdl21.InstBundle
