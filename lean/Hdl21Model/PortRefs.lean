/-
# Port-reference and no-connect resolution over whole signals (hdl21/elab/passes/portrefs.py)     — C01 (fragment F2), C04, C05

A module after the connection operations (C04: the final map), every connection being a whole signal, a
reference to another instance's port, or a no-connect:

* `group`        the ports `follow` collects from a port (depth-first over `conns` and the back-references, `Lemmas/Dfs`);
* `resolvePort`  the signal the port is connected to once `ResolvePortRefs` is done: the one declared signal found in its
                 group, or a signal invented for the group (one per group, private to it); a group holding a no-connect must
                 consist of that one port; two declared signals in one group, or a port that is neither connected nor
                 referenced, make the pass raise (`none`).
Invented signals are numbered from `nsig` upwards — their names are C05's business, their being distinct from every
declared signal and from one another is what matters here.
-/
import Hdl21Model.Lemmas.Dfs
namespace Hdl21.PortRefs
open Hdl21.Dfs

abbrev Port := Nat × Nat

inductive Conn
  | sig (s : Nat)
  | pref (q : Port)
  | nc (id : Nat)
  deriving DecidableEq, Repr

structure Mod where
  ports : List Port
  conns : List (Port × Conn)
  nsig : Nat
  deriving Repr

def look (m : Mod) (p : Port) : Option Conn := (m.conns.find? (·.1 == p)).map (·.2)

/-- `p._connected_ports`: the ports connected to the reference of `p` (C04: the inverse of `conns`) -/
def back (m : Mod) (p : Port) : List Port := m.conns.filterMap fun e => if e.2 = .pref p then some e.1 else none

def nbrs (m : Mod) (p : Port) : List Port :=
  (match look m p with | some (.pref q) => [q] | _ => []) ++ back m p

def fuelOf (m : Mod) : Nat := m.ports.length + m.conns.length + 2

def group (m : Mod) (p : Port) : Option (List Port) := dfs (nbrs m) (fuelOf m) p []

def srcOf (m : Mod) (p : Port) : Option Nat := match look m p with | some (.sig s) => some s | _ => none
def isNc (m : Mod) (p : Port) : Bool := match look m p with | some (.nc _) => true | _ => false

/-- the declared signals found in a group: `some none` = none, `some (some s)` = exactly `s`, `none` = more than one -/
def uniqueSource : List Nat → Option (Option Nat)
  | [] => some none
  | s :: r => if r.all (· == s) then some (some s) else none

/-- the signal invented for a group: keyed by the first port (in declaration order) that belongs to it -/
def inventedFor (m : Mod) (g : List Port) : Option Nat :=
  (m.ports.findIdx? (· ∈ g)).map (m.nsig + ·)

def resolvePort (m : Mod) (p : Port) : Option Nat :=
  match group m p with
  | none => none
  | some g =>
    if look m p = none ∧ back m p = [] then none                    -- neither connected nor referenced
    else if g.any (isNc m) then
      (if g.all (· == p) then inventedFor m g else none)            -- "multiply-connected NoConn"
    else match uniqueSource (g.filterMap (srcOf m)) with
      | none => none                                                 -- "multiple Source-Signals"
      | some (some s) => some s
      | some none => inventedFor m g

/-! ## what the designer wrote -/

inductive Node
  | port (p : Port)
  | sig (s : Nat)
  deriving DecidableEq, Repr

/-- the connections as written: a port is on the signal, or on the port, it is connected to -/
inductive Edge (m : Mod) : Node → Node → Prop
  | toSig {p : Port} {s : Nat} : look m p = some (.sig s) → Edge m (.port p) (.sig s)
  | toPort {p q : Port} : look m p = some (.pref q) → Edge m (.port p) (.port q)

inductive Wired (m : Mod) : Node → Node → Prop
  | refl (a : Node) : Wired m a a
  | edge {a b : Node} : Edge m a b → Wired m a b
  | symm {a b : Node} : Wired m a b → Wired m b a
  | trans {a b c : Node} : Wired m a b → Wired m b c → Wired m a c

structure WF (m : Mod) : Prop where
  keys : (m.conns.map (·.1)).Nodup
  keysIn : ∀ e ∈ m.conns, e.1 ∈ m.ports
  prefIn : ∀ e ∈ m.conns, ∀ q, e.2 = .pref q → q ∈ m.ports
  sigIn : ∀ e ∈ m.conns, ∀ s, e.2 = .sig s → s < m.nsig

end Hdl21.PortRefs
