import Hdl21Model.Json
import Hdl21Model.BundleConn
import Hdl21Model.Drv.C10
open Lean
namespace Hdl21.Drv.BundleConn
open Hdl21 Hdl21.J Hdl21.Bundles Hdl21.BundleConn

partial def parseB (j : Json) : Except String BConn := do
  match ← getStr j "k" with
  | "inst" => pure (.inst (← getStr j "n"))
  | "ref" => pure (.ref (← getStr j "root") (← (← getArr j "path").toList.mapM (·.getStr?)))
  | "scalar" => pure (.scalar (← parseSConn (← j.getObjVal? "c")))
  | "anon" =>
    let fs ← (← getArr j "fields").toList.mapM fun e => do
      let a ← e.getArr?
      pure ((← (a[0]?.getD Json.null).getStr?), (← parseB (a[1]?.getD Json.null)))
    pure (.anon fs)
  | k => throw s!"bad bundle connection {k}"

def bitsJson (c : SConn) : Json :=
  match c.denote with
  | .ok bs => Json.arr (bs.map fun b => Json.arr #[Json.str b.1, toJson b.2]).toArray
  | .error _ => Json.null

def handle (op : String) (j : Json) : Except String Json := do
  match op with
  | "reconnect" =>
    -- {"env": [[name, tree]], "port": p, "tree": port's tree, "conn": bconn}
    let env ← (← getArr j "env").toList.mapM fun e => do
      let a ← e.getArr?
      pure ((← (a[0]?.getD Json.null).getStr?), (← Hdl21.Drv.C10.parseTree (a[1]?.getD Json.null)))
    let port ← getStr j "port"
    let t ← Hdl21.Drv.C10.parseTree (← j.getObjVal? "tree")
    let c ← parseB (← j.getObjVal? "conn")
    match reconnect flatName env port t c with
    | .error e => pure (Json.mkObj [("error", e)])
    | .ok cs => pure (Json.mkObj [("ok", Json.arr (cs.map fun pc => Json.arr #[Json.str pc.1, bitsJson pc.2]).toArray)])
  | _ => throw s!"BundleConn: unknown op {op}"

end Hdl21.Drv.BundleConn
