import Hdl21Model.Json
import Hdl21Model.Pdk
import Hdl21Model.Generated.PdkTables
open Lean
namespace Hdl21.Drv.C15
open Hdl21.J Hdl21.Pdk Hdl21.Pdk.Gen

def optStr (j : Json) (k : String) : Option String :=
  match j.getObjVal? k with
  | .ok (.str s) => some s
  | _ => none

def mosJson (e : MosEntry) : Json :=
  Json.mkObj [("key", e.key), ("modname", e.modname), ("ports", Json.arr (e.ports.map Json.str).toArray), ("paramtype", e.paramtype)]
def modelJson (e : ModelEntry) : Json :=
  Json.mkObj [("key", e.key), ("modname", e.modname), ("ports", Json.arr (e.ports.map Json.str).toArray), ("paramtype", e.paramtype)]

def selJson {α} (f : α → Json) : Sel α → Json
  | .found e => Json.mkObj [("found", f e)]
  | .noDevice => Json.mkObj [("no_device", toJson true)]
  | .ambiguous => Json.mkObj [("ambiguous", toJson true)]

def sizeJson (tbl : List SizeEntry) (modname : String) : Json :=
  match sizeOf? tbl modname with
  | some s => Json.arr #[Json.str s.w, Json.str s.l]
  | none => Json.null

def parseTarget (j : Json) : Except String Target := do
  match (← getStr j "k") with
  | "module" => pure (.module (← getNat j "idx"))
  | "prim" => pure (.prim (← getStr j "kind") (← getNat j "params"))
  | "ext" => pure (.ext (← getStr j "name") (← getNat j "params"))
  | k => throw s!"bad target {k}"

def targetJson : Target → Json
  | .module i => Json.mkObj [("k", "module"), ("idx", toJson i)]
  | .prim k p => Json.mkObj [("k", "prim"), ("kind", k), ("params", toJson p)]
  | .ext n p => Json.mkObj [("k", "ext"), ("name", n), ("params", toJson p)]

def parseInst (j : Json) : Except String Inst := do
  let conns ← (← getArr j "conns").toList.mapM fun c => do
    match (← c.getArr?).toList with
    | [p, s] => pure ((← p.getStr?), (← s.getStr?))
    | _ => throw "bad conn"
  pure { name := ← getStr j "n", target := ← parseTarget (← j.getObjVal? "t"), conns := conns }

def parseRegArg (j : Json) : Except String PdkArg := do
  match (← getStr j "k") with
  | "none" => pure .none
  | "name" => pure (.name (← getStr j "s"))
  | "module" => pure (.module (← getStr j "m") (← (← j.getObjVal? "valid").getBool?))
  | k => throw s!"bad pdk arg {k}"

def handle (op : String) (j : Json) : Except String Json := do
  match op with
  | "select_mos" =>
    let pdk ← getStr j "pdk"
    let r : MosReq := { model := optStr j "model", tp := ← getStr j "tp", vth := ← getStr j "vth", fam := ← getStr j "fam" }
    let sel := if pdk == "sky130" then selectMosSky130 sky130Xtors r else selectMosGf180 gf180Xtors r
    let dflt := match sel with
      | .found e => sizeJson (if pdk == "sky130" then sky130DefaultXtor else gf180DefaultXtor) e.modname
      | _ => Json.null
    pure (Json.mkObj [("sel", selJson mosJson sel), ("default_size", dflt)])
  | "select_model" =>
    let pdk ← getStr j "pdk"
    let table ← getStr j "table"
    let tbl := match pdk, table with
      | "sky130", "ress" => sky130Ress | "sky130", "caps" => sky130Caps | "sky130", "diodes" => sky130Diodes | "sky130", "bjts" => sky130Bjts
      | "gf180", "ress" => gf180Ress | "gf180", "caps" => gf180Caps | "gf180", "diodes" => gf180Diodes | "gf180", "bjts" => gf180Bjts
      | _, _ => []
    let sel := selectModel tbl (optStr j "model")
    let dflt := match sel with
      | .found e =>
        match pdk, table with
        | "sky130", "ress" => (match sizeOf? sky130DefaultGenRes e.modname with
            | some s => Json.arr #[Json.str s.w, Json.str s.l]
            | none => match sky130DefaultPrecResL.find? (·.1 == e.modname) with | some p => Json.arr #[Json.null, Json.str p.2] | none => Json.null)
        | "sky130", "caps" => sizeJson sky130DefaultCap e.modname
        | "gf180", "ress" => sizeJson gf180DefaultRes e.modname
        | "gf180", "diodes" => sizeJson gf180DefaultDiode e.modname
        | _, _ => Json.null
      | _ => Json.null
    pure (Json.mkObj [("sel", selJson modelJson sel), ("default_size", dflt)])
  | "compile" =>
    let mods ← (← getArr j "mods").toList.mapM fun m => do
      pure ({ name := ← getStr m "name", insts := ← (← getArr m "insts").toList.mapM parseInst } : Mod)
    let tops ← (← getArr j "tops").toList.mapM fun x => x.getNat?
    let dmList ← (← getArr j "dm").toList.mapM fun e => do
      let kind ← getStr e "kind"
      let params ← getNat e "params"
      let r : Except String Target ← match e.getObjVal? "to" with
        | .ok t => do pure (.ok (← parseTarget t))
        | .error _ => pure (.error ((optStr e "error").getD "error"))
      pure ((kind, params), r)
    let dm : DevMap := fun k p => (dmList.find? (fun e => e.1.1 == k && e.1.2 == p)).map (·.2)
    let reached := reachFrom mods (mods.length * mods.length + mods.length + 1) tops []
    match compile dm (fun k => reached.contains k) mods with
    | .error e => pure (Json.mkObj [("error", e)])
    | .ok d => pure (Json.mkObj [("ok", Json.arr (d.map fun m => Json.mkObj [("name", m.name),
        ("insts", Json.arr (m.insts.map fun i => Json.mkObj [("n", i.name), ("t", targetJson i.target),
          ("conns", Json.arr (i.conns.map fun c => Json.arr #[Json.str c.1, Json.str c.2]).toArray)]).toArray)]).toArray),
        ("reached", Json.arr (reached.map toJson).toArray)])
  | "registry" =>
    let ops ← getArr j "ops"
    let rec go (r : Registry) : List Json → Except String (List Json)
      | [] => pure []
      | o :: rest => do
        match (← getStr o "op") with
        | "register" =>
          let valid ← (← o.getObjVal? "valid").getBool?
          let mname ← getStr o "m"
          let r' := if valid then r.register mname else r
          pure (Json.mkObj [("registered", toJson valid)] :: (← go r' rest))
        | "set_default" =>
          let m ← getStr o "m"
          if m ∈ r.mods then pure (Json.mkObj [("ok", toJson true)] :: (← go { r with dflt := some m } rest))
          else pure (Json.mkObj [("ok", toJson false)] :: (← go r rest))
        | "compile" =>
          let (r', which) := r.resolve (← parseRegArg (← o.getObjVal? "arg"))
          pure (Json.mkObj [("pdk", match which with | some s => Json.str s | none => Json.null)] :: (← go r' rest))
        | k => throw s!"bad registry op {k}"
    let init : Registry := { mods := ← (← getArr j "registered").toList.mapM (fun x => x.getStr?), dflt := optStr j "default" }
    pure (Json.mkObj [("trace", Json.arr (← go init ops.toList).toArray)])
  | _ => throw s!"C15: unknown op {op}"

end Hdl21.Drv.C15
