import Hdl21Model.Json
import Hdl21Model.Names
open Lean
namespace Hdl21.Drv.Names
open Hdl21.J Hdl21.Names

def strs (j : Json) : Except String (List String) := do (← j.getArr?).toList.mapM (·.getStr?)

def handle (op : String) (j : Json) : Except String Json := do
  match op with
  | "invent" =>
    -- {"ns": [names], "batch": [[segments]], "maxlen": n}
    let ns ← strs (← j.getObjVal? "ns")
    let batch ← (← getArr j "batch").toList.mapM strs
    let maxlen ← getNat j "maxlen"
    match inventAll (ns.map String.toList) maxlen (batch.map (·.map String.toList)) with
    | none => pure (Json.mkObj [("fail", true)])
    | some (_, rs) => pure (Json.mkObj [("names", toJson (rs.map String.ofList))])
  | _ => throw s!"Names: unknown op {op}"

end Hdl21.Drv.Names
