import Hdl21Model.Json
import Hdl21Model.ExportOrder
open Lean
namespace Hdl21.Drv.ExportNames
open Hdl21 Hdl21.J Hdl21.ExportOrder

def handle (op : String) (j : Json) : Except String Json := do
  match op with
  | "export" =>
    let names ← (← getArr j "names").toList.mapM (·.getStr?)
    let children ← (← getArr j "children").toList.mapM fun c => do (← c.getArr?).toList.mapM (·.getNat?)
    let tops ← (← getArr j "tops").toList.mapM (·.getNat?)
    let name : Nat → String := fun k => names.getD k ""
    let ch : Nat → List Nat := fun k => children.getD k []
    match exportNamedTops name ch (names.length + 2) tops with
    | none => pure (Json.mkObj [("refused", true)])
    | some s => pure (Json.mkObj [("ok", toJson s.done)])
  | _ => throw s!"ExportNames: unknown op {op}"

end Hdl21.Drv.ExportNames
