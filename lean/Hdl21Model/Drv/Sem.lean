import Hdl21Model.Json
import Hdl21Model.Design
import Hdl21Model.Pkg
import Hdl21Model.Drv.C10
open Lean
namespace Hdl21.Drv.Sem
open Hdl21.J Hdl21.Design Hdl21.Pkg

partial def parseConn (j : Json) : Except String Conn := do
  let k ← getStr j "k"
  match k with
  | "sig" => do .ok (.sig (← getStr j "n"))
  | "slice" => do .ok (.slice (← parseConn (← j.getObjVal? "p")) (← parseIndex (← j.getObjVal? "i")))
  | "concat" => do .ok (.concat (← (← getArr j "ps").toList.mapM parseConn))
  | "pref" => do .ok (.pref (← getStr j "inst") (← getStr j "port"))
  | "noconn" => .ok .noconn
  | "bundle" => do .ok (.bundle (← getStr j "n"))
  | "bref" => do .ok (.bref (← getStr j "root") (← (← getArr j "path").toList.mapM (·.getStr?)))
  | "orphan" => do .ok (.orphan (← getNat j "w"))
  | "anon" => do
    let fs ← (← getArr j "fields").toList.mapM (fun f => do
      let a ← f.getArr?
      pure ((← (a[0]?.getD Json.null).getStr?), (← parseConn (a[1]?.getD Json.null))))
    .ok (.anon fs)
  | _ => .error s!"bad conn kind {k}"

def parsePairs (j : Json) (k : String) : Except String (List (String × String)) := do
  match j.getObjVal? k with
  | .ok (.arr a) => a.toList.mapM (fun e => do
      let x ← e.getArr?
      pure ((← (x[0]?.getD Json.null).getStr?), (← (x[1]?.getD Json.null).getStr?)))
  | _ => .ok []

def parseTarget (j : Json) : Except String Target := do
  let k ← getStr j "k"
  match k with
  | "module" => do .ok (.module (← getStr j "name"))
  | _ => do
    let ports ← (← getArr j "ports").toList.mapM (fun p => do pure ((← getStr p "n"), (← getNat p "w")))
    .ok (.leaf (← getStr j "kind") ports (← parsePairs j "params"))

def parseInst (j : Json) : Except String Inst := do
  let kind ← match j.getObjVal? "array" with
    | .ok n => do pure (InstKind.array (← n.getNat?))
    | .error _ => match j.getObjVal? "pair" with
      | .ok ms => do pure (InstKind.pair (← (← ms.getArr?).toList.mapM (·.getStr?)))
      | .error _ => pure InstKind.single
  let conns ← (← getArr j "conns").toList.mapM (fun c => do
    let a ← c.getArr?
    pure ((← (a[0]?.getD Json.null).getStr?), (← parseConn (a[1]?.getD Json.null))))
  .ok ⟨← getStr j "n", ← parseTarget (← j.getObjVal? "of"), kind, conns⟩

def parseModule (j : Json) : Except String Design.Module := do
  let sigs ← (← getArr j "sigs").toList.mapM (fun s => do
    pure ((← getStr s "n"), (← getNat s "w"), (← getBool s "port")))
  let bundles ← (← getArr j "bundles").toList.mapM (fun b => do
    pure ((← getStr b "n"), (← getStr b "of"), (← getBool b "port")))
  let insts ← (← getArr j "insts").toList.mapM parseInst
  let labelled := (j.getObjVal? "label").isOk
  let label ← getOptStr j "label"
  .ok { name := ← getStr j "name", sigs := sigs, bundles := bundles, insts := insts, label := label, labelled := labelled }

def parseDesign (j : Json) : Except String Design := do
  let bundles ← (← getArr j "bundles").toList.mapM (fun b => do
    pure ((← getStr b "name"), (← Hdl21.Drv.C10.parseTree (← b.getObjVal? "tree"))))
  let modules ← (← getArr j "modules").toList.mapM parseModule
  .ok ⟨bundles, modules⟩

partial def parsePTarget (j : Json) : Except String PTarget := do
  match j.getObjVal? "sig" with
  | .ok s => do .ok (.sig (← s.getStr?))
  | .error _ =>
    match j.getObjVal? "slice" with
    | .ok s => do
      let a ← s.getArr?
      -- a negative bound can never be inside a signal: it is mapped to an index beyond every width
      let nat (j : Json) : Except String Nat := do
        let i ← j.getInt?
        pure (if i < 0 then 1000000007 else i.toNat)
      .ok (.slice (← (a[0]?.getD Json.null).getStr?) (← nat (a[1]?.getD Json.null)) (← nat (a[2]?.getD Json.null)))
    | .error _ => do .ok (.concat (← (← getArr j "concat").toList.mapM parsePTarget))

def parseSigs (j : Json) : Except String (List (String × Nat)) := do
  (← getArr j "signals").toList.mapM (fun s => do pure ((← getStr s "n"), (← getNat s "w")))

def parsePorts (j : Json) : Except String (List (String × String)) := do
  (← getArr j "ports").toList.mapM (fun s => do pure ((← getStr s "n"), (← getStr s "dir")))

def parsePInst (j : Json) : Except String PInst := do
  let r ← j.getObjVal? "ref"
  let ref ← match r.getObjVal? "local" with
    | .ok n => do pure (PRef.loc (← n.getStr?))
    | .error _ => do
      let a ← getArr r "ext"
      pure (PRef.ext (← (a[0]?.getD Json.null).getStr?) (← (a[1]?.getD Json.null).getStr?))
  let conns ← (← getArr j "conns").toList.mapM (fun c => do
    let a ← c.getArr?
    pure ((← (a[0]?.getD Json.null).getStr?), (← parsePTarget (a[1]?.getD Json.null))))
  .ok ⟨← getStr j "n", ref, ← parsePairs j "params", conns⟩

def parsePackage (j : Json) : Except String Package := do
  let modules ← (← getArr j "modules").toList.mapM (fun m => do
    pure (⟨← getStr m "name", ← parseSigs m, ← parsePorts m, ← (← getArr m "instances").toList.mapM parsePInst⟩ : PModule))
  let exts ← (← getArr j "ext_modules").toList.mapM (fun e => do
    pure (⟨← getStr e "domain", ← getStr e "name", ← parseSigs e, ← parsePorts e⟩ : PExt))
  .ok ⟨modules, exts⟩

def partJson (p : List (List String)) : Json :=
  Json.arr (p.map (fun c => Json.arr (c.map Json.str).toArray)).toArray

def devJson (ds : List (String × String × List (String × String))) : Json :=
  Json.arr (ds.map (fun (p, k, ps) => Json.mkObj [("path", p), ("kind", k),
    ("params", Json.arr (ps.map (fun (a, b) => Json.arr #[Json.str a, Json.str b])).toArray)])).toArray

def resJson : Except String (List (List String)) → Json
  | .ok p => Json.mkObj [("ok", partJson p)]
  | .error e => Json.mkObj [("error", e)]

def handle (op : String) (j : Json) : Except String Json := do
  match op with
  | "sem" =>
    let top ← getStr j "top"
    let mut out : List (String × Json) := []
    match j.getObjVal? "design" with
    | .ok dj =>
      let d ← parseDesign dj
      let r := semSrc d top
      let devs := match r with | .ok _ => Design.devices d top [] | .error _ => []
      out := out ++ [("src", resJson r), ("src_devices", devJson devs)]
    | .error _ => pure ()
    match j.getObjVal? "pkg" with
    | .ok pj =>
      let p ← parsePackage pj
      let ptop ← getStr j "pkg_top"
      out := out ++ [("pkg", resJson (semPkg p ptop)), ("pkg_devices", devJson (Pkg.devices p ptop [])),
                     ("wf_problems", toJson (problems p))]
    | .error _ => pure ()
    .ok (Json.mkObj out)
  | _ => .error s!"Sem: unknown op {op}"

end Hdl21.Drv.Sem
