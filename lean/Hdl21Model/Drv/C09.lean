import Hdl21Model.Json
import Hdl21Model.Naming
open Lean
namespace Hdl21.Drv.C09
open Hdl21.J Hdl21.Naming

def parseValue (j : Json) : Except String Value :=
  match j.getObjVal? "str" with
  | .ok v => do .ok (.str (← v.getStr?).toList)
  | .error _ => do .ok (.atom (← getStr j "atom").toList)

def parseCall (j : Json) : Except String Call := do
  .ok ⟨← getNat j "gen", ← getNat j "params"⟩

def callJson (c : Call) : Json := Json.mkObj [("gen", toJson c.gen), ("params", toJson c.params)]

def parseBody (j : Json) : Except String Body := do
  let nested ← (← getArr j "nested").toList.mapM parseCall
  match j.getObjVal? "k" with
  | .ok k => do .ok (.forward nested (← k.getNat?))
  | .error _ => .ok (.fresh nested)

def handle (op : String) (j : Json) : Except String Json := do
  match op with
  | "readable" =>
    let kvs ← (← getArr j "kvs").toList.mapM (fun kv => do
      let a ← kv.getArr?
      let k ← (a[0]?.getD Json.null).getStr?
      let v ← parseValue (a[1]?.getD Json.null)
      pure (k.toList, v))
    .ok (Json.mkObj [("name", String.mk (readable kvs))])
  | "gen_run" =>
    let table ← (← getArr j "prog").toList.mapM (fun e => do
      let c ← parseCall e
      let b ← parseBody (← e.getObjVal? "body")
      pure (c, b))
    let prog : Call → Body := fun c => (lookup c table).getD (.fresh [])
    let calls ← (← getArr j "calls").toList.mapM parseCall
    let rec go (s : St) : List Call → List Json × St
      | [] => ([], s)
      | c :: cs =>
        match run prog 64 s c with
        | none => let (r, s') := go s cs; (Json.null :: r, s')
        | some (s1, m) => let (r, s') := go s1 cs; (toJson m :: r, s')
    let (rets, s) := go St.init calls
    .ok (Json.mkObj [
      ("returns", Json.arr rets.toArray),
      ("runs", Json.arr (s.runs.reverse.map callJson).toArray),
      ("modules", toJson s.next),
      ("named_by", Json.arr ((List.range s.next).map (fun m =>
          match lookup m s.nameOf with | some c => callJson c | none => .null)).toArray),
      ("generated_by", Json.arr ((List.range s.next).map (fun m =>
          match lookup m s.genBy with | some c => callJson c | none => .null)).toArray)])
  | _ => .error s!"C09: unknown op {op}"

end Hdl21.Drv.C09
