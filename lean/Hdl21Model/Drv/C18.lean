import Hdl21Model.Json
import Hdl21Model.Namespace
open Lean
namespace Hdl21.Drv.C18
open Hdl21.J Hdl21.NS

def parseKind : String → Except String Kind
  | "port" => .ok .port | "signal" => .ok .signal | "instance" => .ok .instance
  | "instarray" => .ok .instarray | "instbundle" => .ok .instbundle | "bundle" => .ok .bundle
  | k => .error s!"bad kind {k}"

def kindStr : Kind → String
  | .port => "port" | .signal => "signal" | .instance => "instance"
  | .instarray => "instarray" | .instbundle => "instbundle" | .bundle => "bundle"

def parseVal (objs : Array Obj) (j : Json) : Except String Val :=
  match j with
  | .str "other" => .ok .other
  | _ => do
    let i ← j.getNat?
    match objs[i]? with
    | some o => .ok (.hdl o)
    | none => .error "bad object index"

def parseOp (objs : Array Obj) (j : Json) : Except String Op := do
  let op ← getStr j "op"
  match op with
  | "setattr" => do .ok (.setattr (← getStr j "key") (← parseVal objs (← j.getObjVal? "v")))
  | "add" => do .ok (.add (← parseVal objs (← j.getObjVal? "v")) (← getOptStr j "name"))
  | "get" => do .ok (.get (← getStr j "name"))
  | "getattr" => do .ok (.getattr (← getStr j "name"))
  | "delattr" => do .ok (.delattr (← getStr j "name"))
  | "elaborate" => .ok .elaborate
  | "steal" => do .ok (.steal (← parseVal objs (← j.getObjVal? "v")) (← getStr j "key"))
  | _ => .error s!"bad op {op}"

def optObj : Option Obj → Json
  | some o => toJson o.id
  | none => .null

def outJson : Out → Json
  | .ok => "ok" | .native => "native" | .reject => "reject"
  | .value o => Json.mkObj [("value", optObj o)]

def snap (names : List String) (kinds : List Kind) (objs : Array Obj) (s : State) : Json :=
  Json.mkObj [
    ("ns", Json.mkObj (names.map fun n => (n, optObj (s.ns n)))),
    ("views", Json.mkObj (kinds.map fun k => (kindStr k,
        Json.mkObj (names.map fun n => (n, optObj (s.view k n)))))),
    ("names", Json.arr (objs.map fun o => match s.nameOf o.id with | some n => Json.str n | none => .null)),
    ("parented", Json.arr (objs.map fun o => toJson (s.parented o.id))),
    ("frozen", toJson s.frozen)]

def handle (op : String) (j : Json) : Except String Json := do
  match op with
  | "ns_run" =>
    let cfgName ← getStr j "cfg"
    let cfg0 := if cfgName = "bundle" then bundleCfg else moduleCfg
    let names ← (← getArr j "names").toList.mapM (fun x => x.getStr?)
    let objsJ ← getArr j "objs"
    let objs ← objsJ.mapIdxM (fun i o => do
      let k ← parseKind (← getStr o "kind")
      pure (⟨i, k⟩ : Obj))
    let presetNames ← objsJ.mapM (fun o => getOptStr o "name")
    -- `revis`: the visibility of a held Signal is edited on the object (signal <-> port). The namespace machine has no such operation and
    -- needs none: from then on the very same identity is presented to it with its other kind (an `Obj` is identity + kind *as filed*;
    -- the theorems quantify over all operation sequences, these included). The edit itself is a step that changes nothing.
    let flip (o : Obj) : Obj := match o.kind with | .signal => ⟨o.id, .port⟩ | .port => ⟨o.id, .signal⟩ | _ => o
    let rec parseOps (objs : Array Obj) : List Json → Except String (List Op)
      | [] => pure []
      | oj :: rest => do
        match oj.getObjValAs? String "op" with
        | .ok "revis" =>
          let i ← getNat oj "v"
          let objs' := match objs[i]? with | some o => objs.set! i (flip o) | none => objs
          let r ← parseOps objs' rest
          pure (Op.get "" :: r)
        | _ =>
          let o ← parseOp objs oj
          let r ← parseOps objs rest
          pure (o :: r)
    let ops ← parseOps objs (← getArr j "ops").toList
    -- the private names: every name of the case that starts with an underscore
    let cfg : Cfg := { cfg0 with priv := (names ++ ops.flatMap Op.names).filter (fun n => n.startsWith "_") }
    let init := State.init (fun i => (presetNames[i]?).join)
    let rec go (s : State) : List Op → List Json
      | [] => []
      | o :: os =>
        let r := step cfg names s o
        Json.mkObj [("out", outJson r.2), ("state", snap names cfg.kinds objs r.1)] :: go r.1 os
    .ok (Json.mkObj [("trace", Json.arr (go init ops).toArray)])
  | _ => .error s!"C18: unknown op {op}"

end Hdl21.Drv.C18
