import Hdl21Model.Json
open Lean
namespace Hdl21.Drv.C03
open Hdl21.J

/-- Fuel handed to the resolver: exactly `needR c`, which `Props.C03.resolve_total` proves sufficient for everything that has a
    denotation (were it not, the model would refuse where the implementation accepts — compared on every run). -/
def fuelFor (c : SConn) : Nat := needR c

def handle (op : String) (j : Json) : Except String Json := do
  match op with
  | "slice_inner" =>
    let w ← getNat j "w"
    let idx ← parseIndex (← j.getObjVal? "idx")
    let model := sliceInner w idx
    let py : Json := match idx with
      | .int i => (match pyIndex w i with | some k => intsJson [k] | none => .null)
      | .range a b st => (match pyBits w a b st with | some ks => intsJson ks | none => .null)
    .ok (Json.mkObj [("model", exceptJson innerJson model), ("py", py)])
  | "resolve" =>
    let c ← parseSConn (← j.getObjVal? "conn")
    let w := c.width
    let d := c.denote
    let r := resolveSliceable (fuelFor c) c
    let rd : Except Err (List Bit) := do let r ← r; r.denote
    let ex : Json := match r with | .ok r => toJson r.exportable | .error _ => .null
    .ok (Json.mkObj [("width", exceptJson (fun (n : Nat) => toJson n) w),
                     ("denote", exceptJson bitsJson d),
                     ("resolved", exceptJson sconnJson r),
                     ("resolved_denote", exceptJson bitsJson rd),
                     ("exportable", ex)])
  | _ => .error s!"C03: unknown op {op}"

end Hdl21.Drv.C03
