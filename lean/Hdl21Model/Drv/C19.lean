import Hdl21Model.Json
import Hdl21Model.Builtin
open Lean
namespace Hdl21.Drv.C19
open Hdl21.J Hdl21.Builtin

def netJson : Net String → Json
  | .port p => Json.mkObj [("port", p)]
  | .chain j => Json.mkObj [("chain", toJson j)]

def optNat (j : Json) (k : String) : Option Nat :=
  match j.getObjVal? k with
  | .ok v => match v.getNat? with | .ok n => some n | .error _ => none
  | .error _ => none

def handle (op : String) (j : Json) : Except String Json := do
  match op with
  | "series" =>
    let n ← getNat j "n"
    let first ← getStr j "first"
    let second ← getStr j "second"
    let ports ← (← getArr j "ports").toList.mapM (fun x => x.getStr?)
    let acc := seriesAccepts n (optNat j "wfirst") (optNat j "wsecond")
    let units := (List.range n).map fun k =>
      Json.arr (ports.map fun p => Json.arr #[Json.str p,
        match seriesNet n first second k p with | some net => netJson net | none => Json.null]).toArray
    pure (Json.mkObj [("accept", toJson acc), ("units", Json.arr units.toArray),
                      ("beyond", match seriesNet n first second n first with | some _ => toJson true | none => toJson false)])
  | "wrapper" =>
    let ports ← (← getArr j "ports").toList.mapM (fun x => x.getStr?)
    pure (Json.mkObj [("inner", Json.arr (ports.map fun p => Json.arr #[Json.str p, netJson (wrapperNet p)]).toArray)])
  | _ => throw s!"C19: unknown op {op}"

end Hdl21.Drv.C19
