import Hdl21Model.Json
import Hdl21Model.Orphanage
open Lean
namespace Hdl21.Drv.Orphanage
open Hdl21 Hdl21.J Hdl21.Orphanage

def owner (j : Json) (k : String) : Except String Owner := do
  match (← getOptInt j k) with
  | none => pure none
  | some i => pure (some i.toNat)

partial def parseOConn (j : Json) : Except String OConn := do
  match (← getStr j "k") with
  | "sig" => pure (.sig (← getStr j "n") (← getNat j "w") (← owner j "o"))
  | "bundle" => pure (.bundle (← getStr j "n") (← owner j "o"))
  | "slice" => pure (.slice (← parseOConn (← j.getObjVal? "p")) (← parseIndex (← j.getObjVal? "i")))
  | "concat" => pure (.concat (← (← getArr j "ps").toList.mapM parseOConn))
  | "noconn" => pure .noconn
  | "pref" => pure (.pref (← owner j "o") (← getStr j "port"))
  | "bref" => pure (.bref (← owner j "o") (← (← getArr j "path").toList.mapM (fun x => x.getStr?)))
  | "anon" =>
    let fs ← (← getArr j "fields").toList.mapM fun e => do
      let a ← e.getArr?
      pure ((← (a[0]?.getD Json.null).getStr?), (← parseOConn (a[1]?.getD Json.null)))
    pure (.anon fs)
  | k => throw s!"bad owned connectable {k}"

def handle (op : String) (j : Json) : Except String Json := do
  match op with
  | "check" =>
    let me ← getNat j "me"
    let attrs ← (← getArr j "attrs").toList.mapM fun a => do
      pure (⟨← getStr a "key", ← getStr a "name", ← owner a "o"⟩ : Attr)
    let conns ← (← getArr j "conns").toList.mapM parseOConn
    pure (Json.mkObj [("passes", Orphanage.passes me ⟨attrs, conns⟩),
      ("conns", Json.arr (conns.map fun c => toJson (checkConn me c)).toArray),
      ("owners_all_mine", Json.arr (conns.map fun c => toJson ((owners c).all (· == some me))).toArray)])
  | _ => throw s!"Orphanage: unknown op {op}"

end Hdl21.Drv.Orphanage
