import Hdl21Model.Json
import Hdl21Model.GenRun
open Lean
namespace Hdl21.Drv.GenRun
open Hdl21.J Hdl21.GenRun

partial def parseEv (e : Json) : Except String Ev := do
  let c ← getNat e "c"
  let out ← match e.getObjVal? "ok" with
    | .ok m => do pure (Outcome.ok (← m.getNat?))
    | .error _ => pure Outcome.raises
  let catches := match e.getObjVal? "catches" with | .ok (.bool b) => b | _ => false
  let nested ← match e.getObjVal? "nested" with
    | .ok (.arr a) => a.toList.mapM parseEv
    | _ => pure []
  pure (.call c nested catches out)

def resJson : Result → Json
  | .module m => Json.mkObj [("module", toJson m)]
  | .circular => "circular"
  | .failed => "failed"

def handle (op : String) (j : Json) : Except String Json := do
  match op with
  | "genrun2" =>
    let evs ← (← getArr j "calls").toList.mapM parseEv
    let rec go2 (s : Cache) : List Ev → List Json
      | [] => []
      | e :: r =>
        let (s', res) := runEv s e
        Json.mkObj [("result", resJson res),
          ("done", Json.arr (s'.done.map fun (k, v) => Json.arr #[toJson k, toJson v]).toArray),
          ("pending", toJson s'.pending.length), ("stack", toJson s'.stack.length)] :: go2 s' r
    pure (Json.mkObj [("trace", Json.arr (go2 Cache.init evs).toArray)])
  | "genrun" =>
    let calls ← (← getArr j "calls").toList.mapM fun e => do
      let c ← getNat e "c"
      let o ← match e.getObjVal? "ok" with
        | .ok m => do pure (Outcome.ok (← m.getNat?))
        | .error _ => pure Outcome.raises
      pure (c, o)
    let rec go (s : Cache) : List (Call × Outcome) → List Json
      | [] => []
      | (c, o) :: r =>
        let (s', res) := run s c o
        Json.mkObj [("result", match res with
            | .module m => Json.mkObj [("module", toJson m)]
            | .circular => "circular"
            | .failed => "failed"),
          ("done", Json.arr (s'.done.map fun (k, v) => Json.arr #[toJson k, toJson v]).toArray),
          ("pending", toJson s'.pending.length), ("stack", toJson s'.stack.length)] :: go s' r
    pure (Json.mkObj [("trace", Json.arr (go Cache.init calls).toArray)])
  | _ => throw s!"GenRun: unknown op {op}"

end Hdl21.Drv.GenRun
