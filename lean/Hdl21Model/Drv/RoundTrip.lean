import Hdl21Model.Json
import Hdl21Model.RoundTrip
import Hdl21Model.Drv.Sem
open Lean
namespace Hdl21.Drv.RoundTrip
open Hdl21 Hdl21.J Hdl21.Pkg Hdl21.RoundTrip

mutual
partial def showConn : SConn → String
  | .sig n _ => n
  | .slice p (.range (some a) (some b) none) => s!"{showConn p}[{a}:{b}]"
  | .slice p _ => s!"{showConn p}[?]"
  | .concat ps => "{" ++ String.intercalate "," (ps.map showConn) ++ "}"
end

def modJson (m : HModule) : Json :=
  Json.mkObj [("name", m.name),
    ("signals", Json.arr (m.signals.map fun s => Json.arr #[Json.str s.name, toJson s.width]).toArray),
    ("ports", Json.arr (m.ports.map fun s => Json.arr #[Json.str s.name, toJson s.width, Json.str (s.dir.getD "?")]).toArray),
    ("instances", Json.arr (m.instances.map fun i => Json.mkObj [("n", i.name),
      ("conns", Json.arr (i.conns.map fun (p, c) => Json.arr #[Json.str p, Json.str (showConn c)]).toArray)]).toArray)]

def handle (op : String) (j : Json) : Except String Json := do
  match op with
  | "package" =>
    let p0 ← Hdl21.Drv.Sem.parsePackage (← j.getObjVal? "pkg")
    -- which layout the exporter at hand writes (read off a probe module by the harness): ports' signals first, or last
    let pf := match j.getObjVal? "ports_first" with | .ok (.bool b) => b | _ => false
    -- harness/observe.py writes the direction names in lower case
    let p : Package := { p0 with modules := p0.modules.map fun m => { m with ports := m.ports.map fun (n, d) => (n, d.toUpper) } }
    let rec go (earlier : List PModule) : List PModule → List Json
      | [] => []
      | m :: rest =>
        let ctx : PRef → Option (List String) := fun r => (targetPorts p earlier r).map (·.map (·.1))
        let shape := if pf then ShapePF ctx m else Shape ctx m
        let imp := match importModule ctx m with
          | .ok h => Json.mkObj [("ok", modJson h), ("export_back", match (if pf then exportModulePF h else exportModule h) with
              | .ok q => Json.bool (q.signals == m.signals && q.ports == m.ports && q.instances.length == m.instances.length)
              | .error _ => Json.str "error")]
          | .error e => Json.mkObj [("error", e)]
        Json.mkObj [("module", m.name), ("shape", shape), ("import", imp)] :: go (earlier ++ [m]) rest
    pure (Json.mkObj [("modules", Json.arr (go [] p.modules).toArray)])
  | _ => throw s!"RoundTrip: unknown op {op}"

end Hdl21.Drv.RoundTrip
