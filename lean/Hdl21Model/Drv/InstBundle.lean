import Hdl21Model.Json
import Hdl21Model.InstBundle
open Lean
namespace Hdl21.Drv.InstBundle
open Hdl21 Hdl21.J Hdl21.InstBundle

def parseIB (j : Json) : Except String IBConn := do
  match ← getStr j "k" with
  | "bundle" => pure (.bundle (← getStr j "ty") (← getStr j "n"))
  | "anon" =>
    let fs ← (← getArr j "fields").toList.mapM fun f => do
      let a ← f.getArr?
      pure ((← (a[0]?.getD Json.null).getStr?), (← parseSConn (a[1]?.getD Json.null)))
    pure (.anon fs)
  | "scalar" => pure (.scalar (← parseSConn (← j.getObjVal? "c")))
  | "noconn" => pure .noconn
  | k => throw s!"bad ibconn {k}"

def elemJson : ElemConn → Json
  | .member b m => Json.mkObj [("member", Json.arr #[Json.str b, Json.str m])]
  | .conn c => Json.mkObj [("conn", sconnJson c)]
  | .noconn => Json.str "noconn"

def handle (op : String) (j : Json) : Except String Json := do
  match op with
  | "expand" =>
    let ms ← (← getArr j "members").toList.mapM (·.getStr?)
    let conns ← (← getArr j "conns").toList.mapM fun e => do
      let a ← e.getArr?
      pure ((← (a[0]?.getD Json.null).getStr?), (← parseIB (a[1]?.getD Json.null)))
    let nested := match j.getObjVal? "nested" with | .ok (.bool b) => b | _ => false
    match expand (← getStr j "ty") nested ms conns with
    | .error e => pure (Json.mkObj [("error", e)])
    | .ok r => pure (Json.mkObj [("ok", Json.arr (r.map fun (m, es) => Json.arr #[Json.str m,
        Json.arr (es.map fun (p, e) => Json.arr #[Json.str p, elemJson e]).toArray]).toArray)])
  | _ => throw s!"InstBundle: unknown op {op}"

end Hdl21.Drv.InstBundle
