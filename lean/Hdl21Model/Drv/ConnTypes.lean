import Hdl21Model.Json
import Hdl21Model.ConnTypes
open Lean
namespace Hdl21.Drv.ConnTypes
open Hdl21 Hdl21.J Hdl21.ConnTypes

def handle (op : String) (j : Json) : Except String Json := do
  match op with
  | "check" =>
    let io ← (← getArr j "io").toList.mapM fun e => do
      let a ← e.getArr?
      pure ((← (a[0]?.getD Json.null).getStr?), (← (a[1]?.getD Json.null).getNat?))
    let conns ← (← getArr j "conns").toList.mapM fun e => do
      let a ← e.getArr?
      pure ((← (a[0]?.getD Json.null).getStr?), (← parseSConn (a[1]?.getD Json.null)))
    let name : Status → String
      | .valid => "valid" | .unconnected => "unconnected" | .noPort => "noport" | .invalidType => "invalid"
    pure (Json.mkObj [("passes", passes io conns),
      ("statuses", Json.arr ((checkPorts io conns).map fun s => Json.arr #[Json.str s.1, Json.str (name s.2)]).toArray)])
  | _ => throw s!"ConnTypes: unknown op {op}"

end Hdl21.Drv.ConnTypes
