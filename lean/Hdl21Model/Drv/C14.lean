import Hdl21Model.Json
import Hdl21Model.Prefix
open Lean
namespace Hdl21.Drv.C14
open Hdl21.J

def getBig (j : Json) (k : String) : Except String Int := do
  let s ← getStr j k
  match s.toInt? with
  | some i => .ok i
  | none => .error s!"bad integer {s}"

def parseP (j : Json) : Except String Prefixed := do
  let c ← getBig j "c"
  let e ← getInt j "e"
  let p ← getInt j "p"
  .ok ⟨⟨c, e⟩, p⟩

def pJson (p : Prefixed) : Json :=
  Json.mkObj [("c", toString p.number.c), ("e", toJson p.number.e), ("p", toJson p.pre)]

def handle (op : String) (j : Json) : Except String Json := do
  match op with
  | "pair" =>
    let a ← parseP (← j.getObjVal? "a")
    let b ← parseP (← j.getObjVal? "b")
    .ok (Json.mkObj [
      ("add", pJson (a.add b)), ("sub", pJson (a.sub b)), ("mul", pJson (a.mul b)),
      ("neg", pJson a.neg), ("abs", pJson a.abs), ("scale", pJson (a.scale b.pre)),
      ("scale_auto", pJson a.scaleAuto),
      ("lt", a.lt b), ("le", a.le b), ("eq", a.eq b), ("ne", a.ne b), ("gt", a.gt b), ("ge", a.ge b),
      ("hash_a", toString a.hash), ("hash_b", toString b.hash),
      ("int_a", toString a.toInt)])
  | _ => .error s!"C14: unknown op {op}"

end Hdl21.Drv.C14
