import Hdl21Model.Json
import Hdl21Model.InstOps
open Lean
namespace Hdl21.Drv.C04
open Hdl21.J Hdl21.InstOps

def parsePort (j : Json) : Except String Port := do
  let a ← j.getArr?
  match a.toList with
  | [i, p] => do .ok ((← i.getNat?), (← p.getNat?))
  | _ => .error "bad port"

def parseConn (j : Json) : Except String Conn := do
  match j.getObjVal? "pref" with
  | .ok p => do .ok (.pref (← parsePort p))
  | .error _ => do .ok (.obj (← getNat j "obj"))

def parseOp (j : Json) : Except String Op := do
  let op ← getStr j "k"
  match op with
  | "connect" => do .ok (.connect (← parsePort (← j.getObjVal? "p")) (← parseConn (← j.getObjVal? "c")))
  | "replace" => do .ok (.replace (← parsePort (← j.getObjVal? "p")) (← parseConn (← j.getObjVal? "c")))
  | "disconnect" => do .ok (.disconnect (← parsePort (← j.getObjVal? "p")))
  | "getref" => do .ok (.getref (← parsePort (← j.getObjVal? "p")))
  | _ => .error s!"bad op {op}"

def portJson (p : Port) : Json := Json.arr #[toJson p.1, toJson p.2]
def connJson : Conn → Json
  | .pref p => Json.mkObj [("pref", portJson p)]
  | .obj n => Json.mkObj [("obj", toJson n)]

/-- insertion sort on ports, for canonical output of sets -/
def portLe (a b : Port) : Bool := a.1 < b.1 || (a.1 == b.1 && a.2 ≤ b.2)
def sortPorts (l : List Port) : List Port := l.mergeSort portLe

def snap (watch : List Conn) (s : State) : Json :=
  Json.mkObj [
    ("conns", Json.arr (s.conns.map fun (p, c) => Json.arr #[portJson p, connJson c]).toArray),
    ("back", Json.arr (watch.map fun c => Json.arr ((sortPorts (s.back c)).map portJson).toArray).toArray),
    ("prefs", Json.arr ((sortPorts s.prefs).map portJson).toArray),
    ("crefs", Json.arr ((sortPorts s.crefs).map portJson).toArray),
    ("all", Json.arr ((sortPorts s.all).map portJson).toArray)]

def handle (op : String) (j : Json) : Except String Json := do
  match op with
  | "run" =>
    -- `watch`: the connectables whose back-reference sets are reported after every operation
    let watch ← (← getArr j "watch").toList.mapM parseConn
    let ops ← (← getArr j "ops").toList.mapM parseOp
    let rec go (s : State) : List Op → List Json
      | [] => []
      | o :: os =>
        let r := step s o
        Json.mkObj [("ok", toJson r.2), ("raises", toJson (removeWouldRaise s o)), ("state", snap watch r.1)] :: go r.1 os
    .ok (Json.mkObj [("trace", Json.arr (go init ops).toArray)])
  | _ => .error s!"C04: unknown op {op}"

end Hdl21.Drv.C04
