import Hdl21Model.Json
import Hdl21Model.Bundles
open Lean
namespace Hdl21.Drv.C10
open Hdl21.J Hdl21.Bundles

def parseDir : String → Except String Dir
  | "input" => .ok .input | "output" => .ok .output | "inout" => .ok .inout | "none" => .ok .none
  | d => .error s!"bad dir {d}"

def dirStr : Dir → String
  | .input => "input" | .output => "output" | .inout => "inout" | .none => "none"

def parseLeaf (j : Json) : Except String Leaf := do
  .ok ⟨← getStr j "n", ← getNat j "w", ← getBool j "port", ← parseDir (← getStr j "dir"),
       ← getOptStr j "src", ← getOptStr j "dest"⟩

partial def parseTree (j : Json) : Except String BTree := do
  let sigs ← (← getArr j "sigs").toList.mapM parseLeaf
  let subs ← (← getArr j "subs").toList.mapM (fun s => do
    let t ← parseTree (← s.getObjVal? "of")
    pure (← getStr s "n", ← getBool s "flip", ← getOptStr s "role", t))
  .ok (.node sigs subs)

def flatJson (inst : String) (f : Flat) : Json :=
  Json.mkObj [("name", flatName inst f.path), ("path", toJson f.path), ("width", toJson f.width),
              ("port", toJson f.isPort), ("dir", dirStr f.dir)]

def handle (op : String) (j : Json) : Except String Json := do
  match op with
  | "flatten" =>
    let t ← parseTree (← j.getObjVal? "tree")
    let flip ← getBool j "flip"
    let role ← getOptStr j "role"
    let portSide := flatten true flip role t
    let internal := flatten false false none t
    let conns := connectByPath "p" "b" internal portSide
    -- the documented rule, evaluated per leaf path (independent of the regenerated flip table)
    let spec := portSide.map (fun f => match leafAt flip role t f.path with
      | some (l, par, r) => flatJson "p" ⟨f.path, l.width, true, dirRule l par r⟩
      | none => Json.null)
    .ok (Json.mkObj [
      ("spec_ports", Json.arr spec.toArray),
      ("ports", Json.arr (portSide.map (flatJson "p")).toArray),
      ("internal", Json.arr (internal.map (flatJson "q")).toArray),
      ("conns", match conns with
        | some cs => Json.arr (cs.map (fun (a, b) => Json.arr #[Json.str a, Json.str b])).toArray
        | none => .null),
      ("leaves", toJson (leafCount t))])
  | _ => .error s!"C10: unknown op {op}"

end Hdl21.Drv.C10
