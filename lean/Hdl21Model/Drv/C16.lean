import Hdl21Model.Json
import Hdl21Model.Flatten
open Lean
namespace Hdl21.Drv.C16
open Hdl21.J Hdl21.Flatten

def nm (s : String) : Hdl21.Flatten.Name := s.toList
def str (n : Hdl21.Flatten.Name) : String := String.ofList n

def parseInst (j : Json) : Except String FInst := do
  let name ← getStr j "n"
  let target ← match j.getObjVal? "leaf" with
    | .ok k => do pure (Target.leaf (← k.getStr?))
    | .error _ => do pure (Target.mod (← getNat j "mod"))
  let conns ← (← getArr j "conns").toList.mapM fun c => do
    let a ← c.getArr?
    match a.toList with
    | [p, s] => do pure (nm (← p.getStr?), nm (← s.getStr?))
    | _ => throw "bad conn"
  pure { name := nm name, target := target, conns := conns }

def parseMod (j : Json) : Except String FMod := do
  let strs (k : String) : Except String (List Hdl21.Flatten.Name) := do
    (← getArr j k).toList.mapM fun x => do pure (nm (← x.getStr?))
  pure { name := nm (← getStr j "name"), ports := ← strs "ports", signals := ← strs "signals",
         insts := ← (← getArr j "insts").toList.mapM parseInst }

def handle (op : String) (j : Json) : Except String Json := do
  match op with
  | "flatten" =>
    let mods ← (← getArr j "mods").mapM parseMod
    let topIdx ← getNat j "top"
    match mods[topIdx]? with
    | none => throw "bad top"
    | some top =>
      if isFlat top then pure (Json.mkObj [("flat_already", toJson true)]) else
      match flatten (fun k => mods[k]?) (mods.size + 1) top with
      | .error .collision => pure (Json.mkObj [("error", "collision")])
      | .error .walkFailed => pure (Json.mkObj [("error", "walk")])
      | .ok F => pure (Json.mkObj [("ok", Json.mkObj [
          ("name", str F.name), ("ports", Json.arr (F.ports.map (fun p => Json.str (str p))).toArray),
          ("signals", Json.arr (F.signals.map (fun p => Json.str (str p))).toArray),
          ("insts", Json.arr (F.insts.map fun i => Json.mkObj [("n", str i.name), ("kind", i.kind),
              ("conns", Json.arr (i.conns.map fun c => Json.arr #[Json.str (str c.1), Json.str (str c.2)]).toArray)]).toArray),
          ("leaves", toJson (leafCount (fun k => mods[k]?) (mods.size + 1) top))])])
  | _ => throw s!"C16: unknown op {op}"

end Hdl21.Drv.C16
