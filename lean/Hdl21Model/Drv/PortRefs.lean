import Hdl21Model.Json
import Hdl21Model.PortRefs
open Lean
namespace Hdl21.Drv.PortRefs
open Hdl21.J Hdl21.PortRefs

def parsePort (j : Json) : Except String Port := do
  match (← j.getArr?).toList with
  | [a, b] => pure ((← a.getNat?), (← b.getNat?))
  | _ => throw "bad port"

def parseConn (j : Json) : Except String Conn := do
  match j.getObjVal? "sig" with
  | .ok s => pure (.sig (← s.getNat?))
  | .error _ =>
    match j.getObjVal? "pref" with
    | .ok q => pure (.pref (← parsePort q))
    | .error _ => pure (.nc (← getNat j "nc"))

def handle (op : String) (j : Json) : Except String Json := do
  match op with
  | "portrefs" =>
    let ports ← (← getArr j "ports").toList.mapM parsePort
    let conns ← (← getArr j "conns").toList.mapM fun e => do
      match (← e.getArr?).toList with
      | [p, c] => pure ((← parsePort p), (← parseConn c))
      | _ => throw "bad conn"
    let m : Mod := { ports := ports, conns := conns, nsig := ← getNat j "nsig" }
    pure (Json.mkObj [("res", Json.arr (ports.map fun p => match resolvePort m p with | some v => toJson v | none => Json.null).toArray)])
  | "rename" =>
    -- {"conn": sconn with references as pseudo-signals, "rho": [[from, to]]}
    let c ← parseSConn (← j.getObjVal? "conn")
    let rho ← (← getArr j "rho").toList.mapM fun e => do
      match (← e.getArr?).toList with
      | [a, b] => pure ((← a.getStr?), (← b.getStr?))
      | _ => throw "bad rho"
    let ρ : String → String := fun n => match rho.find? (·.1 == n) with | some p => p.2 | none => n
    pure (Json.mkObj [("bits", exceptJson bitsJson (c.rename ρ).denote)])
  | _ => throw s!"PortRefs: unknown op {op}"

end Hdl21.Drv.PortRefs
