import Hdl21Model.Json
import Hdl21Model.ExtDecl
open Lean
namespace Hdl21.Drv.ExtDecl
open Hdl21 Hdl21.J Hdl21.ExtDecl

def parseDecl (j : Json) : Except String Decl := do
  let sigs ← (← getArr j "signals").toList.mapM fun s => do
    let a ← s.getArr?
    pure ((← (a[0]?.getD Json.null).getStr?), (← (a[1]?.getD Json.null).getNat?))
  let ports ← (← getArr j "ports").toList.mapM fun s => do
    let a ← s.getArr?
    pure ((← (a[0]?.getD Json.null).getStr?), (← (a[1]?.getD Json.null).getStr?))
  pure ⟨← getStr j "domain", ← getStr j "name", ← getStr j "spicetype", sigs, ports⟩

def declJson (d : Decl) : Json :=
  Json.mkObj [("domain", d.domain), ("name", d.name), ("spicetype", d.spicetype),
    ("signals", Json.arr (d.signals.map fun s => Json.arr #[Json.str s.1, toJson s.2]).toArray),
    ("ports", Json.arr (d.ports.map fun s => Json.arr #[Json.str s.1, Json.str s.2]).toArray)]

def handle (op : String) (j : Json) : Except String Json := do
  match op with
  | "declare_all" =>
    let ds ← (← getArr j "decls").toList.mapM parseDecl
    match declareAll [] ds with
    | none => pure (Json.mkObj [("refused", true)])
    | some pkg => pure (Json.mkObj [("package", Json.arr (pkg.map declJson).toArray)])
  | _ => throw s!"ExtDecl: unknown op {op}"

end Hdl21.Drv.ExtDecl
