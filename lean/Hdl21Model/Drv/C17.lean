import Hdl21Model.Json
import Hdl21Model.SimExport
open Lean
namespace Hdl21.Drv.C17
open Hdl21.J Hdl21.SimExport

def optStr (j : Json) (k : String) : Option String :=
  match j.getObjVal? k with
  | .ok (.str s) => some s
  | _ => none

def strList (j : Json) (k : String) : Except String (List String) := do
  (← getArr j k).toList.mapM fun x => x.getStr?

def parseSweep (j : Json) : Except String Sweep := do
  match (← getStr j "k") with
  | "linear" => pure (.linear (← getStr j "start") (← getStr j "stop") (← getStr j "step"))
  | "log" => pure (.log (← getStr j "start") (← getStr j "stop") (← getNat j "npts"))
  | "points" => pure (.points (← strList j "pts"))
  | k => throw s!"bad sweep {k}"

partial def parseAn (j : Json) : Except String An := do
  let name := optStr j "name"
  match (← getStr j "k") with
  | "op" => pure (.op name)
  | "dc" => pure (.dc name (← getStr j "var") (← parseSweep (← j.getObjVal? "sweep")))
  | "ac" => pure (.ac name (← getStr j "start") (← getStr j "stop") (← getNat j "npts"))
  | "tran" => pure (.tran name (← getStr j "tstop") (optStr j "tstep"))
  | "noise" => pure (.noise name (← getStr j "outp") (← getStr j "outn") (← getStr j "src") (← getStr j "start") (← getStr j "stop") (← getNat j "npts"))
  | "custom" => pure (.custom name (← getStr j "cmd"))
  | "sweep" => do
    let inner ← (← getArr j "inner").toList.mapM parseAn
    pure (.sweep name (← getStr j "var") (← parseSweep (← j.getObjVal? "sweep")) inner)
  | "monte" => do
    let inner ← (← getArr j "inner").toList.mapM parseAn
    pure (.monte name (← getNat j "npts") inner)
  | k => throw s!"bad analysis {k}"

def parseSave (j : Json) : Except String SaveTarget := do
  match (← getStr j "k") with
  | "all" => pure .modeAll
  | "none" => pure .modeNone
  | "signal" => pure (.signal (← getStr j "v"))
  | "name" => pure (.name (← getStr j "v"))
  | "signals" => pure (.signals (← strList j "v"))
  | "names" => pure (.names (← strList j "v"))
  | k => throw s!"bad save target {k}"

def parseCtrl (j : Json) : Except String (Ctrl SaveTarget) := do
  match (← getStr j "k") with
  | "include" => pure (.include (← getStr j "path"))
  | "lib" => pure (.lib (← getStr j "path") (← getStr j "section"))
  | "save" => pure (.save (← parseSave (← j.getObjVal? "t")))
  | "meas" => pure (.meas (← getStr j "an") (← getStr j "name") (← getStr j "expr"))
  | "param" => pure (.param (← getStr j "name") (← getStr j "val"))
  | "literal" => pure (.literal (← getStr j "text"))
  | k => throw s!"bad control {k}"

def parseAttr (j : Json) : Except String Attr := do
  match (← getStr j "t") with
  | "an" => pure (.an (← parseAn (← j.getObjVal? "a")))
  | "ctrl" => pure (.ctrl (← parseCtrl (← j.getObjVal? "c")))
  | "opt" => pure (.opt (← getStr j "name") (← getStr j "value"))
  | k => throw s!"bad attr {k}"

def sweepJson : Sweep → Json
  | .linear a b c => Json.mkObj [("k", "linear"), ("start", a), ("stop", b), ("step", c)]
  | .log a b n => Json.mkObj [("k", "log"), ("start", a), ("stop", b), ("npts", toJson n)]
  | .points l => Json.mkObj [("k", "points"), ("pts", Json.arr (l.map Json.str).toArray)]

def nameJson : Option String → Json
  | some s => Json.str s
  | none => Json.null

partial def anJson : An → Json
  | .op n => Json.mkObj [("k", "op"), ("name", nameJson n)]
  | .dc n v sw => Json.mkObj [("k", "dc"), ("name", nameJson n), ("var", v), ("sweep", sweepJson sw)]
  | .ac n a b c => Json.mkObj [("k", "ac"), ("name", nameJson n), ("start", a), ("stop", b), ("npts", toJson c)]
  | .tran n a b => Json.mkObj [("k", "tran"), ("name", nameJson n), ("tstop", a), ("tstep", nameJson b)]
  | .noise n a b c d e f => Json.mkObj [("k", "noise"), ("name", nameJson n), ("outp", a), ("outn", b), ("src", c), ("start", d), ("stop", e), ("npts", toJson f)]
  | .custom n c => Json.mkObj [("k", "custom"), ("name", nameJson n), ("cmd", c)]
  | .sweep n v sw inner => Json.mkObj [("k", "sweep"), ("name", nameJson n), ("var", v), ("sweep", sweepJson sw), ("inner", Json.arr (inner.map anJson).toArray)]
  | .monte n npts inner => Json.mkObj [("k", "monte"), ("name", nameJson n), ("npts", toJson npts), ("inner", Json.arr (inner.map anJson).toArray)]

def saveOutJson : SaveOut → Json
  | .mode all => Json.mkObj [("mode", if all then "ALL" else "NONE")]
  | .signal s => Json.mkObj [("signal", s)]

def ctrlJson : Ctrl SaveOut → Json
  | .include p => Json.mkObj [("k", "include"), ("path", p)]
  | .lib p s => Json.mkObj [("k", "lib"), ("path", p), ("section", s)]
  | .save t => Json.mkObj [("k", "save"), ("t", saveOutJson t)]
  | .meas a n e => Json.mkObj [("k", "meas"), ("an", a), ("name", n), ("expr", e)]
  | .param n v => Json.mkObj [("k", "param"), ("name", n), ("val", v)]
  | .literal t => Json.mkObj [("k", "literal"), ("text", t)]

def handle (op : String) (j : Json) : Except String Json := do
  match op with
  | "export" =>
    let ports ← (← getArr j "tb_ports").toList.mapM fun x => x.getNat?
    let attrs ← (← getArr j "attrs").toList.mapM parseAttr
    let s : Sim := { tbPorts := ports, tbName := ← getStr j "tb_name", attrs := attrs }
    match exportSim s with
    | none => pure (Json.mkObj [("reject", toJson true)])
    | some inp => pure (Json.mkObj [("ok", Json.mkObj [("top", inp.top),
        ("an", Json.arr (inp.an.map anJson).toArray), ("ctrls", Json.arr (inp.ctrls.map ctrlJson).toArray),
        ("opts", Json.arr (inp.opts.map fun (n, v) => Json.arr #[Json.str n, Json.str v]).toArray)])])
  | _ => throw s!"C17: unknown op {op}"

end Hdl21.Drv.C17
