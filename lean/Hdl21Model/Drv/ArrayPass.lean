import Hdl21Model.Json
import Hdl21Model.ArrayPass
open Lean
namespace Hdl21.Drv.ArrayPass
open Hdl21 Hdl21.J Hdl21.ArrayPass

def parseA (j : Json) : Except String AConn := do
  match ← getStr j "k" with
  | "bundle" => pure (.bundle (← getStr j "n"))
  | "sig" => pure (.sig (← parseSConn (← j.getObjVal? "c")))
  | "portref" => pure .portref
  | "other" => pure .other
  | k => throw s!"bad aconn {k}"

def elemJson : AElem → Json
  | .bundle b => Json.mkObj [("bundle", Json.str b)]
  | .whole c => Json.mkObj [("whole", sconnJson c)]
  | .part c lo hi => Json.mkObj [("part", sconnJson c), ("lo", toJson lo), ("hi", toJson hi)]

def bitsJson (c : SConn) : Json :=
  match c.denote with
  | .ok bs => Json.arr (bs.map fun b => Json.arr #[Json.str b.1, toJson b.2]).toArray
  | .error _ => Json.null

def handle (op : String) (j : Json) : Except String Json := do
  match op with
  | "expand" =>
    -- {"ns": [names], "array": name, "n": n, "ports": [[name, w | null]], "conns": [[port, aconn]]}
    let ports ← (← getArr j "ports").toList.mapM fun e => do
      let a ← e.getArr?
      let nm ← (a[0]?.getD Json.null).getStr?
      match a[1]?.getD Json.null with
      | .null => pure (nm, Port.bundle)
      | w => pure (nm, Port.sig (← w.getNat?))
    let conns ← (← getArr j "conns").toList.mapM fun e => do
      let a ← e.getArr?
      pure ((← (a[0]?.getD Json.null).getStr?), (← parseA (a[1]?.getD Json.null)))
    let n ← getNat j "n"
    let ns ← (← getArr j "ns").toList.mapM (·.getStr?)
    match expand ports n conns with
    | .error e => pure (Json.mkObj [("error", e)])
    | .ok r =>
      match names (ns.map String.toList) (← getStr j "array") n with
      | none => pure (Json.mkObj [("error", "flatname")])
      | some (_, nms) =>
        pure (Json.mkObj [("names", toJson (nms.map String.ofList)),
          ("ok", Json.arr (r.map fun es => Json.arr (es.map fun (p, e) => Json.arr #[Json.str p, elemJson e,
            match e.conn with | some c => bitsJson c | none => Json.null]).toArray).toArray)])
  | _ => throw s!"ArrayPass: unknown op {op}"

end Hdl21.Drv.ArrayPass
