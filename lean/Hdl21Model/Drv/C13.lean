import Hdl21Model.Json
import Hdl21Model.Params
open Lean
namespace Hdl21.Drv.C13
open Hdl21.J Hdl21.Params

def getBig (j : Json) (k : String) : Except String Int := do
  let s ← getStr j k
  match s.toInt? with
  | some i => .ok i
  | none => .error s!"bad integer {s}"

def parseDec (j : Json) : Except String Dec := do .ok ⟨← getBig j "c", ← getInt j "e"⟩
def decJson (d : Dec) : Json := Json.mkObj [("c", toString d.c), ("e", toJson d.e)]

def parseVal (j : Json) : Except String PyVal := do
  let k ← getStr j "k"
  match k with
  | "none" => .ok .none
  | "str" => do .ok (.str (← getStr j "s"))
  | "literal" => do .ok (.literal (← getStr j "s"))
  | "enum_str" => do .ok (.enumStr (← getStr j "s"))
  | "enum_other" => .ok .enumOther
  | "prefixed" => do .ok (.prefixed ⟨← parseDec j, ← getInt j "p"⟩)
  | "decimal" => do .ok (.decimal (← parseDec j))
  | "int" => do .ok (.int (← getBig j "i"))
  | "float" => do .ok (.float (← getStr j "hex"))
  | "other" => .ok .other
  | _ => .error s!"bad value kind {k}"

def pvalJson : PVal → Json
  | .literal s => Json.mkObj [("literal", s)]
  | .decLiteral d => Json.mkObj [("dec_literal", decJson d)]
  | .prefixed (.int64 n) name => Json.mkObj [("prefixed_int", toString n), ("prefix", name)]
  | .prefixed (.string d) name => Json.mkObj [("prefixed_str", decJson d), ("prefix", name)]
  | .int64 i => Json.mkObj [("int64", toString i)]
  | .double r => Json.mkObj [("double", r)]

def handle (op : String) (j : Json) : Except String Json := do
  match op with
  | "export_value" =>
    let v ← parseVal (← j.getObjVal? "v")
    match exportParamValue v with
    | none => .ok (Json.mkObj [("reject", true)])
    | some none => .ok (Json.mkObj [("omitted", true)])
    | some (some pv) =>
      let back : Json := match pv with
        | .prefixed n name => (match importPrefixed n name with
            | some q => Json.mkObj [("c", toString q.number.c), ("e", toJson q.number.e), ("p", toJson q.pre)]
            | none => .null)
        | _ => .null
      .ok (Json.mkObj [("ok", pvalJson pv), ("imported", back)])
  | _ => .error s!"C13: unknown op {op}"

end Hdl21.Drv.C13
