import Hdl21Model.Json
import Hdl21Model.NameEnc
open Lean
namespace Hdl21.Drv.NameEnc
open Hdl21.J Hdl21.NameEnc

partial def parseTy (j : Json) : Except String Ty := do
  match ← getStr j "k" with
  | "none" => pure .none | "bool" => pure .bool | "int" => pure .int | "float" => pure .float
  | "str" => pure .str | "prefixed" => pure .prefixed | "named" => pure .named
  | "enum" => pure (.enum (← parseTy (← j.getObjVal? "t")))
  | "tuple" => pure (.tuple (← parseTy (← j.getObjVal? "t")))
  | "pc" =>
    let fs ← (← getArr j "fs").toList.mapM fun e => do
      let a ← e.getArr?
      pure ((← (a[0]?.getD Json.null).getStr?), (← parseTy (a[1]?.getD Json.null)))
    pure (.pc fs)
  | "union" => pure (.union (← parseTy (← j.getObjVal? "a")) (← parseTy (← j.getObjVal? "b")))
  | k => throw s!"bad ty {k}"

partial def parsePV (j : Json) : Except String PV := do
  match ← getStr j "k" with
  | "none" => pure .none
  | "bool" => pure (.bool (← getBool j "v"))
  | "int" =>
    match (← getStr j "v").toInt? with
    | some i => pure (.int i)
    | none => throw "bad int"
  | "float" => pure (.float (← getStr j "v"))
  | "str" => pure (.str (← getStr j "v"))
  | "prefixed" => pure (.prefixed (← getStr j "v"))
  | "named" => pure (.named (← getStr j "v"))
  | "enum" => pure (.enum (← parsePV (← j.getObjVal? "v")))
  | "tuple" => pure (.tuple (← (← getArr j "xs").toList.mapM parsePV))
  | "pc" =>
    let fs ← (← getArr j "fs").toList.mapM fun e => do
      let a ← e.getArr?
      pure ((← (a[0]?.getD Json.null).getStr?), (← parsePV (a[1]?.getD Json.null)))
    pure (.pc fs)
  | k => throw s!"bad pv {k}"

partial def jvJson : JV → Json
  | .null => Json.null
  | .bool b => Json.bool b
  | .int i => Json.mkObj [("i", Json.str (toString i))]
  | .float r => Json.mkObj [("f", Json.str r)]
  | .str s => Json.mkObj [("s", Json.str s)]
  | .arr xs => Json.mkObj [("a", Json.arr (xs.map jvJson).toArray)]
  | .obj fs => Json.mkObj [("o", Json.arr (fs.map fun (k, v) => Json.arr #[Json.str k, jvJson v]).toArray)]

def handle (op : String) (j : Json) : Except String Json := do
  match op with
  | "enc" =>
    let t ← parseTy (← j.getObjVal? "ty")
    let v ← parsePV (← j.getObjVal? "val")
    pure (Json.mkObj [("wf", Json.bool t.wf), ("has", Json.bool (has t v)), ("enc", jvJson (enc v))])
  | _ => throw s!"NameEnc: unknown op {op}"

end Hdl21.Drv.NameEnc
