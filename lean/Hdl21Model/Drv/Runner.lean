import Hdl21Model.Json
import Hdl21Model.Runner
open Lean
namespace Hdl21.Drv.Runner
open Hdl21.J Hdl21.Runner

def handle (op : String) (j : Json) : Except String Json := do
  match op with
  | "runner" =>
    let children ← (← getArr j "children").toList.mapM fun l => do (← l.getArr?).toList.mapM fun x => x.getNat?
    let npasses ← getNat j "npasses"
    let fails ← (← getArr j "fail").toList.mapM fun e => do
      match (← e.getArr?).toList with
      | [k, m] => pure ((← k.getNat?), (← m.getNat?))
      | _ => throw "bad fail point"
    let calls ← (← getArr j "calls").toList.mapM fun l => do (← l.getArr?).toList.mapM fun x => x.getNat?
    let n := children.length
    let sys : Sys Unit := { children := fun m => (children[m]?).getD [],
                            apply := fun k _ m => if fails.contains (k, m) then none else some () }
    let st0 : RState Unit := { σ := fun _ => (), done := fun _ _ => false, failed := fun _ => false }
    let snap (st : RState Unit) (ok : Bool) : Json :=
      Json.mkObj [("ok", toJson ok),
        ("done", Json.arr ((List.range npasses).map fun k => Json.arr (((List.range n).filter fun m => st.done k m).map toJson).toArray).toArray),
        ("failed", Json.arr (((List.range n).filter fun m => st.failed m).map toJson).toArray)]
    let rec go (st : RState Unit) : List (List Nat) → List Json
      | [] => []
      | tops :: rest =>
        let r := elaborate sys npasses (n + 1) tops st
        snap r.1 r.2 :: go r.1 rest
    pure (Json.mkObj [("trace", Json.arr (go st0 calls).toArray)])
  | _ => throw s!"Runner: unknown op {op}"

end Hdl21.Drv.Runner
