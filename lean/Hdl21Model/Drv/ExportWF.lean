import Hdl21Model.Json
import Hdl21Model.ExportWF
import Hdl21Model.Drv.Sem
open Lean
namespace Hdl21.Drv.ExportWF
open Hdl21 Hdl21.J Hdl21.Pkg Hdl21.RoundTrip Hdl21.ExportWF

/-- an elaborated module as the harness read it off the real object; references are taken from the package, position by position -/
def parseHModule (j : Json) (pm : PModule) : Except String HModule := do
  let sigs ← (← getArr j "signals").toList.mapM fun s => do
    let a ← s.getArr?
    pure (⟨← (a[0]?.getD Json.null).getStr?, ← (a[1]?.getD Json.null).getNat?, none⟩ : HSig)
  let ports ← (← getArr j "ports").toList.mapM fun s => do
    let a ← s.getArr?
    pure (⟨← (a[0]?.getD Json.null).getStr?, ← (a[1]?.getD Json.null).getNat?, some (← (a[2]?.getD Json.null).getStr?)⟩ : HSig)
  let insts ← ((← getArr j "instances").toList.zip pm.instances).mapM fun (i, pi) => do
    let conns ← (← getArr i "conns").toList.mapM fun c => do
      let a ← c.getArr?
      pure ((← (a[0]?.getD Json.null).getStr?), (← parseSConn (a[1]?.getD Json.null)))
    pure (⟨← getStr i "n", pi.ref, pi.params, conns⟩ : HInst)
  pure ⟨pm.name, sigs, ports, insts⟩

def handle (op : String) (j : Json) : Except String Json := do
  match op with
  | "ewf" =>
    let p0 ← Hdl21.Drv.Sem.parsePackage (← j.getObjVal? "pkg")
    let p : Package := { p0 with modules := p0.modules.map fun m => { m with ports := m.ports.map fun (n, d) => (n, d.toUpper) } }
    let hs := (← getArr j "hmods").toList
    -- which layout of the signal list the exporter at hand writes (read off a probe module by the harness)
    let pf := match j.getObjVal? "ports_first" with | .ok (.bool b) => b | _ => false
    let rec go (earlier : List PModule) : List (PModule × Json) → List Json
      | [] => []
      | (m, hj) :: rest =>
        let ctx : PRef → Option (List (String × Nat)) := targetPorts p earlier
        let r : Json := match parseHModule hj m with
          | .error e => Json.mkObj [("parse_error", e)]
          | .ok h =>
            let ninst := (match hj.getObjValAs? (Array Json) "instances" with | .ok a => a.size | .error _ => 0)
            let back : Json := match (if pf then RoundTrip.exportModulePF h else RoundTrip.exportModule h) with
              | .error _ => "error"
              | .ok q => Json.bool (q.signals == m.signals && q.ports == m.ports &&
                  reprStr (q.instances.map fun i => (i.name, i.conns)) == reprStr (m.instances.map fun i => (i.name, i.conns)))
            -- every connection elaboration left is in the resolver's normal form (`resolve_nf`; `nfB_iff`): what re-elaboration leaves alone
            let nf := h.instances.all fun i => i.conns.all fun pc => pc.2.nfB
            Json.mkObj [("ewf", EWF ctx h), ("nf", nf), ("export_equal", back), ("same_instance_count", ninst == m.instances.length),
                        ("problems", toJson (moduleProblems p earlier m))]
        Json.mkObj [("module", m.name), ("result", r)] :: go (earlier ++ [m]) rest
    pure (Json.mkObj [("modules", Json.arr (go [] (p.modules.zip hs)).toArray)])
  | _ => throw s!"ExportWF: unknown op {op}"

end Hdl21.Drv.ExportWF
