import Hdl21Model.Json
import Hdl21Model.ModulePipe
import Hdl21Model.Drv.Sem
open Lean
namespace Hdl21.Drv.ModulePipe
open Hdl21 Hdl21.J Hdl21.Pkg Hdl21.RoundTrip Hdl21.ExportWF Hdl21.ModulePipe

def parseRef (r : Json) : Except String PRef :=
  match r.getObjVal? "local" with
  | .ok n => do pure (PRef.loc (← n.getStr?))
  | .error _ => do
    let a ← getArr r "ext"
    pure (PRef.ext (← (a[0]?.getD Json.null).getStr?) (← (a[1]?.getD Json.null).getStr?))

/-- a module as the designer wrote it (fragment F1): signals, ports with directions, instances with their target and connections -/
def parseSource (j : Json) : Except String HModule := do
  let sigs ← (← getArr j "signals").toList.mapM fun s => do
    let a ← s.getArr?
    pure (⟨← (a[0]?.getD Json.null).getStr?, ← (a[1]?.getD Json.null).getNat?, none⟩ : HSig)
  let ports ← (← getArr j "ports").toList.mapM fun s => do
    let a ← s.getArr?
    pure (⟨← (a[0]?.getD Json.null).getStr?, ← (a[1]?.getD Json.null).getNat?, some (← (a[2]?.getD Json.null).getStr?)⟩ : HSig)
  let insts ← (← getArr j "instances").toList.mapM fun i => do
    let conns ← (← getArr i "conns").toList.mapM fun c => do
      let a ← c.getArr?
      pure ((← (a[0]?.getD Json.null).getStr?), (← parseSConn (a[1]?.getD Json.null)))
    pure (⟨← getStr i "n", ← parseRef (← i.getObjVal? "ref"), [], conns⟩ : HInst)
  pure ⟨← getStr j "name", sigs, ports, insts⟩

def parseArrays (j : Json) : Except String (List HArr) :=
  match j.getObjVal? "arrays" with
  | .error _ => pure []
  | .ok a => do
    (← a.getArr?).toList.mapM fun i => do
      let conns ← (← getArr i "conns").toList.mapM fun c => do
        let a ← c.getArr?
        pure ((← (a[0]?.getD Json.null).getStr?), (← parseSConn (a[1]?.getD Json.null)))
      pure (⟨← getStr i "n", ← parseRef (← i.getObjVal? "ref"), [], ← getNat i "size", conns⟩ : HArr)

partial def targetJson : PTarget → Json
  | .sig n => Json.mkObj [("sig", n)]
  | .slice n t b => Json.mkObj [("slice", Json.arr #[Json.str n, toJson t, toJson b])]
  | .concat ps => Json.mkObj [("concat", Json.arr (ps.map targetJson).toArray)]

def moduleJson (p : PModule) : Json :=
  Json.mkObj [("name", p.name),
    ("signals", Json.arr (p.signals.map fun s => Json.mkObj [("n", s.1), ("w", toJson s.2)]).toArray),
    ("ports", Json.arr (p.ports.map fun s => Json.mkObj [("n", s.1), ("dir", s.2.toLower)]).toArray),
    ("instances", Json.arr (p.instances.map fun i => Json.mkObj [("n", i.name),
      ("conns", Json.arr (i.conns.map fun (pn, t) => Json.arr #[Json.str pn, targetJson t]).toArray),
      ("reads", Json.arr (i.conns.map fun (pn, t) => Json.arr #[Json.str pn,
          Json.arr ((readTarget p.signals t).map fun b => Json.arr #[Json.str b.1, toJson b.2]).toArray]).toArray)]).toArray)]

def handle (op : String) (j : Json) : Except String Json := do
  match op with
  | "design" =>
    let hs ← (← getArr j "modules").toList.mapM parseSource
    let exts ← (← getArr j "exts").toList.mapM fun e => do
      let sigs ← (← getArr e "signals").toList.mapM fun s => do
        let a ← s.getArr?
        pure ((← (a[0]?.getD Json.null).getStr?), (← (a[1]?.getD Json.null).getNat?))
      let ports ← (← getArr e "ports").toList.mapM fun s => do
        let a ← s.getArr?
        pure ((← (a[0]?.getD Json.null).getStr?), (← (a[1]?.getD Json.null).getStr?))
      pure (⟨← getStr e "domain", ← getStr e "name", sigs, ports⟩ : PExt)
    let pf := match j.getObjVal? "ports_first" with | .ok (.bool b) => b | _ => false
    let fuel := (hs.map fuelOf).foldl max 8
    match pipelineDesign fuel exts hs [] with
    | .error (.reject m) => pure (Json.mkObj [("error", m)])
    | .ok mods =>
      let shown := (mods.zip hs).map fun (p, h) => moduleJson (if pf then { p with signals := sigListPF h } else p)
      pure (Json.mkObj [("ok", Json.arr shown.toArray), ("problems", toJson (problemsFrom ⟨mods, exts⟩ [] mods))])
  | "pipeline" =>
    let h ← parseSource (← j.getObjVal? "module")
    let table ← (← getArr j "ctx").toList.mapM fun e => do
      let a ← e.getArr?
      let r ← parseRef (a[0]?.getD Json.null)
      let ports ← (← (a[1]?.getD Json.null).getArr?).toList.mapM fun p => do
        let q ← p.getArr?
        pure ((← (q[0]?.getD Json.null).getStr?), (← (q[1]?.getD Json.null).getNat?))
      pure (r, ports)
    let ctx : PRef → Option (List (String × Nat)) := fun r => (table.find? fun e => e.1 == r).map (·.2)
    -- which layout of the signal list the exporter at hand writes (read off a probe module by the harness)
    let pf := match j.getObjVal? "ports_first" with | .ok (.bool b) => b | _ => false
    let arrs ← parseArrays (← j.getObjVal? "module")
    -- element `k` of array `a` is called `a_k` (the harness keeps such names free; the naming itself is C05's model `inventAll`)
    let nm : String → Nat → String := fun a k => s!"{a}_{k}"
    let fuel := match flattenArrays ctx nm arrs.reverse h with | .ok h' => fuelOf h' | .error _ => fuelOf h
    let stage : String := match elabModule fuel ctx h with
      | .error (.reject m) => m
      | .ok _ => "elaborated"
    match (if arrs.isEmpty then pipeline fuel ctx h else pipelineA fuel ctx nm arrs h) with
    | .error (.reject m) => pure (Json.mkObj [("error", m), ("stage", stage)])
    | .ok p =>
      let p' : PModule := if pf then { p with signals := sigListPF h } else p
      pure (Json.mkObj [("ok", moduleJson p'), ("stage", stage)])
  | _ => throw s!"ModulePipe: unknown op {op}"

end Hdl21.Drv.ModulePipe
