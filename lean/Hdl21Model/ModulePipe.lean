/-
# One module through the whole default pass list and the exporter, fragment F1                         — C01, C02, C06

`Elaborator.default()` runs, on every module, `Orphanage, InstBundleElabPass, ResolvePortRefs, ConnTypes, BundleFlattener,
ArrayFlattener, SliceResolver, ConnTypesRepeat, OrphanageRepeat, MarkModules`; `export_module` then writes it.  On a module of
fragment **F1** — signals and ports of any width, instances of leaves or of modules elaborated before, connections that are
arbitrarily nested slices and concatenations of the module's signals — `InstBundleElabPass`, `ResolvePortRefs`,
`BundleFlattener` and `ArrayFlattener` find nothing to do, and the rest is *composed* here from the models each pass already
has: `Orphanage` (every signal a connection names is the module's own: `sigsOK`, which `orphanage_gives_sigsOK` derives from the
owner check), `ConnTypes.passes`, `resolveSliceable`, the two repeats, `RoundTrip.exportModule`.

The theorems about this composition (Props/C01, C02, C06: `module_connections_preserved`, `module_accepts_only_wellformed`,
`module_pipeline_wf`) are the module-level statements of those properties for F1 with no hypothesis about intermediate states.
-/
import Hdl21Model.ExportWF
import Hdl21Model.ConnTypes
import Hdl21Model.ArrayPass
import Hdl21Model.Orphanage
namespace Hdl21.ModulePipe
open Hdl21 Hdl21.Pkg Hdl21.RoundTrip Hdl21.ExportWF

/-- `Orphanage` / `OrphanageRepeat` on the instances' connections -/
def orphanage (h : HModule) : Bool :=
  h.instances.all fun i => i.conns.all fun pc => sigsOK (sigList h) pc.2

/-- `ConnTypes` / `ConnTypesRepeat`: `check_instance` on every instance (`ctx`: the ports of the instance's target) -/
def connTypes (ctx : PRef → Option (List (String × Nat))) (h : HModule) : Bool :=
  h.instances.all fun i => match ctx i.ref with
    | none => false
    | some ports => ConnTypes.passes ports i.conns

/-- `SliceResolver.resolve_instance_conns` -/
def resolveConns (fuel : Nat) : List (String × SConn) → Except Err (List (String × SConn))
  | [] => .ok []
  | (pn, c) :: rest =>
    match resolveSliceable fuel c, resolveConns fuel rest with
    | .ok r, .ok rs => .ok ((pn, r) :: rs)
    | .error e, _ => .error e
    | _, .error e => .error e

def resolveInsts (fuel : Nat) : List HInst → Except Err (List HInst)
  | [] => .ok []
  | i :: rest =>
    match resolveConns fuel i.conns, resolveInsts fuel rest with
    | .ok cs, .ok r => .ok (⟨i.name, i.ref, i.params, cs⟩ :: r)
    | .error e, _ => .error e
    | _, .error e => .error e

/-- `SliceResolver` on the module -/
def sliceResolver (fuel : Nat) (h : HModule) : Except Err HModule :=
  match resolveInsts fuel h.instances with
  | .ok is => .ok ⟨h.name, h.signals, h.ports, is⟩
  | .error e => .error e

/-- the default pass list on one F1 module, in its order -/
def elabModule (fuel : Nat) (ctx : PRef → Option (List (String × Nat))) (h : HModule) : Except Err HModule :=
  if !orphanage h then .error (.reject "Orphanage")
  else if !connTypes ctx h then .error (.reject "ConnTypes")
  else match sliceResolver fuel h with
    | .error e => .error e
    | .ok h' =>
      if !connTypes ctx h' then .error (.reject "ConnTypesRepeat")
      else if !orphanage h' then .error (.reject "OrphanageRepeat")
      else .ok h'

/-- elaborate, then export -/
def pipeline (fuel : Nat) (ctx : PRef → Option (List (String × Nat))) (h : HModule) : Except Err PModule :=
  match elabModule fuel ctx h with
  | .ok e => exportModule e
  | .error e => .error e

/-- the modules of a design, children before parents, each elaborated and exported against what the package holds so far
    (`exts`: the external modules the package declares; primitives come from the regenerated table) -/
def pipelineDesign (fuel : Nat) (exts : List PExt) : List HModule → List PModule → Except Err (List PModule)
  | [], acc => .ok acc
  | h :: rest, acc =>
    match pipeline fuel (targetPorts ⟨[], exts⟩ acc) h with
    | .ok p => pipelineDesign fuel exts rest (acc ++ [p])
    | .error e => .error e

/-! ## instance arrays (`ArrayFlattener`, between `ConnTypes` and `SliceResolver`) -/

/-- `n * M(…)(…)` -/
structure HArr where
  name : String
  ref : PRef
  params : List (String × String)
  n : Nat
  conns : List (String × SConn)

/-- the connectables one element is left with (a bundle instance is outside fragment F1) -/
def elemSConns : List (String × ArrayPass.AElem) → Except Err (List (String × SConn))
  | [] => .ok []
  | (p, e) :: rest =>
    match e.conn, elemSConns rest with
    | some c, .ok r => .ok ((p, c) :: r)
    | none, _ => .error (.reject "bundle instance on an array port")
    | _, .error x => .error x

def mkElems (a : HArr) (nm : String → Nat → String) : Nat → List (List (String × ArrayPass.AElem)) → Except Err (List HInst)
  | _, [] => .ok []
  | k, es :: rest =>
    match elemSConns es, mkElems a nm (k + 1) rest with
    | .ok cs, .ok r => .ok (⟨nm a.name k, a.ref, a.params, cs⟩ :: r)
    | .error x, _ => .error x
    | _, .error x => .error x

/-- one array through the model of the pass (`ArrayPass.expand`: per element, per port, the whole connection or its `k`-th `w` bits);
    `nm array k` is the name the pass gives element `k` (`flatname([array, k])` against the live namespace — C05's business) -/
def expandArr (ctx : PRef → Option (List (String × Nat))) (nm : String → Nat → String) (a : HArr) : Except Err (List HInst) :=
  match ctx a.ref with
  | none => .error (.reject "undefined target")
  | some ports =>
    match ArrayPass.expand (ports.map fun pw => (pw.1, ArrayPass.Port.sig pw.2)) a.n (a.conns.map fun pc => (pc.1, ArrayPass.AConn.sig pc.2)) with
    | .error e => .error (.reject e)
    | .ok els => mkElems a nm 0 els

/-- the pass on a module: the arrays in the order it takes them (`instarrays.popitem()`: last declared first), the elements added
    after the instances the module has -/
def flattenArrays (ctx : PRef → Option (List (String × Nat))) (nm : String → Nat → String) : List HArr → HModule → Except Err HModule
  | [], h => .ok h
  | a :: rest, h =>
    match expandArr ctx nm a with
    | .ok els => flattenArrays ctx nm rest ⟨h.name, h.signals, h.ports, h.instances ++ els⟩
    | .error e => .error e

/-- the default pass list on an F1 module that also has instance arrays: `Orphanage` looks at the arrays' connections too, the first
    `ConnTypes` does not look at arrays, `ArrayFlattener` expands them, and from there on the elements are instances like any other
    (their checks come with `ConnTypesRepeat` — here: with `pipeline`'s own checks on the expanded module, before it resolves
    instead of after: the same outcome, resolution keeps widths and signals). -/
def pipelineA (fuel : Nat) (ctx : PRef → Option (List (String × Nat))) (nm : String → Nat → String) (arrs : List HArr) (h : HModule) :
    Except Err PModule :=
  if !(arrs.all fun a => a.conns.all fun pc => sigsOK (sigList h) pc.2) then .error (.reject "Orphanage")
  else if !orphanage h then .error (.reject "Orphanage")
  else if !connTypes ctx h then .error (.reject "ConnTypes")
  else match flattenArrays ctx nm arrs.reverse h with
    | .error e => .error e
    | .ok h' => pipeline fuel ctx h'

/-! ## `Orphanage` as the code has it: connections made of objects that carry their owner -/

/-- an instance whose connections are made of owned objects (Orphanage.lean: `_parent_module` of every Signal a connection is made of) -/
structure OInst where
  name : String
  ref : PRef
  params : List (String × String)
  conns : List (String × Orphanage.OConn)

def eraseConns : List (String × Orphanage.OConn) → Option (List (String × SConn))
  | [] => some []
  | (p, c) :: rest =>
    match Orphanage.erase c, eraseConns rest with
    | some s, some r => some ((p, s) :: r)
    | _, _ => none

def eraseInsts : List OInst → Option (List HInst)
  | [] => some []
  | i :: rest =>
    match eraseConns i.conns, eraseInsts rest with
    | some cs, some r => some (⟨i.name, i.ref, i.params, cs⟩ :: r)
    | _, _ => none

/-- the pass list with the real ownership check in front: `Orphanage.checkConn me` on every connection of every instance of the
    module whose identity is `me`, then (what is left is Signal / Slice / Concat) the pipeline above -/
def pipelineO (fuel : Nat) (ctx : PRef → Option (List (String × Nat))) (me : Nat) (name : String) (signals ports : List HSig)
    (insts : List OInst) : Except Err PModule :=
  if !(insts.all fun i => i.conns.all fun pc => Orphanage.checkConn me pc.2) then .error (.reject "Orphanage")
  else match eraseInsts insts with
    | none => .error (.reject "a connection that is no Signal / Slice / Concat")
    | some is => pipeline fuel ctx ⟨name, signals, ports, is⟩

/-- fuel that the resolver never runs out of on the connections of `h` (`resolve_total`: `needR c` suffices for a connection that
    has a denotation; `module_elaboration_accepts` uses it) -/
def connFuel (c : SConn) : Nat := needR c

def fuelOf (h : HModule) : Nat :=
  (h.instances.flatMap fun i => i.conns.map fun pc => connFuel pc.2).foldl max 8

/-- What the namespace of a module guarantees before any pass runs (C18: dict keys are distinct, one object per name) and what
    the definitions the instances point to look like (port names distinct, a dict as well). -/
def ModOK (ctx : PRef → Option (List (String × Nat))) (h : HModule) : Prop :=
  ((h.signals ++ h.ports).map (·.name)).Nodup ∧
  (∀ s ∈ h.signals ++ h.ports, 0 < s.width) ∧
  (h.ports.all fun s => (s.dir.bind (lookupS · exportDirMap)).isSome) = true ∧
  (h.instances.map (·.name)).Nodup ∧
  (∀ i ∈ h.instances, (i.conns.map (·.1)).Nodup) ∧
  (∀ r ports, ctx r = some ports → (ports.map (·.1)).Nodup)

end Hdl21.ModulePipe
