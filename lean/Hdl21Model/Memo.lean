/-
# A table of answered requests (the PDK packages' `CACHE.mos_modcalls` / `res_modcalls` / …: "look the parameters up; if they are not
  there, select the device, build the call, file it under the parameters, return it")                                   — C15

`f` is the selection a fresh process performs (a refusal is an answer too, and is not filed).  The theorems (Props/C15) say that a
table which starts empty — or in any coherent state — answers every request of every history exactly as `f` does.
-/
namespace Hdl21.Memo

variable {K V E : Type} [DecidableEq K]

def lookup (k : K) : List (K × V) → Option V
  | [] => none
  | (a, v) :: rest => if a = k then some v else lookup k rest

/-- one request against the table -/
def request (f : K → Except E V) (c : List (K × V)) (k : K) : List (K × V) × Except E V :=
  match lookup k c with
  | some v => (c, .ok v)
  | none =>
    match f k with
    | .ok v => ((k, v) :: c, .ok v)
    | .error e => (c, .error e)

/-- a history of requests -/
def serve (f : K → Except E V) (c : List (K × V)) : List K → List (K × V) × List (Except E V)
  | [] => (c, [])
  | k :: ks =>
    let r := request f c k
    let rest := serve f r.1 ks
    (rest.1, r.2 :: rest.2)

/-- every entry is what a fresh process answers for its key -/
def Coherent (f : K → Except E V) (c : List (K × V)) : Prop := ∀ k v, lookup k c = some v → f k = .ok v

end Hdl21.Memo
