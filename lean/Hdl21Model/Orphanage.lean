/-
# The ownership check (hdl21/elab/passes/orphanage.py: Orphanage)                                         — C02, C06

Every module attribute carries `_parent_module`, set when it is added to a module.  The pass demands, of the module `me` it
visits, that every entry of its namespace is parented by `me` and is named by the key it is filed under, and that every
connection of every instance, array and instance bundle is made of objects parented by `me`:
a Signal / BundleInstance itself, the parent of a Slice, every part of a Concat, every member of an AnonymousBundle, the
*instance* of a PortRef, the *root* bundle instance of a BundleRef; a NoConn is parented by nobody and exempt.
-/
import Hdl21Model.Conn
import Hdl21Model.Export
namespace Hdl21.Orphanage
open Hdl21

/-- `_parent_module`: none, or the identity of a module -/
abbrev Owner := Option Nat

/-- a connectable, with the owners of the objects it is made of -/
inductive OConn where
  | sig (name : String) (w : Nat) (owner : Owner)
  | bundle (name : String) (owner : Owner)
  | slice (parent : OConn) (idx : Index)
  | concat (parts : List OConn)
  | noconn
  | pref (instOwner : Owner) (port : String)
  | bref (rootOwner : Owner) (path : List String)
  | anon (fields : List (String × OConn))
  deriving Repr, Inhabited

mutual
/-- `check_connectable` -/
def checkConn (me : Nat) : OConn → Bool
  | .sig _ _ o => o == some me
  | .bundle _ o => o == some me
  | .slice p _ => checkConn me p
  | .concat ps => checkList me ps
  | .noconn => true
  | .pref o _ => o == some me
  | .bref o _ => o == some me
  | .anon fs => checkFields me fs
def checkList (me : Nat) : List OConn → Bool
  | [] => true
  | p :: ps => checkConn me p && checkList me ps
def checkFields (me : Nat) : List (String × OConn) → Bool
  | [] => true
  | (_, c) :: fs => checkConn me c && checkFields me fs
end

mutual
/-- the owners of everything a connectable is made of (the declarative reading) -/
def owners : OConn → List Owner
  | .sig _ _ o => [o]
  | .bundle _ o => [o]
  | .slice p _ => owners p
  | .concat ps => ownersList ps
  | .noconn => []
  | .pref o _ => [o]
  | .bref o _ => [o]
  | .anon fs => ownersFields fs
def ownersList : List OConn → List Owner
  | [] => []
  | p :: ps => owners p ++ ownersList ps
def ownersFields : List (String × OConn) → List Owner
  | [] => []
  | (_, c) :: fs => owners c ++ ownersFields fs
end

/-- an entry of `module.namespace`: the key, the object's own `name`, its `_parent_module` -/
structure Attr where
  key : String
  name : String
  owner : Owner
  deriving Repr, Inhabited

structure OModule where
  attrs : List Attr
  /-- the connections of every instance, array and instance bundle -/
  conns : List OConn
  deriving Repr, Inhabited

/-- `Orphanage.elaborate_module` on the module whose identity is `me`: does it return? -/
def passes (me : Nat) (m : OModule) : Bool :=
  m.attrs.all (fun a => a.owner == some me && a.key == a.name) && m.conns.all (checkConn me)

/-! ## from owned connectables to the connectables of the exporter's model -/

mutual
/-- forget the owners; only Signal / Slice / Concat survive resolution -/
def erase : OConn → Option SConn
  | .sig n w _ => some (.sig n w)
  | .slice p i => (erase p).map (fun q => .slice q i)
  | .concat ps => (eraseList ps).map .concat
  | _ => none
def eraseList : List OConn → Option (List SConn)
  | [] => some []
  | p :: ps => match erase p, eraseList ps with
    | some q, some qs => some (q :: qs)
    | _, _ => none
end

mutual
/-- the Signal objects (name, width, owner) a connectable is made of -/
def sigObjs : OConn → List (String × Nat × Owner)
  | .sig n w o => [(n, w, o)]
  | .slice p _ => sigObjs p
  | .concat ps => sigObjsList ps
  | .anon fs => sigObjsFields fs
  | _ => []
def sigObjsList : List OConn → List (String × Nat × Owner)
  | [] => []
  | p :: ps => sigObjs p ++ sigObjsList ps
def sigObjsFields : List (String × OConn) → List (String × Nat × Owner)
  | [] => []
  | (_, c) :: fs => sigObjs c ++ sigObjsFields fs
end

end Hdl21.Orphanage
