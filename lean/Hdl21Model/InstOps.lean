/-
# Instance connection operations (hdl21/instance.py: _Instance.connect / replace / disconnect,
#                                 Refs, _get_portref, _get_connref)                          — C04

Every instance keeps a dict `conns : portname → Connectable`; every connectable object keeps the set
`_connected_ports` of the port references currently connected to it; every instance hands out exactly
one `PortRef` object per port name (`Refs.all`), whether it was asked for as `inst.port` (`portrefs`) or
created to serve as a back-reference (`connrefs`).

A port is `(instance, port name)`, both numbered. A connectable is either the unique `PortRef` of a
port, or any other object (signal, slice, concatenation, bundle instance, bundle reference, anonymous
bundle, no-connect), identified by its Python identity, here a number.

`conns` of all instances together is one association list, in the order Python's dicts keep:
`replace` keeps the position of the key, `disconnect` followed by `connect` moves it to the end.
-/
namespace Hdl21.InstOps

abbrev Port := Nat × Nat

inductive Conn
  | pref (p : Port)      -- the one `PortRef` object of port `p`
  | obj (n : Nat)        -- any other connectable, by identity
  deriving DecidableEq, Repr, Inhabited

structure State where
  conns : List (Port × Conn)
  /-- `c._connected_ports` -/
  back : Conn → List Port
  /-- keys of `Refs.portrefs`, `Refs.connrefs`, `Refs.all` of all instances -/
  prefs : List Port
  crefs : List Port
  all : List Port

def init : State := { conns := [], back := fun _ => [], prefs := [], crefs := [], all := [] }

def lookup (l : List (Port × Conn)) (p : Port) : Option Conn :=
  match l with
  | [] => none
  | (q, c) :: t => if q = p then some c else lookup t p

/-- `d[p] = c` for a key that is present: in place -/
def setAt (l : List (Port × Conn)) (p : Port) (c : Conn) : List (Port × Conn) :=
  match l with
  | [] => []
  | (q, d) :: t => if q = p then (q, c) :: t else (q, d) :: setAt t p c

/-- `d.pop(p)` -/
def eraseKey (l : List (Port × Conn)) (p : Port) : List (Port × Conn) :=
  match l with
  | [] => []
  | (q, d) :: t => if q = p then t else (q, d) :: eraseKey t p

def insertSet (l : List Port) (p : Port) : List Port := if p ∈ l then l else l ++ [p]

def backAdd (b : Conn → List Port) (c : Conn) (p : Port) : Conn → List Port :=
  fun x => if x = c then insertSet (b c) p else b x

def backRemove (b : Conn → List Port) (c : Conn) (p : Port) : Conn → List Port :=
  fun x => if x = c then (b c).filter (· ≠ p) else b x

inductive Op
  /-- `inst(port=c)`, `inst.port = c`, `inst.connect(port, c)`: all three are `connect` -/
  | connect (p : Port) (c : Conn)
  | replace (p : Port) (c : Conn)
  | disconnect (p : Port)
  /-- `inst.port`: `_get_portref` -/
  | getref (p : Port)
  deriving Repr

/-- `_get_connref` -/
def connref (s : State) (p : Port) : State :=
  { s with crefs := insertSet s.crefs p, all := insertSet s.all p }

/-- `_get_portref` -/
def portref (s : State) (p : Port) : State :=
  { s with prefs := insertSet s.prefs p, all := insertSet s.all p }

def doReplace (s : State) (p : Port) (c : Conn) : State × Bool :=
  let s := connref s p
  match lookup s.conns p with
  | none => (s, false)                                   -- KeyError from `self.conns[portname]`
  | some old =>
    ({ s with conns := setAt s.conns p c, back := backAdd (backRemove s.back old p) c p }, true)

/-- One operation. The flag is `false` when Python raises (`KeyError`); the state is what is left behind. -/
def step (s : State) : Op → State × Bool
  | .connect p c =>
    match lookup s.conns p with
    | some _ => doReplace s p c
    | none => let s := connref s p
              ({ s with conns := s.conns ++ [(p, c)], back := backAdd s.back c p }, true)
  | .replace p c => doReplace s p c
  | .disconnect p =>
    match lookup s.conns p with
    | none => (s, false)                                 -- KeyError from `self.conns.pop`
    | some old =>
      let s := connref s p
      ({ s with conns := eraseKey s.conns p, back := backRemove s.back old p }, true)
  | .getref p => (portref s p, true)

def run (s : State) (ops : List Op) : State := ops.foldl (fun s op => (step s op).1) s

/-- `set.remove` raises `KeyError` on an absent element: the operations rely on the back-reference being there. -/
def removeWouldRaise (s : State) : Op → Bool
  | .connect p _ | .replace p _ | .disconnect p =>
    match lookup s.conns p with
    | some old => !(decide (p ∈ s.back old))
    | none => false
  | .getref _ => false

/-! ## The specification: a finite map -/

abbrev Spec := Port → Option Conn

def specStep (m : Spec) : Op → Spec
  | .connect p c => fun x => if x = p then some c else m x
  | .replace p c => fun x => if x = p then (m p).map (fun _ => c) else m x
  | .disconnect p => fun x => if x = p then none else m x
  | .getref _ => m

def specRun (m : Spec) (ops : List Op) : Spec := ops.foldl specStep m

def abs (s : State) : Spec := lookup s.conns

/-- the invariant tying the two directions together -/
structure Inv (s : State) : Prop where
  keys : (s.conns.map (·.1)).Nodup
  back : ∀ c p, p ∈ s.back c ↔ lookup s.conns p = some c
  nodup : ∀ c, (s.back c).Nodup
  allP : ∀ p, p ∈ s.prefs → p ∈ s.all
  allC : ∀ p, p ∈ s.crefs → p ∈ s.all
  conn_has_ref : ∀ p c, lookup s.conns p = some c → p ∈ s.crefs

end Hdl21.InstOps
