/-
# Module / Bundle namespaces (hdl21/module.py:_add, Module.add/__setattr__/get/__getattr__;
#                              hdl21/bundle.py likewise)                         — C18

State = the per-kind dictionaries + the combined `namespace` + each object's `name`
and `_parent_module`, and the post-elaboration freeze.  A `Bundle` is the same machine
restricted to the kinds `signal` and `bundle` (`kinds` parameter).
-/
import Hdl21Model.Generated.Banned
namespace Hdl21.NS

inductive Kind where
  | port | signal | instance | instarray | instbundle | bundle
  deriving Repr, DecidableEq, Inhabited

def Kind.all : List Kind := [.port, .signal, .instance, .instarray, .instbundle, .bundle]

/-- An HDL object: identity and (fixed) kind. A `Signal` with port visibility has kind `port`. -/
structure Obj where
  id : Nat
  kind : Kind
  deriving Repr, DecidableEq, Inhabited

/-- Values that can be assigned: an HDL object, or anything else (int, str, Module, …). -/
inductive Val where
  | hdl (o : Obj)
  | other
  deriving Repr, DecidableEq

structure State where
  view : Kind → String → Option Obj      -- ports / signals / instances / instarrays / instbundles / bundles
  ns : String → Option Obj               -- namespace
  nameOf : Nat → Option String           -- obj.name
  parented : Nat → Bool                  -- obj._parent_module is this module
  frozen : Bool                          -- module._elaborated is not None

def State.init (names : Nat → Option String) : State :=
  { view := fun _ _ => none, ns := fun _ => none, nameOf := names, parented := fun _ => false, frozen := false }

inductive Op where
  | setattr (key : String) (v : Val)
  | add (v : Val) (name : Option String)
  | get (name : String)
  | getattr (name : String)
  | delattr (name : String)
  | elaborate
  | steal (v : Val) (key : String)   -- *another* container adopts the object under `key`
  deriving Repr

inductive Out where
  | ok
  | value (o : Option Obj)
  | native            -- attribute access answered by a Python-level attribute (ports, add, name, …)
  | reject
  deriving Repr, DecidableEq

/-- `_add(module, val)` once `val.name` is set to `n` and `_assert_addable` has passed. -/
def addCore (s : State) (o : Obj) (n : String) : State :=
  let parented : Nat → Bool := match s.ns n with
    | some p => if p.id = o.id then s.parented else fun i => if i = p.id then false else s.parented i
    | none => s.parented
  { s with
      view := fun k m => if m = n then (if k = o.kind then some o else none) else s.view k m
      ns := fun m => if m = n then some o else s.ns m
      nameOf := fun i => if i = o.id then some n else s.nameOf i
      parented := fun i => if i = o.id then true else parented i }

/-- Is `o` already held under a name other than `n`?  (`_assert_addable` scans the namespace;
    the model scans the finite alphabet `names`, which contains every bound name). -/
def aliased (names : List String) (s : State) (o : Obj) (n : String) : Bool :=
  names.any (fun m => m ≠ n && (match s.ns m with | some p => p.id == o.id | none => false))

/-- Static description of a container class: reserved names, natively answered names,
    accepted kinds (Module: all six; Bundle: signal, bundle). -/
structure Cfg where
  banned : List String
  native : List String
  kinds : List Kind
  /-- the names of the alphabet with a leading underscore (the driver computes them from the names of the case) -/
  priv : List String := []

def moduleCfg : Cfg := ⟨banned, nativeAttrs, Kind.all, []⟩
def bundleCfg : Cfg := ⟨bundleBanned, bundleNativeAttrs, [.signal, .bundle], []⟩

/-- The checks shared by `add` and `__setattr__` (type check, `_assert_addable`), then `_add`. -/
def tryAdd (cfg : Cfg) (names : List String) (s : State) (o : Obj) (n : String) : State × Out :=
  if n ∈ cfg.banned then (s, .reject)
  else if n ∈ cfg.priv then (s, .reject)       -- a leading underscore is a plain Python attribute, never an HDL name
  else if o.kind ∉ cfg.kinds then (s, .reject)
  else if s.frozen then (s, .reject)
  else if aliased names s o n then (s, .reject)
  else (addCore s o n, .ok)

def step (cfg : Cfg) (names : List String) (s : State) : Op → State × Out
  | .setattr key v =>
    if key ∈ cfg.priv then (s, .ok)              -- `x._a = anything`: stored on the Python object, nothing is filed
    else match v with
    | .other => (s, .reject)
    | .hdl o => tryAdd cfg names s o key
  | .add v name =>
    match v with
    | .other => (s, .reject)
    | .hdl o =>
      match name, s.nameOf o.id with
      | none, none => (s, .reject)
      | some _, some _ => (s, .reject)
      | some n, none => tryAdd cfg names s o n
      | none, some n => tryAdd cfg names s o n
  | .get n => (s, .value (s.ns n))
  | .getattr n =>
    if n ∈ cfg.native then (s, .native)
    else match s.ns n with
      | some o => (s, .value (some o))
      | none => (s, .reject)
  | .delattr _ => (s, .reject)
  | .elaborate => ({ s with frozen := true }, .ok)
  | .steal v key =>
    match v with
    | .other => (s, .reject)
    | .hdl o =>
      -- the other container's `_add`: renames the object and takes over its parent reference
      ({ s with nameOf := fun i => if i = o.id then some key else s.nameOf i
                parented := fun i => if i = o.id then false else s.parented i }, .ok)

def run (cfg : Cfg) (names : List String) (s : State) : List Op → State × List Out
  | [] => (s, [])
  | op :: ops =>
    let r := step cfg names s op
    let rest := run cfg names r.1 ops
    (rest.1, r.2 :: rest.2)

/-- The names an operation mentions. -/
def Op.names : Op → List String
  | .setattr k _ => [k]
  | .add _ (some n) => [n]
  | .add _ none => []
  | .get n => [n]
  | .getattr n => [n]
  | .delattr n => [n]
  | .elaborate => []
  | .steal _ k => [k]

/-- Operations of the property's own alphabet (everything but adoption by another container). -/
def Op.local : Op → Bool
  | .steal _ _ => false
  | _ => true

end Hdl21.NS
