/-
# PDK compilation (hdl21/walker.py: HierarchyWalker; hdl21/pdk/pdk.py: register / compile / default;
#                  pdks/*/pdk_logic.py: *Walker.mos_module … ; hdl21/pdk/sample_pdk/pdk.py)                — C15

Three layers:
* the hierarchy walk, which rewrites `Instance.of` and nothing else, for an arbitrary device map;
* device selection over the device tables (`Generated/PdkTables.lean`, regenerated from /repo on every run)
  and the translation of sizes ("given, else the PDK's default");
* the PDK registry.
-/
import Hdl21Model.PdkTypes
namespace Hdl21.Pdk

/-! ## The walk -/

inductive Target
  | module (idx : Nat)
  | prim (kind : String) (params : Nat)     -- a PrimitiveCall: the primitive's name and (the identity of) its parameter value
  | ext (name : String) (params : Nat)      -- an ExternalModuleCall
  deriving Repr, DecidableEq

structure Inst where
  name : String
  target : Target
  conns : List (String × String)
  deriving Repr, DecidableEq

structure Mod where
  name : String
  insts : List Inst
  deriving Repr, DecidableEq

abbrev Design := List Mod

/-- what a PDK's `visit_primitive_call` does with a primitive call: `none` leaves it (not technology-mapped),
    `some (.ok t)` replaces it, `some (.error e)` raises -/
abbrev DevMap := String → Nat → Option (Except String Target)

def visitInst (dm : DevMap) (i : Inst) : Except String Inst :=
  match i.target with
  | .prim k p =>
    match dm k p with
    | none => .ok i
    | some (.ok t) => .ok { i with target := t }
    | some (.error e) => .error e
  | _ => .ok i

def visitInsts (dm : DevMap) : List Inst → Except String (List Inst)
  | [] => .ok []
  | i :: r =>
    match visitInst dm i, visitInsts dm r with
    | .ok i', .ok r' => .ok (i' :: r')
    | .error e, _ => .error e
    | _, .error e => .error e

def visitMod (dm : DevMap) (m : Mod) : Except String Mod :=
  match visitInsts dm m.insts with
  | .ok insts => .ok { m with insts := insts }
  | .error e => .error e

/-- `compile`: every module the walk reaches (`reach`, by index) has its instances visited, in place. -/
def compileFrom (dm : DevMap) (reach : Nat → Bool) : Nat → List Mod → Except String (List Mod)
  | _, [] => .ok []
  | k, m :: r =>
    match (if reach k then visitMod dm m else .ok m), compileFrom dm reach (k + 1) r with
    | .ok m', .ok r' => .ok (m' :: r')
    | .error e, _ => .error e
    | _, .error e => .error e

def compile (dm : DevMap) (reach : Nat → Bool) (d : Design) : Except String Design := compileFrom dm reach 0 d

/-- modules reachable from `tops` through module-valued instance targets -/
def children (m : Mod) : List Nat := m.insts.filterMap fun i => match i.target with | .module k => some k | _ => none

def reachFrom (d : Design) : Nat → List Nat → List Nat → List Nat
  | 0, _, seen => seen
  | fuel + 1, todo, seen =>
    match todo with
    | [] => seen
    | k :: rest =>
      if k ∈ seen then reachFrom d fuel rest seen
      else match d[k]? with
        | none => reachFrom d fuel rest seen
        | some m => reachFrom d fuel (children m ++ rest) (k :: seen)

/-! ## Device selection -/

structure MosReq where
  model : Option String
  tp : String
  vth : String
  fam : String
  deriving Repr, DecidableEq

inductive Sel (α : Type)
  | found (e : α)
  | noDevice          -- RuntimeError "No … module for …"
  | ambiguous         -- RuntimeError "… choice not well-defined …" (Gf180)
  deriving Repr, DecidableEq

/-- `[v for k, v in xtors.items() if params.model in k][0]` -/
def selectByKey (tbl : List MosEntry) (model : String) : Option MosEntry := tbl.find? (·.key == model)

def matchesSky (r : MosReq) (e : MosEntry) : Bool := e.tp == r.tp && e.fam == some r.fam && e.vth == some r.vth

/-- Sky130: by model name if given, else the first entry carrying type, family and threshold -/
def selectMosSky130 (tbl : List MosEntry) (r : MosReq) : Sel MosEntry :=
  match r.model with
  | some m => match selectByKey tbl m with | some e => .found e | none => .noDevice
  | none => match tbl.find? (matchesSky r) with | some e => .found e | none => .noDevice

def matchesGf (r : MosReq) (e : MosEntry) : Bool := e.tp == r.tp && e.fam == some r.fam

/-- Gf180: by model name if given, else the one entry carrying type and family -/
def selectMosGf180 (tbl : List MosEntry) (r : MosReq) : Sel MosEntry :=
  match r.model with
  | some m => match selectByKey tbl m with | some e => .found e | none => .noDevice
  | none => match tbl.filter (matchesGf r) with
    | [] => .noDevice
    | [e] => .found e
    | _ => .ambiguous

/-- `ress.get(params.model)` and friends -/
def selectModel (tbl : List ModelEntry) (model : Option String) : Sel ModelEntry :=
  match model with
  | none => .noDevice
  | some m => match tbl.find? (·.key == m) with | some e => .found e | none => .noDevice

def samePorts (a b : List String) : Bool := a.all (· ∈ b) && b.all (· ∈ a) && a.length == b.length

def sizeOf? (tbl : List SizeEntry) (modname : String) : Option SizeEntry := tbl.find? (·.modname == modname)

/-- "sized with the given values or the PDK's defaults" -/
def givenOr (given : Option String) (dflt : String) : String := given.getD dflt

/-! ## Registry -/

structure Registry where
  mods : List String            -- registered PDK modules, by `__name__`
  dflt : Option String
  deriving Repr, DecidableEq

inductive PdkArg
  | none
  | name (s : String)
  | module (m : String) (valid : Bool)     -- a Python module; `valid`: it has a well-typed `compile`
  deriving Repr, DecidableEq

def Registry.register (r : Registry) (m : String) : Registry :=
  if m ∈ r.mods then r else { r with mods := r.mods ++ [m] }

/-- `default()` -/
def Registry.default (r : Registry) : Option String :=
  match r.dflt with
  | some d => some d
  | none => match r.mods with | [m] => some m | _ => none

/-- which PDK `hdl21.pdk.compile(src, pdk=arg)` runs; `none`: raises -/
def Registry.resolve (r : Registry) : PdkArg → Registry × Option String
  | .none => (r, r.default)
  | .name s => (r, if s ∈ r.mods then some s else none)
  | .module m valid => if valid then (r.register m, some m) else (r, none)

end Hdl21.Pdk
