/-
# Sliceable connectables: width, denotation, and the SliceResolver          — C03 (and C01-F1)

`SConn` is the fragment of hdl21's connectables that can be sliced and concatenated
once references have been resolved: `Signal`, `Slice`, `Concat`.

* `SConn.width`   mirrors `hdl21/elab/helpers/width.py:width`
* `SConn.denote`  is the *meaning*: the ordered list of signal bits, index 0 least
  significant; a slice selects from its parent's list with `Inner.bits`
  (proved equal to Python's selection in Props/C03), a concat is list append with
  `parts[0]` lowest.
* `listSlice`, `resolveSlice`, `resolveConcat`, `resolveSliceable` mirror
  `hdl21/elab/passes/slices.py:_list_slice/_resolve_slice/_resolve_concat/_resolve_sliceable`.
  The Python recursion creates fresh `Slice` objects on the same parent, so it is not
  structural; the model takes a fuel argument; `needR` (below) is a bound that
  `Props.C03.resolve_total` proves sufficient.
-/
import Hdl21Model.Slice
namespace Hdl21

/-- A bit of a named signal. -/
abbrev Bit := String × Int

inductive SConn where
  | sig (name : String) (w : Nat)
  | slice (parent : SConn) (idx : Index)
  | concat (parts : List SConn)
  deriving Repr, Inhabited

def allBits (name : String) (w : Nat) : List Bit :=
  (List.range w).map (fun (k : Nat) => (name, (k : Int)))

/-- Pick the elements of `bs` at the (non-negative, in-range) positions `ks`. -/
def pick {α} (bs : List α) (ks : List Int) : Except Err (List α) :=
  ks.mapM (fun (k : Int) => if k < 0 then .error (.reject "negative bit") else
    match bs[k.toNat]? with
    | some b => .ok b
    | none => .error (.reject "bit out of range"))

mutual
/-- `hdl21/elab/helpers/width.py:width` -/
def SConn.width : SConn → Except Err Nat
  | .sig _ w => .ok w
  | .slice p idx => do
      let pw ← p.width
      let inner ← sliceInner pw idx
      .ok inner.width.toNat
  | .concat ps => widthList ps
def widthList : List SConn → Except Err Nat
  | [] => .ok 0
  | p :: ps => do
      let a ← p.width
      let b ← widthList ps
      .ok (a + b)
end

mutual
/-- The ordered bit list a connectable stands for. -/
def SConn.denote : SConn → Except Err (List Bit)
  | .sig n w => .ok (allBits n w)
  | .slice p idx => do
      let bs ← p.denote
      let inner ← sliceInner bs.length idx
      pick bs inner.bits
  | .concat ps => denoteList ps
def denoteList : List SConn → Except Err (List Bit)
  | [] => .ok []
  | p :: ps => do
      let a ← p.denote
      let b ← denoteList ps
      .ok (a ++ b)
end

/-- `_flat_concatable`: a Signal, or a Slice directly into a Signal. -/
def SConn.isFlat : SConn → Bool
  | .sig _ _ => true
  | .slice (.sig _ _) _ => true
  | _ => false

/-- Find the part of a concat holding bit `k`; returns the part and the offset within it.
    Mirrors the `for part in slize.parent.parts` loop of `_list_slice`. -/
def findPart : List SConn → Nat → Nat → Except Err (SConn × Nat)
  | [], _, _ => .error (.reject "slice out of bounds of concat")
  | p :: ps, idx, k => do
      let w ← p.width
      if w + idx > k then .ok (p, k - idx) else findPart ps (idx + w) k

/-- Position in the grand-parent of bit `k` of a slice with inner `pin`. -/
def Inner.bitAt (pin : Inner) (k : Int) : Int :=
  if pin.step < 0 then pin.top - 1 + k * pin.step else pin.bot + k * pin.step

/-- One level of splicing: the parts of entries that are concatenations are spliced in
    (`_resolve_slice`, and the loop of `_resolve_concat`). -/
def splice : List SConn → List SConn
  | [] => []
  | .concat ps :: rest => ps ++ splice rest
  | .sig n w :: rest => .sig n w :: splice rest
  | .slice p i :: rest => .slice p i :: splice rest

mutual
/-- `_list_slice(parent[idx])` -/
def listSlice : Nat → SConn → Index → Except Err (List SConn)
  | 0, _, _ => .error (.reject "fuel")
  | fuel + 1, parent, idx => do
      let pw ← parent.width
      let inner ← sliceInner pw idx
      if inner.step > 0 ∧ inner.width.toNat = pw then
        let r ← resolveSliceable fuel parent
        .ok [r]
      else match parent with
        | .sig _ _ => .ok [.slice parent idx]
        | .slice pp pidx =>
          if inner.width = 1 then do
            let ppw ← pp.width
            let pin ← sliceInner ppw pidx
            listSlice fuel pp (.int (pin.bitAt inner.bot))
          else consSlice fuel parent inner
        | .concat parts =>
          if inner.width = 1 then do
            let (part, off) ← findPart parts 0 inner.bot.toNat
            listSlice fuel part (.int off)
          else consSlice fuel parent inner
/-- The "cons" recursion of `_list_slice`: first bit, then the rest. -/
def consSlice : Nat → SConn → Inner → Except Err (List SConn)
  | 0, _, _ => .error (.reject "fuel")
  | fuel + 1, parent, inner =>
      if inner.step < 0 then do
        let first ← listSlice fuel parent (.int (inner.top - 1))
        let stop : Option Int := if inner.bot > 0 then some (inner.bot - 1) else none
        let rest ← listSlice fuel parent (.range (some (inner.top - 1 + inner.step)) stop (some inner.step))
        .ok (first ++ rest)
      else do
        let first ← listSlice fuel parent (.int inner.bot)
        let rest ← listSlice fuel parent (.range (some (inner.bot + inner.step)) (some inner.top) (some inner.step))
        .ok (first ++ rest)
/-- `_resolve_sliceable` -/
def resolveSliceable : Nat → SConn → Except Err SConn
  | 0, _ => .error (.reject "fuel")
  | _ + 1, .sig n w => .ok (.sig n w)
  | fuel + 1, .slice p idx => do
      let ls ← listSlice fuel p idx
      match ls with
      | [] => .error (.reject "error resolving slice")
      | [x] => .ok x
      | _ => .ok (.concat (splice ls))
  | fuel + 1, .concat ps =>
      if ps.isEmpty then .error (.reject "concatenation with no parts") else do
        let parts ← resolveParts fuel ps
        .ok (.concat parts)
/-- The loop of `_resolve_concat`: resolve each part, splice resolved concats. -/
def resolveParts : Nat → List SConn → Except Err (List SConn)
  | 0, _ => .error (.reject "fuel")
  | _ + 1, [] => .ok []
  | fuel + 1, p :: ps => do
      let r ← resolveSliceable fuel p
      let rest ← resolveParts fuel ps
      match r with
      | .concat rs => .ok (rs ++ rest)
      | _ => .ok (r :: rest)
end

/-- What `export_connection_target` accepts: signals, unit-step slices of signals,
    and (possibly nested) concatenations of those. -/
def SConn.exportable : SConn → Bool
  | .sig _ _ => true
  | .slice (.sig _ _) _ => true
  | .slice _ _ => false
  | .concat ps => exportableList ps
where exportableList : List SConn → Bool
  | [] => true
  | p :: ps => p.exportable && exportableList ps

/-- Structural size, used to bound the fuel the resolver needs. -/
def SConn.size : SConn → Nat
  | .sig _ _ => 1
  | .slice p _ => p.size + 1
  | .concat ps => sizeList ps + 1
where sizeList : List SConn → Nat
  | [] => 0
  | p :: ps => p.size + sizeList ps

/-! ### renaming signals (`update_ref_deps`: a reference inside a slice / concatenation is replaced by what it resolved to) -/

mutual
/-- replace every signal name in a connectable (widths stay) — in particular: the pseudo-signal that stands for a reference
    to a port by the signal that port was resolved to (`update_ref_deps`) -/
def SConn.rename (ρ : String → String) : SConn → SConn
  | .sig n w => .sig (ρ n) w
  | .slice p idx => .slice (p.rename ρ) idx
  | .concat ps => .concat (renameList ρ ps)
def renameList (ρ : String → String) : List SConn → List SConn
  | [] => []
  | p :: ps => p.rename ρ :: renameList ρ ps
end

def renameBit (ρ : String → String) (b : Bit) : Bit := (ρ b.1, b.2)

/-! ### fuel the resolver never runs out of (`resolve_total`, Props/C03) -/

/-- the width, 0 if there is none -/
def SConn.wd (c : SConn) : Nat := match c.width with | .ok w => w | .error _ => 0

mutual
/-- fuel that `resolveSliceable` never runs out of -/
def needR : SConn → Nat
  | .sig _ _ => 1
  | .slice p idx => needR p + 2 * (SConn.slice p idx).wd
  | .concat ps => needP ps + 1
def needP : List SConn → Nat
  | [] => 1
  | p :: ps => needR p + needP ps + 1
end

mutual
/-- no `Concat()` without parts anywhere (hdl21 refuses it: "concatenation with no parts") -/
def SConn.noEmpty : SConn → Bool
  | .sig _ _ => true
  | .slice p _ => p.noEmpty
  | .concat ps => !ps.isEmpty && noEmptyList ps
def noEmptyList : List SConn → Bool
  | [] => true
  | p :: ps => p.noEmpty && noEmptyList ps
end


/-! ### the resolver's normal form, executably (`NF` of Lemmas/ResolveNF.lean; `nfB_iff` there) -/

def SConn.nfLeafB : SConn → Bool
  | .sig _ _ => true
  | .slice (.sig _ w) idx =>
    match sliceInner w idx with
    | .ok inner => !(decide (inner.step > 0) && inner.width.toNat == w)
    | .error _ => false
  | _ => false

def SConn.nfB : SConn → Bool
  | .concat ps => !ps.isEmpty && ps.all SConn.nfLeafB
  | c => c.nfLeafB


/-! ### unit-step expressions (what the property demands be accepted: integer indices and unit-step ranges) -/

def Index.unit : Index → Bool
  | .int _ => true
  | .range _ _ st => st == none || st == some 1

mutual
/-- every index in the expression is an integer or a unit-step range -/
def SConn.unit : SConn → Bool
  | .sig _ _ => true
  | .slice p idx => p.unit && idx.unit
  | .concat ps => unitList ps
def unitList : List SConn → Bool
  | [] => true
  | p :: ps => p.unit && unitList ps
end


end Hdl21
