/-
# The hashed form of generated names (hdl21/params.py:_unique_name / hdl21_naming_encoder)          — C09

A param-class that is not all-scalar (or whose readable name is too long) is named by the md5 of
`json.dumps(params, indent=4, default=hdl21_naming_encoder)`.  Modelled here: the *tree* that text is the rendering of — what the
encoder makes of every kind of value — and the type discipline under which that tree determines the value.  Not modelled (trusted,
DESIGN §12.5): `json.dumps` as an injective rendering of trees, and md5 collision freedom.

  value                         encoder                                   JSON
  None / bool / int / float / str   (json's own)                          null / true,false / number / number / string
  Enum member                   pydantic: its `.value`                     the value's JSON
  list / tuple                  (json's own)                               array
  nested param-class            `{field: value …}` in field order         object
  Prefixed                      `_canonical()`                             string
  Module / ExternalModule / Generator   qualified name                     string
-/
namespace Hdl21.NameEnc

inductive PV
  | none
  | bool (b : Bool)
  | int (i : Int)
  | float (repr : String)
  | str (s : String)
  | enum (v : PV)
  | tuple (xs : List PV)
  | pc (fields : List (String × PV))
  | prefixed (canon : String)
  | named (qualname : String)
  deriving Repr

inductive JV
  | null
  | bool (b : Bool)
  | int (i : Int)
  | float (repr : String)
  | str (s : String)
  | arr (xs : List JV)
  | obj (fields : List (String × JV))
  deriving Repr

mutual
def enc : PV → JV
  | .none => .null
  | .bool b => .bool b
  | .int i => .int i
  | .float r => .float r
  | .str s => .str s
  | .enum v => enc v
  | .tuple xs => .arr (encList xs)
  | .pc fs => .obj (encFields fs)
  | .prefixed c => .str c
  | .named q => .str q
def encList : List PV → List JV
  | [] => []
  | x :: xs => enc x :: encList xs
def encFields : List (String × PV) → List (String × JV)
  | [] => []
  | (k, v) :: rest => (k, enc v) :: encFields rest
end

/-- the declared type of a field, as far as naming cares -/
inductive Ty
  | none | bool | int | float | str | prefixed | named
  | enum (t : Ty)
  | tuple (t : Ty)
  | pc (fields : List (String × Ty))
  | union (a b : Ty)
  deriving Repr

inductive Kind | null | bool | int | float | str | arr | obj
  deriving DecidableEq, Repr

def JV.kind : JV → Kind
  | .null => .null | .bool _ => .bool | .int _ => .int | .float _ => .float | .str _ => .str | .arr _ => .arr | .obj _ => .obj

def Ty.kinds : Ty → List Kind
  | .none => [.null] | .bool => [.bool] | .int => [.int] | .float => [.float]
  | .str => [.str] | .prefixed => [.str] | .named => [.str]
  | .enum t => t.kinds
  | .tuple _ => [.arr]
  | .pc _ => [.obj]
  | .union a b => a.kinds ++ b.kinds

mutual
/-- `v` is a value of declared type `t` -/
def has : Ty → PV → Bool
  | .none, v => match v with | .none => true | _ => false
  | .bool, v => match v with | .bool _ => true | _ => false
  | .int, v => match v with | .int _ => true | _ => false
  | .float, v => match v with | .float _ => true | _ => false
  | .str, v => match v with | .str _ => true | _ => false
  | .prefixed, v => match v with | .prefixed _ => true | _ => false
  | .named, v => match v with | .named _ => true | _ => false
  | .enum t, v => match v with | .enum x => has t x | _ => false
  | .tuple t, v => match v with | .tuple xs => xs.all (fun x => has t x) | _ => false
  | .pc fs, v => match v with | .pc vs => hasFields fs vs | _ => false
  | .union a b, v => has a v || has b v
def hasFields : List (String × Ty) → List (String × PV) → Bool
  | [], vs => match vs with | [] => true | _ => false
  | (k, t) :: fs, vs => match vs with | (k', v) :: rest => k = k' && has t v && hasFields fs rest | [] => false
end

mutual
/-- a union's alternatives must be told apart by the JSON they produce: `Optional[int]` (null / number) is fine, `Union[str, Prefixed]`
    (string / string) is not -/
def Ty.wf : Ty → Bool
  | .enum t => t.wf
  | .tuple t => t.wf
  | .pc fs => wfFields fs
  | .union a b => a.wf && b.wf && a.kinds.all (fun k => !b.kinds.contains k)
  | _ => true
def wfFields : List (String × Ty) → Bool
  | [] => true
  | (_, t) :: fs => t.wf && wfFields fs
end

end Hdl21.NameEnc
