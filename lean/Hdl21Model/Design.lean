/-
# Source designs and their declarative meaning `Sem.src`                      — C01 (oracle), C02, C04, C05, C16, C19

The source IR is what the designer wrote, before any elaboration.  `semSrc` is the declarative
meaning of DESIGN.md Appendix A: for every (element) instance and every leaf of every port, the
ordered list of local *atoms* its connection denotes —

* a signal is its bits; a slice selects from its parent's list with Python semantics
  (`sliceInner`/`Inner.bits`, proved equal to Python's selection in Props/C03); a concatenation is list
  append with part 0 lowest;
* a bundle instance / bundle reference / anonymous bundle denotes, for member path `p`, the bits of
  member `p`;
* a port reference denotes the one explicit connection of its reference-connected group of ports, or
  the group's own private bits if there is none;
* a no-connect is private to its one port;
* element `k` of an `n`-array takes bits `[k·w, (k+1)·w)` of an `n·w`-wide connection and all bits of a
  `w`-wide one; a `Pair` member `m` takes member `m` of a bundle-like connection and all of a scalar one.

Nothing here refers to any elaboration pass, generated name (other than the documented element
names `arr_k`, `pair_m`, `port_member`) or order of processing.  Ill-formed designs yield an error.
-/
import Hdl21Model.Slice
import Hdl21Model.Bundles
import Hdl21Model.Nets
namespace Hdl21.Design
open Hdl21 Hdl21.Nets

inductive Conn where
  | sig (n : String)
  | slice (p : Conn) (idx : Index)
  | concat (ps : List Conn)
  | pref (inst port : String)
  | noconn
  | bundle (n : String)
  | bref (root : String) (path : List String)
  | anon (fields : List (String × Conn))
  | orphan (w : Nat)                            -- a Signal owned by another module, or by none
  deriving Repr, Inhabited

inductive Target where
  | module (n : String)
  | leaf (kind : String) (ports : List (String × Nat)) (params : List (String × String))
  deriving Repr, Inhabited

inductive InstKind where
  | single
  | array (n : Nat)
  | pair (members : List String)
  deriving Repr, Inhabited

structure Inst where
  name : String
  target : Target
  kind : InstKind
  conns : List (String × Conn)
  deriving Repr, Inhabited

structure Module where
  name : String
  sigs : List (String × Nat × Bool)            -- name, width, is-port
  bundles : List (String × String × Bool)      -- name, bundle definition, is-port
  insts : List Inst
  label : Option String := none                -- the hdl21 `Module.name` when it differs from `name` (none = unnamed)
  labelled : Bool := false
  deriving Repr, Inhabited

structure Design where
  bundles : List (String × Bundles.BTree)
  modules : List Module                        -- children first
  deriving Repr, Inhabited

abbrev R := Except String

def leavesOf (t : Bundles.BTree) : List (List String × Nat) :=
  (Bundles.flatten false false none t).map (fun f => (f.path, f.width))

def bundleTree (d : Design) (name : String) : R Bundles.BTree :=
  match d.bundles.find? (fun b => b.1 == name) with
  | some b => pure b.2
  | none => throw s!"unknown bundle {name}"

/-- Interface of an instance target: (port, member path, width) per scalar leaf. -/
def iface (d : Design) : Target → R (List (String × List String × Nat))
  | .leaf _ ports _ => pure (ports.map (fun (p, w) => (p, [], w)))
  | .module n =>
    match d.modules.find? (fun m => m.name == n) with
    | none => throw s!"unknown module {n}"
    | some m => do
      let scalars := (m.sigs.filter (fun s => s.2.2)).map (fun s => (s.1, ([] : List String), s.2.1))
      let bund ← (m.bundles.filter (fun b => b.2.2)).mapM (fun b => do
        let t ← bundleTree d b.2.1
        pure ((leavesOf t).map (fun (p, w) => (b.1, p, w))))
      pure (scalars ++ bund.flatten)

structure Ctx where
  d : Design
  m : Module

def Ctx.inst (c : Ctx) (name : String) : R Inst :=
  match c.m.insts.find? (fun i => i.name == name) with
  | some i => pure i
  | none => throw s!"{c.m.name}: unknown instance {name}"

def Ctx.direct (c : Ctx) (node : String × String) : Option Conn :=
  match c.m.insts.find? (fun i => i.name == node.1) with
  | some i => (i.conns.find? (fun p => p.1 == node.2)).map (·.2)
  | none => none

/-- All (instance, port) nodes of the reference graph of a module. -/
def Ctx.nodes (c : Ctx) : List (String × String) :=
  c.m.insts.flatMap (fun i => i.conns.flatMap (fun (p, cn) =>
    (i.name, p) :: (match cn with | .pref j q => [(j, q)] | _ => [])))

mutual
/-- Does the connectable mention the port reference `x` anywhere (also inside slices, concatenations, anonymous bundles)? -/
def mentions (x : String × String) : Conn → Bool
  | .pref j q => (j, q) == x
  | .slice p _ => mentions x p
  | .concat ps => mentionsList x ps
  | .anon fields => mentionsFields x fields
  | _ => false
def mentionsList (x : String × String) : List Conn → Bool
  | [] => false
  | p :: ps => mentions x p || mentionsList x ps
def mentionsFields (x : String × String) : List (String × Conn) → Bool
  | [] => false
  | (_, p) :: ps => mentions x p || mentionsFields x ps
end

/-- A port is referenced if any connection of the module mentions it. -/
def Ctx.referenced (c : Ctx) (x : String × String) : Bool :=
  c.m.insts.any (fun i => i.conns.any (fun p => mentions x p.2))

def Ctx.neighbours (c : Ctx) (x : String × String) : List (String × String) :=
  (match c.direct x with | some (.pref j q) => [(j, q)] | _ => []) ++
  c.nodes.filter (fun y => match c.direct y with
    | some (.pref j q) => (j, q) == x
    | _ => false)

/-- The reference-connected group of a node (breadth-first, bounded by the number of nodes). -/
def Ctx.component (c : Ctx) (x : String × String) : List (String × String) :=
  let rec go (fuel : Nat) (seen frontier : List (String × String)) : List (String × String) :=
    match fuel, frontier with
    | 0, _ => seen
    | _, [] => seen
    | fuel + 1, y :: rest =>
      let new := (c.neighbours y).filter (fun z => !(seen.contains z) && !(rest.contains z))
      go fuel (seen ++ new) (rest ++ new)
  go (c.nodes.length + 2) [x] [x]

def nodeLt (a b : String × String) : Bool := a.1 < b.1 || (a.1 == b.1 && a.2 < b.2)

def minNode : List (String × String) → (String × String)
  | [] => ("", "")
  | x :: xs => xs.foldl (fun m y => if nodeLt y m then y else m) x

def sigAtoms (n : String) (w : Nat) : List Atom := (List.range w).map (fun i => ⟨"s:" ++ n, [], i⟩)

/-- Select by (non-negative) positions. -/
def pickAtoms (bs : List Atom) (ks : List Int) : R (List Atom) :=
  ks.mapM (fun (k : Int) => if k < 0 then throw "negative bit" else
    match bs[k.toNat]? with
    | some b => pure b
    | none => throw "bit out of range")

mutual
/-- The atoms a connectable stands for, at member path `path`. -/
def bitsOf (c : Ctx) : Nat → Conn → List String → R (List Atom)
  | 0, _, _ => throw "reference cycle"
  | fuel + 1, cn, path =>
    match cn with
    | .sig n =>
      if path ≠ [] then throw s!"signal {n} has no member {path}" else
      match c.m.sigs.find? (fun s => s.1 == n) with
      | some s => pure (sigAtoms n s.2.1)
      | none => throw s!"{c.m.name}: unknown signal {n}"
    | .slice p idx => do
      if path ≠ [] then throw "slice has no members"
      let bs ← bitsOf c fuel p []
      let inner ← match sliceInner bs.length idx with
        | .ok i => pure i
        | .error (.reject why) => throw s!"bad index: {why}"
      pickAtoms bs inner.bits
    | .concat ps => do
      if path ≠ [] then throw "concat has no members"
      let parts ← bitsOfList c fuel ps
      pure parts
    | .bundle b =>
      match c.m.bundles.find? (fun x => x.1 == b) with
      | none => throw s!"{c.m.name}: unknown bundle instance {b}"
      | some x => do
        let t ← bundleTree c.d x.2.1
        match (leavesOf t).find? (fun l => l.1 == path) with
        | some l => pure ((List.range l.2).map (fun i => ⟨"b:" ++ b, path, i⟩))
        | none => throw s!"bundle {b} has no leaf member {path}"
    | .bref root p0 => bitsOf c fuel (.bundle root) (p0 ++ path)
    | .anon fields =>
      match path with
      | [] => throw "anonymous bundle used as a scalar"
      | f :: rest =>
        match fields.find? (fun x => x.1 == f) with
        | some x => bitsOf c fuel x.2 rest
        | none => throw s!"anonymous bundle has no member {f}"
    | .noconn => throw "no-connect inside an expression"
    | .orphan _ => throw "signal owned by another module or by none"
    | .pref j q => do
      let comp := c.component (j, q)
      let srcs := comp.filterMap (fun y => match c.direct y with
        | some (.pref _ _) => none
        | some .noconn => none
        | some s => some s
        | none => none)
      let ncs := comp.filter (fun y => match c.direct y with | some .noconn => true | _ => false)
      -- a port tied to a no-connect has no net that anything else could refer to
      if !ncs.isEmpty then throw "no-connect referenced elsewhere"
      match srcs with
      | [s] => bitsOf c fuel s path
      | [] => do
        -- the group's own private net; its width is that of the referenced port leaf
        let inst ← c.inst j
        let ports ← iface c.d inst.target
        match ports.find? (fun p => p.1 == q && p.2.1 == path) with
        | some p =>
          let rep := minNode comp
          pure ((List.range p.2.2).map (fun i => ⟨"g:" ++ rep.1 ++ "." ++ rep.2, path, i⟩))
        | none => throw s!"instance {j} has no port {q} member {path}"
      | _ => throw s!"port group of {j}.{q} has several explicit connections"
def bitsOfList (c : Ctx) : Nat → List Conn → R (List Atom)
  | _, [] => pure []
  | fuel, p :: ps => do
    let a ← bitsOf c fuel p []
    let b ← bitsOfList c fuel ps
    pure (a ++ b)
end

mutual
/-- the member paths an anonymous bundle binds (a member that is itself an anonymous bundle contributes its own) -/
def anonPaths : Conn → List (List String)
  | .anon fields => anonPathsFields fields
  | _ => [[]]
def anonPathsFields : List (String × Conn) → List (List String)
  | [] => []
  | (f, v) :: rest => (anonPaths v).map (f :: ·) ++ anonPathsFields rest
end

mutual
/-- the members of an anonymous bundle that are not anonymous bundles themselves, each with the path it is given under -/
def anonMembers : Conn → List (List String × Conn)
  | .anon fields => anonMembersFields fields
  | c => [([], c)]
def anonMembersFields : List (String × Conn) → List (List String × Conn)
  | [] => []
  | (f, v) :: rest => (anonMembers v).map (fun x => (f :: x.1, x.2)) ++ anonMembersFields rest
end

/-- Is the connection bundle-like (for `Pair` members)? -/
def Conn.bundleLike : Conn → Bool
  | .bundle _ => true
  | .anon _ => true
  | _ => false

def fuelFor (c : Ctx) : Nat := 4 * (c.nodes.length + 4) + 64

/-- The atoms on one port leaf of one element of an instance-like. -/
def elementBits (c : Ctx) (i : Inst) (port : String) (path : List String) (w : Nat)
    (elem : Option (Nat ⊕ String)) : R (List Atom) := do
  let direct := (i.conns.find? (fun p => p.1 == port)).map (·.2)
  -- a port that is neither connected nor referenced by anything is unconnected
  if direct.isNone && !(c.referenced (i.name, port)) then
    throw s!"{c.m.name}.{i.name}: port {port} unconnected"
  let whole ← match elem, direct with
    | _, some .noconn =>
      -- private to this one port (of every element); nothing else may refer to the port
      if (c.component (i.name, port)).length > 1 then throw "no-connect referenced elsewhere"
      else
        -- every element of an array or pair ends on a net of its own
        let who := match elem with
          | some (.inl k) => i.name ++ "_" ++ toString k
          | some (.inr member) => i.name ++ "_" ++ member
          | none => i.name
        pure ((List.range w).map (fun k => (⟨"n:" ++ who ++ "." ++ port, path, k⟩ : Atom)))
    | some (.inr member), some cn =>
      if cn.bundleLike then bitsOf c (fuelFor c) cn (path ++ [member])
      else bitsOf c (fuelFor c) (.pref i.name port) path
    | _, _ => bitsOf c (fuelFor c) (.pref i.name port) path
  match elem, i.kind with
  | some (.inl k), .array n =>
    if whole.length = w then pure whole
    else if whole.length = n * w ∧ path = [] then pure ((whole.drop (k * w)).take w)
    else throw s!"{c.m.name}.{i.name}.{port}: width {whole.length} is neither {w} nor {n}*{w}"
  | _, _ =>
    if whole.length = w then pure whole
    else throw s!"{c.m.name}.{i.name}.{port}: width {whole.length} on a port of width {w}"

def portName (port : String) (path : List String) : String :=
  if path.isEmpty then port else Bundles.flatName port path

/-- Front-end: one source module as a flat module. -/
def toFMod (d : Design) (m : Module) : R FMod := do
  let c : Ctx := ⟨d, m⟩
  -- the module's own port bits
  let sigPorts := (m.sigs.filter (fun s => s.2.2)).flatMap (fun s =>
    (List.range s.2.1).map (fun i => ((⟨s.1, i⟩ : PortBit), (⟨"s:" ++ s.1, [], i⟩ : Atom))))
  let bunPorts ← (m.bundles.filter (fun b => b.2.2)).mapM (fun b => do
    let t ← bundleTree d b.2.1
    pure ((leavesOf t).flatMap (fun (p, w) =>
      (List.range w).map (fun i => ((⟨portName b.1 p, i⟩ : PortBit), (⟨"b:" ++ b.1, p, i⟩ : Atom))))))
  let mut leaf : List (Term × Atom) := []
  let mut children : List Child := []
  for i in m.insts do
    let ports ← iface d i.target
    -- connections to ports that do not exist
    for (p, _) in i.conns do
      if !(ports.any (fun x => x.1 == p)) then throw s!"{m.name}.{i.name}: no port {p}"
    -- members of an anonymous bundle that the bundle port does not have (an extra connection, through the bundle)
    for (p, cn) in i.conns do
      match cn, i.kind with
      | .anon fields, .pair ms =>
        -- on a `Pair`, the members of an anonymous bundle name the pair's instances
        for (f, _) in fields do
          if !(ms.contains f) then throw s!"{m.name}.{i.name}: the pair has no member {f}"
      | .bundle bn, .pair ms =>
        -- … and so do the members of a bundle instance: one the pair does not have would be dropped without notice
        match m.bundles.find? (fun b => b.1 == bn) with
        | some b =>
          let t ← bundleTree d b.2.1
          for (π, _) in leavesOf t do
            match π with
            | f :: _ => if !(ms.contains f) then throw s!"{m.name}.{i.name}: the pair has no member {f} (of bundle {bn})"
            | [] => pure ()
        | none => pure ()
      | .anon _, _ =>
        for π in anonPaths cn do
          if !(ports.any (fun x => x.1 == p && π.isPrefixOf x.2.1)) then
            throw s!"{m.name}.{i.name}: bundle port {p} has no member {π}"
        -- … nor may a member that is a bundle instance (or a reference to a sub-bundle) bring members of its own which the
        -- port's member of that name does not have
        for (π, mem) in anonMembers cn do
          let sub : Option (String × List String) := match mem with
            | .bundle b => some (b, [])
            | .bref root p0 => some (root, p0)
            | _ => none
          match sub with
          | none => pure ()
          | some (b, p0) =>
            match m.bundles.find? (fun x => x.1 == b) with
            | none => pure ()
            | some bd =>
              let t ← bundleTree d bd.2.1
              for (lp, _) in leavesOf t do
                if p0.isPrefixOf lp && p0 != lp then
                  let full := π ++ lp.drop p0.length
                  if !(ports.any (fun x => x.1 == p && x.2.1 == full)) then
                    throw s!"{m.name}.{i.name}: bundle port {p} has no member {full} (of {b})"
      | _, _ => pure ()
    let elems : List (String × Option (Nat ⊕ String)) := match i.kind with
      | .single => [(i.name, none)]
      | .array n => (List.range n).map (fun k => (i.name ++ "_" ++ toString k, some (.inl k)))
      | .pair ms => ms.map (fun mem => (i.name ++ "_" ++ mem, some (.inr mem)))
    (match i.kind with | .array 0 => throw s!"{m.name}.{i.name}: empty array" | _ => pure ())
    for (ename, elem) in elems do
      let mut portmap : List (PortBit × Atom) := []
      for (p, path, w) in ports do
        let bits ← elementBits c i p path w elem
        for (a, k) in bits.zipIdx do
          match i.target with
          | .leaf _ _ _ => leaf := leaf ++ [((⟨[ename], portName p path, k⟩ : Term), a)]
          | .module _ => portmap := portmap ++ [((⟨portName p path, k⟩ : PortBit), a)]
      match i.target with
      | .module n => children := children ++ [⟨ename, n, portmap⟩]
      | .leaf _ _ _ => pure ()
  pure { name := m.name, portBits := sigPorts ++ bunPorts.flatten, joins := [], leafTerms := leaf, children := children }

/-- Names of the modules instantiated (transitively) below `top`, including `top`. -/
def reachable (d : Design) (top : String) : List String :=
  let rec go (fuel : Nat) (seen frontier : List String) : List String :=
    match fuel, frontier with
    | 0, _ => seen
    | _, [] => seen
    | fuel + 1, x :: rest =>
      let kids := match d.modules.find? (fun m => m.name == x) with
        | some m => m.insts.filterMap (fun (i : Inst) => match i.target with | Target.module n => some n | _ => none)
        | none => []
      let new := (kids.filter (fun k => !(seen.contains k) && !(rest.contains k))).eraseDups
      go fuel (seen ++ new) (rest ++ new)
  go (d.modules.length + 1) [top] [top]

/-- `Sem.src`: the partition of observable bits the designer's connections induce.
    Only the modules below `top` are part of the design that is being exported. -/
def semSrc (d : Design) (top : String) : R (List (List String)) := do
  let used := reachable d top
  let usedMods := d.modules.filter (fun m => used.contains m.name)
  -- exported module names: unnamed or clashing modules cannot be serialised
  let labels := usedMods.map (fun m => if m.labelled then m.label else some m.name)
  if labels.any (·.isNone) then throw "unnamed module"
  if (labels.filterMap id).eraseDups.length ≠ labels.length then throw "two modules share one name"
  let mods ← usedMods.mapM (toFMod d)
  partition mods top

/-- Leaf devices below `top`: (instance path, kind, parameters). Depth-bounded (no recursion on ill-formed cycles). -/
def devicesAux (d : Design) : Nat → String → List String → List (String × String × List (String × String))
  | 0, _, _ => []
  | fuel + 1, top, pre =>
    match d.modules.find? (fun m => m.name == top) with
    | none => []
    | some m => m.insts.flatMap (fun i =>
      let elems : List String := match i.kind with
        | .single => [i.name]
        | .array n => (List.range n).map (fun k => i.name ++ "_" ++ toString k)
        | .pair ms => ms.map (fun mem => i.name ++ "_" ++ mem)
      elems.flatMap (fun e => match i.target with
        | .leaf kind _ params => [("/".intercalate (pre ++ [e]), kind, params)]
        | .module n => devicesAux d fuel n (pre ++ [e])))

def devices (d : Design) (top : String) (pre : List String) : List (String × String × List (String × String)) :=
  devicesAux d (d.modules.length + 1) top pre

end Hdl21.Design
