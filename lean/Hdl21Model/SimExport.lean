/-
# Simulation input export (hdl21/sim/proto.py: to_proto, SimProtoExporter; hdl21/sim/data.py: is_tb)     — C17

Numbers are carried through the model as exact values (`Val`, a canonical text of the rational): the
exporter's only operation on them is "nearest float", which Lean's opaque `Float` cannot state; that
clause is checked against `fractions.Fraction` in the correspondence.
-/
namespace Hdl21.SimExport

abbrev Val := String

inductive Sweep
  | linear (start stop step : Val)
  | log (start stop : Val) (npts : Nat)
  | points (pts : List Val)
  deriving Repr, DecidableEq

/-- Analyses as the designer wrote them (`name = none`: unnamed) and as they are exported (every name `some`). -/
inductive An
  | op (name : Option String)
  | dc (name : Option String) (var : String) (sweep : Sweep)
  | ac (name : Option String) (start stop : Val) (npts : Nat)
  | tran (name : Option String) (tstop : Val) (tstep : Option Val)
  | noise (name : Option String) (outp outn src : String) (start stop : Val) (npts : Nat)
  | custom (name : Option String) (cmd : String)
  | sweep (name : Option String) (var : String) (sweep : Sweep) (inner : List An)
  | monte (name : Option String) (npts : Nat) (inner : List An)
  deriving Repr

inductive SaveTarget
  | modeAll | modeNone
  | signal (name : String)            -- a Signal: its name
  | signals (names : List String)     -- a list of Signals
  | name (s : String)
  | names (l : List String)
  deriving Repr, DecidableEq

inductive SaveOut
  | mode (all : Bool)
  | signal (s : String)
  deriving Repr, DecidableEq

inductive Ctrl (σ : Type)
  | include (path : String)
  | lib (path sect : String)
  | save (t : σ)
  | meas (analysisType name expr : String)
  | param (name : String) (val : String)
  | literal (text : String)
  deriving Repr, DecidableEq

inductive Attr
  | an (a : An)
  | ctrl (c : Ctrl SaveTarget)
  | opt (name : String) (value : String)
  deriving Repr

structure Sim where
  /-- widths of the testbench's ports after elaboration -/
  tbPorts : List Nat
  tbName : String
  attrs : List Attr

structure SimInput where
  top : String
  an : List An
  ctrls : List (Ctrl SaveOut)
  opts : List (String × String)
  deriving Repr

/-! ## names of unnamed analyses -/

def fmt (k : Nat) : String := "Analysis" ++ Nat.repr k

/-- `next_analysis_name`: the first `Analysis{j}`, j ≥ k, that the designer has not used. Returns j. -/
def next (user : List String) : Nat → Nat → Option Nat
  | 0, _ => none
  | fuel + 1, k => if fmt k ∈ user then next user fuel (k + 1) else some k

mutual
  def userNames : An → List String
    | .op n | .dc n _ _ | .ac n _ _ _ | .tran n _ _ | .noise n _ _ _ _ _ _ | .custom n _ => n.toList
    | .sweep n _ _ inner | .monte n _ inner => n.toList ++ userNamesL inner
  def userNamesL : List An → List String
    | [] => []
    | a :: r => userNames a ++ userNamesL r
end

/-- name slot of the node itself -/
def An.name : An → Option String
  | .op n | .dc n _ _ | .ac n _ _ _ | .tran n _ _ | .noise n _ _ _ _ _ _ | .custom n _
  | .sweep n _ _ _ | .monte n _ _ => n

/-- `analysis_name = an.name or self.next_analysis_name()` -/
def pickName (user : List String) (n : Option String) (k : Nat) : Option (String × Nat) :=
  match n with
  | some s => some (s, k)
  | none => (next user (user.length + 1) k).map fun j => (fmt j, j + 1)

mutual
  /-- `export_analysis`, threading the exporter's counter -/
  def exportAn (user : List String) : An → Nat → Option (An × Nat)
    | .op n, k => (pickName user n k).map fun (s, k) => (.op (some s), k)
    | .dc n v sw, k => (pickName user n k).map fun (s, k) => (.dc (some s) v sw, k)
    | .ac n a b c, k => (pickName user n k).map fun (s, k) => (.ac (some s) a b c, k)
    | .tran n a b, k => (pickName user n k).map fun (s, k) => (.tran (some s) a b, k)
    | .noise n a b c d e f, k => (pickName user n k).map fun (s, k) => (.noise (some s) a b c d e f, k)
    | .custom n c, k => (pickName user n k).map fun (s, k) => (.custom (some s) c, k)
    | .sweep n v sw inner, k =>
      match pickName user n k with
      | none => none
      | some (s, k) => (exportAns user inner k).map fun (inner', k) => (.sweep (some s) v sw inner', k)
    | .monte n npts inner, k =>
      match pickName user n k with
      | none => none
      | some (s, k) => (exportAns user inner k).map fun (inner', k) => (.monte (some s) npts inner', k)
  def exportAns (user : List String) : List An → Nat → Option (List An × Nat)
    | [], k => some ([], k)
    | a :: r, k =>
      match exportAn user a k with
      | none => none
      | some (a', k) => (exportAns user r k).map fun (r', k) => (a' :: r', k)
end

/-! ## controls, options, testbench -/

def exportSave : SaveTarget → SaveOut
  | .modeAll => .mode true
  | .modeNone => .mode false
  | .signal s => .signal s
  | .signals l => .signal (",".intercalate l)
  | .name s => .signal s
  | .names l => .signal (",".intercalate l)

def exportCtrl : Ctrl SaveTarget → Ctrl SaveOut
  | .include p => .include p
  | .lib p s => .lib p s
  | .save t => .save (exportSave t)
  | .meas a n e => .meas a n e
  | .param n v => .param n v
  | .literal t => .literal t

def analyses : List Attr → List An
  | [] => []
  | .an a :: r => a :: analyses r
  | _ :: r => analyses r

def ctrls : List Attr → List (Ctrl SaveTarget)
  | [] => []
  | .ctrl c :: r => c :: ctrls r
  | _ :: r => ctrls r

def opts : List Attr → List (String × String)
  | [] => []
  | .opt n v :: r => (n, v) :: opts r
  | _ :: r => opts r

/-- `is_tb`: exactly one port, and it is scalar -/
def isTb (ports : List Nat) : Bool := ports == [1]

/-- `SimProtoExporter.export`. `none`: raises. -/
def exportSim (s : Sim) : Option SimInput :=
  if !isTb s.tbPorts then none
  else
    let user := userNamesL (analyses s.attrs)
    (exportAns user (analyses s.attrs) 0).map fun (an, _) =>
      { top := s.tbName, an := an, ctrls := (ctrls s.attrs).map exportCtrl, opts := opts s.attrs }

/-! ## what the theorems talk about -/

mutual
  /-- all names, in export (pre-) order -/
  def slots : An → List (Option String)
    | .op n | .dc n _ _ | .ac n _ _ _ | .tran n _ _ | .noise n _ _ _ _ _ _ | .custom n _ => [n]
    | .sweep n _ _ inner | .monte n _ inner => n :: slotsL inner
  def slotsL : List An → List (Option String)
    | [] => []
    | a :: r => slots a ++ slotsL r
end

mutual
  /-- the analysis with every name removed: what must survive export unchanged -/
  def strip : An → An
    | .op _ => .op none
    | .dc _ v sw => .dc none v sw
    | .ac _ a b c => .ac none a b c
    | .tran _ a b => .tran none a b
    | .noise _ a b c d e f => .noise none a b c d e f
    | .custom _ c => .custom none c
    | .sweep _ v sw inner => .sweep none v sw (stripL inner)
    | .monte _ n inner => .monte none n (stripL inner)
  def stripL : List An → List An
    | [] => []
    | a :: r => strip a :: stripL r
end

/-- the naming, on the flat list of name slots -/
def assign (user : List String) : List (Option String) → Nat → Option (List String × Nat)
  | [], k => some ([], k)
  | some s :: r, k => (assign user r k).map fun (l, k) => (s :: l, k)
  | none :: r, k =>
    match next user (user.length + 1) k with
    | none => none
    | some j => (assign user r (j + 1)).map fun (l, k) => (fmt j :: l, k)

end Hdl21.SimExport
