/-
# Prefixed numbers (hdl21/prefix.py)                                   — C14, C13

Python `Decimal` values are modelled by their exact representation `(c, e)` = c · 10^e
(sign folded into `c`; the sign of zero, NaN and infinities are not modelled).  All
arithmetic is the *exact* Decimal arithmetic — which is what `prefix.py` computes once its
operations run in a context wide enough for the operands (`prefix.py:_exact`); the
correspondence harness compares every operation with the real code and with
`fractions.Fraction`.

A `Prefix` is modelled by its power-of-ten exponent; the table of the 21 legal prefixes is
regenerated from `/repo` (Generated/PrefixTable.lean).
-/
import Hdl21Model.Generated.PrefixTable
namespace Hdl21

structure Dec where
  c : Int
  e : Int
  deriving Repr, DecidableEq, Inhabited

structure Prefixed where
  number : Dec
  pre : Int          -- the prefix' exponent, e.g. -9 for NANO
  deriving Repr, DecidableEq, Inhabited

namespace Dec

/-- `d * Decimal(10) ** k` exactly as Python represents it: for `k ≥ 0` the power is the
    integer `10^k` (exponent 0), for `k < 0` it is `1E-k`. -/
def mulPow10 (d : Dec) (k : Int) : Dec :=
  if k ≥ 0 then ⟨d.c * 10 ^ k.toNat, d.e⟩ else ⟨d.c, d.e + k⟩

def neg (d : Dec) : Dec := ⟨-d.c, d.e⟩
def abs (d : Dec) : Dec := ⟨(d.c.natAbs : Int), d.e⟩
def mul (a b : Dec) : Dec := ⟨a.c * b.c, a.e + b.e⟩
/-- Exact Decimal addition: the result exponent is the smaller exponent. -/
def add (a b : Dec) : Dec :=
  let e := min a.e b.e
  ⟨a.c * 10 ^ (a.e - e).toNat + b.c * 10 ^ (b.e - e).toNat, e⟩
def sub (a b : Dec) : Dec := add a (neg b)

/-- `d.scaleb(k)` -/
def scaleb (d : Dec) (k : Int) : Dec := ⟨d.c, d.e + k⟩

/-- Round-half-even division `n / d` for `d > 0`. -/
def divHalfEven (n d : Int) : Int :=
  let q := n / d
  let r := n % d
  if 2 * r < d then q else if 2 * r > d then q + 1 else if q % 2 = 0 then q else q + 1

/-- `round(d, places)` in units of `10^-places` (Python: quantize, ROUND_HALF_EVEN). -/
def roundTo (d : Dec) (places : Nat) : Int :=
  let s := d.e + places
  if s ≥ 0 then d.c * 10 ^ s.toNat else divHalfEven d.c (10 ^ (-s).toNat)

/-- `int(d)`: truncation toward zero. -/
def toInt (d : Dec) : Int :=
  if d.e ≥ 0 then d.c * 10 ^ d.e.toNat else Int.tdiv d.c (10 ^ (-d.e).toNat)

/-- CPython's numeric hash modulus `2^61 - 1` and the inverse of 10 modulo it. -/
def hashP : Nat := 2305843009213693951
def inv10 : Nat := 2075258708292324556

/-- `pow(b, n, hashP)` by square-and-multiply. -/
def powMod (b : Nat) : Nat → Nat
  | 0 => 1
  | n + 1 => (powMod b n * b) % hashP

/-- `hash(Decimal)` for finite values (CPython `_pydecimal.Decimal.__hash__` / `_decimal`):
    `±(|c| · 10^e mod P)`, with `-1` mapped to `-2`. -/
def hash (d : Dec) : Int :=
  let expHash := if d.e ≥ 0 then powMod (10 % hashP) d.e.toNat else powMod inv10 (-d.e).toNat
  let h : Int := ((d.c.natAbs * expHash) % hashP : Nat)
  let ans := if d.c ≥ 0 then h else -h
  if ans = -1 then -2 else ans

end Dec

namespace Prefixed

def epsilon : Nat := 20

/-- `Prefixed.scale(prefix)` -/
def scale (p : Prefixed) (target : Int) : Prefixed :=
  ⟨p.number.mulPow10 (p.pre - target), target⟩

/-- Is `c² · 10^a > 10^b`?  (`a`, `b` integers) — the exact form of
    `log10|c| + a/2 > b/2`. -/
def sqGt (c : Int) (a b : Int) : Bool :=
  let lhs := c * c
  if a ≥ b then lhs * 10 ^ (a - b).toNat > 1 else lhs > 10 ^ (b - a).toNat

/-- `Prefix.closest(log10|number| + prefix)`: `min` over the members in declaration order
    keeps the first of equally close candidates; a later candidate `q` replaces the best
    `b` only if the value is strictly closer to `q`, i.e. lies above the midpoint
    `(b+q)/2`:  `2·log10|c| + 2(e+pre) > b + q`. -/
def closestFor (num : Dec) (pre : Int) : Int :=
  match prefixValues with
  | [] => 0
  | first :: rest =>
    rest.foldl (fun best q => if sqGt num.c (2 * (num.e + pre)) (best + q) then q else best) first

/-- `Prefix.closest(k)` for an integer exponent `k` (used by `e(targ)`): first minimal
    `|value - k|`. -/
def closestInt (k : Int) : Int :=
  match prefixValues with
  | [] => 0
  | first :: rest =>
    rest.foldl (fun best q => if (q - k).natAbs < (best - k).natAbs then q else best) first

/-- `Prefixed.scale()` with no argument. -/
def scaleAuto (p : Prefixed) : Prefixed := p.scale (closestFor p.number p.pre)

def neg (p : Prefixed) : Prefixed := ⟨p.number.neg, p.pre⟩
def abs (p : Prefixed) : Prefixed := ⟨p.number.abs, p.pre⟩

/-- `_add` -/
def addRaw (a b : Prefixed) : Prefixed :=
  if a.pre = b.pre then ⟨a.number.add b.number, a.pre⟩
  else
    let s := if a.pre < b.pre then a.pre else b.pre
    ⟨(a.scale s).number.add (b.scale s).number, s⟩
def subRaw (a b : Prefixed) : Prefixed :=
  if a.pre = b.pre then ⟨a.number.sub b.number, a.pre⟩
  else
    let s := if a.pre < b.pre then a.pre else b.pre
    ⟨(a.scale s).number.sub (b.scale s).number, s⟩
def add (a b : Prefixed) : Prefixed := (addRaw a b).scaleAuto
def sub (a b : Prefixed) : Prefixed := (subRaw a b).scaleAuto

/-- `(a.number * b.number * a.prefix * b.prefix).scale()` -/
def mul (a b : Prefixed) : Prefixed :=
  let n := a.number.mul b.number
  let targ := a.pre + b.pre
  let sym := closestInt targ
  let p : Prefixed := ⟨n.mulPow10 (targ - sym), sym⟩
  p.scaleAuto

/-- `_comparable`: both numbers scaled to the smaller prefix and rounded to 20 places,
    in units of `10^-20` of that prefix. -/
def comparable (a b : Prefixed) : Int × Int :=
  let s := if a.pre < b.pre then a.pre else b.pre
  ((a.scale s).number.roundTo epsilon, (b.scale s).number.roundTo epsilon)

def lt (a b : Prefixed) : Bool := (comparable a b).1 < (comparable a b).2
def le (a b : Prefixed) : Bool := (comparable a b).1 ≤ (comparable a b).2
def eq (a b : Prefixed) : Bool := (comparable a b).1 = (comparable a b).2
def ne (a b : Prefixed) : Bool := (comparable a b).1 ≠ (comparable a b).2
def gt (a b : Prefixed) : Bool := (comparable a b).1 > (comparable a b).2
def ge (a b : Prefixed) : Bool := (comparable a b).1 ≥ (comparable a b).2

/-- `Prefixed._value()` -/
def value (p : Prefixed) : Dec := p.number.scaleb p.pre
def hash (p : Prefixed) : Int := p.value.hash
def toInt (p : Prefixed) : Int := p.value.toInt

end Prefixed
end Hdl21
