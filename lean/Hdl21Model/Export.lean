/-
# Export of connection targets (hdl21/proto/exporting.py:export_connection_target/export_slice/export_concat)  — C01, C06

After `SliceResolver` every connection is a signal, a slice taken directly from a signal, or a
concatenation of those.  `export_slice` writes the inclusive `top`, `export_concat` writes the parts
most-significant first (i.e. in reverse of hdl21's order).
-/
import Hdl21Model.Conn
import Hdl21Model.Pkg
namespace Hdl21
open Hdl21.Pkg

mutual
def exportTarget : SConn → Except Err PTarget
  | .sig n _ => .ok (.sig n)
  | .slice (.sig n w) idx => do
      let inner ← sliceInner w idx
      if inner.step ≠ 1 then .error (.reject "non-unit step")
      else .ok (.slice n (inner.top - 1).toNat inner.bot.toNat)
  | .slice (.slice _ _) _ => .error (.reject "parent is not a concrete Signal")
  | .slice (.concat _) _ => .error (.reject "parent is not a concrete Signal")
  | .concat ps => do
      let ts ← exportParts ps
      .ok (.concat ts)
/-- `for part in reversed(concat.parts)` -/
def exportParts : List SConn → Except Err (List PTarget)
  | [] => .ok []
  | p :: ps => do
      let t ← exportTarget p
      let ts ← exportParts ps
      .ok (ts ++ [t])
end

mutual
/-- Every signal named in the connectable is declared with that width. -/
def sigsOK (ws : List (String × Nat)) : SConn → Bool
  | .sig n w => lookup n ws == some w
  | .slice p _ => sigsOK ws p
  | .concat ps => sigsOKList ws ps
def sigsOKList (ws : List (String × Nat)) : List SConn → Bool
  | [] => true
  | p :: ps => sigsOK ws p && sigsOKList ws ps
end

end Hdl21
