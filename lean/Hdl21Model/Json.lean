/-
JSON helpers for the line-protocol driver (no Mathlib; `Lean.Data.Json` only).
-/
import Lean.Data.Json
import Hdl21Model.Conn
open Lean
namespace Hdl21.J

def getInt (j : Json) (k : String) : Except String Int := do
  let v ← j.getObjVal? k
  v.getInt?

def getNat (j : Json) (k : String) : Except String Nat := do
  let v ← j.getObjVal? k
  v.getNat?

def getStr (j : Json) (k : String) : Except String String := do
  let v ← j.getObjVal? k
  v.getStr?

def getBool (j : Json) (k : String) : Except String Bool := do
  let v ← j.getObjVal? k
  v.getBool?

def getArr (j : Json) (k : String) : Except String (Array Json) := do
  let v ← j.getObjVal? k
  v.getArr?

def getOptInt (j : Json) (k : String) : Except String (Option Int) :=
  match j.getObjVal? k with
  | .ok .null => .ok none
  | .ok v => do let i ← v.getInt?; .ok (some i)
  | .error _ => .ok none

def getOptStr (j : Json) (k : String) : Except String (Option String) :=
  match j.getObjVal? k with
  | .ok .null => .ok none
  | .ok v => do let i ← v.getStr?; .ok (some i)
  | .error _ => .ok none

def optInt : Option Int → Json
  | none => .null
  | some i => toJson i

def parseIndex (j : Json) : Except String Index :=
  match j.getObjVal? "i" with
  | .ok v => do let i ← v.getInt?; .ok (.int i)
  | .error _ => do
    let s ← getOptInt j "s"
    let e ← getOptInt j "e"
    let st ← getOptInt j "st"
    .ok (.range s e st)

def indexJson : Index → Json
  | .int i => Json.mkObj [("i", toJson i)]
  | .range s e st => Json.mkObj [("s", optInt s), ("e", optInt e), ("st", optInt st)]

partial def parseSConn (j : Json) : Except String SConn := do
  let k ← getStr j "k"
  match k with
  | "sig" => do
    let n ← getStr j "n"
    let w ← getNat j "w"
    .ok (.sig n w)
  | "slice" => do
    let p ← j.getObjVal? "p"
    let p ← parseSConn p
    let i ← j.getObjVal? "i"
    let i ← parseIndex i
    .ok (.slice p i)
  | "concat" => do
    let ps ← getArr j "ps"
    let ps ← ps.toList.mapM parseSConn
    .ok (.concat ps)
  | _ => .error s!"bad sconn kind {k}"

partial def sconnJson : SConn → Json
  | .sig n w => Json.mkObj [("k", "sig"), ("n", n), ("w", toJson w)]
  | .slice p i => Json.mkObj [("k", "slice"), ("p", sconnJson p), ("i", indexJson i)]
  | .concat ps => Json.mkObj [("k", "concat"), ("ps", Json.arr (ps.map sconnJson).toArray)]

def bitsJson (bs : List Bit) : Json :=
  Json.arr (bs.map (fun (n, i) => Json.arr #[Json.str n, toJson i])).toArray

def intsJson (bs : List Int) : Json := Json.arr (bs.map toJson).toArray

def innerJson (s : Inner) : Json :=
  Json.mkObj [("top", toJson s.top), ("bot", toJson s.bot), ("step", toJson s.step),
              ("width", toJson s.width), ("bits", intsJson s.bits)]

def exceptJson {α} (f : α → Json) : Except Err α → Json
  | .ok a => Json.mkObj [("ok", f a)]
  | .error (.reject why) => Json.mkObj [("reject", why)]

end Hdl21.J
