/-
# Module-level import and export (hdl21/proto/importing.py:import_module/import_instance/import_ports_and_signals,
  hdl21/proto/exporting.py:export_module/export_instance/export_port)                                              — C11

`HModule` mirrors what an imported `hdl21.Module` holds: its *internal* signals and its *ports* in two separate
insertion-ordered dicts (`Module.add` files a Signal by its visibility), and its instances with their connections as
hdl21 connectables.  The exporter writes the internal signals first, then the ports; the importer reads one list, marks
the ports, and adds everything in that order.  Parameter values and the instance's target are carried through unchanged
(their value-level round trip is C13's business, the table parts are `tables_roundtrip`).
-/
import Hdl21Model.Import
import Hdl21Model.Generated.PortDirMaps
namespace Hdl21.RoundTrip
open Hdl21 Hdl21.Pkg

structure HSig where
  name : String
  width : Nat
  dir : Option String        -- `some d`: Visibility.PORT with PortDir `d`; `none`: Visibility.INTERNAL
  deriving Repr, DecidableEq

structure HInst where
  name : String
  ref : PRef
  params : List (String × String)
  conns : List (String × SConn)

structure HModule where
  name : String
  signals : List HSig
  ports : List HSig
  instances : List HInst

def lookupS (k : String) : List (String × String) → Option String
  | [] => none
  | (a, b) :: rest => if a = k then some b else lookupS k rest

/-- `signals[pport.signal].direction = …` for every port in turn: the last entry naming the signal wins -/
def portDirOf : List (String × String) → String → Option String
  | [], _ => none
  | (s, d) :: rest, n =>
    match portDirOf rest n with
    | some d' => some d'
    | none => if s = n then some d else none

def importSig (ports : List (String × String)) (sw : String × Nat) : Except String HSig :=
  match portDirOf ports sw.1 with
  | none => .ok ⟨sw.1, sw.2, none⟩
  | some d =>
    match lookupS d importDirMap with
    | some hd => .ok ⟨sw.1, sw.2, some hd⟩
    | none => .error "ValueError: port direction"

def importSigList (ports : List (String × String)) : List (String × Nat) → Except String (List HSig)
  | [] => .ok []
  | sw :: rest =>
    match importSig ports sw, importSigList ports rest with
    | .ok s, .ok r => .ok (s :: r)
    | .error e, _ => .error e
    | _, .error e => .error e

/-- `import_ports_and_signals` -/
def importSigs (p : PModule) : Except String (List HSig) :=
  if p.ports.all (fun q => (lookup q.1 p.signals).isSome) then importSigList p.ports p.signals
  else .error "Port missing Signal"

def importConns (ports : List String) (ws : List (String × Nat)) : List (String × PTarget) → Except String (List (String × SConn))
  | [] => .ok []
  | (pn, t) :: rest =>
    if pn ∈ ports then
      match importConns ports ws rest with
      | .ok r => .ok ((pn, importTarget ws t) :: r)
      | .error e => .error e
    else .error s!"Invalid Port {pn}"

/-- `import_instance` + the connection loop of `import_module`; `ctx` gives the port names of what a reference resolves to
    (an earlier module of the package, a declared external module, a primitive) or `none` when it is undefined -/
def importInst (ctx : PRef → Option (List String)) (ws : List (String × Nat)) (pi : PInst) : Except String HInst :=
  match ctx pi.ref with
  | none => .error "undefined Module"
  | some ports =>
    match pi.ref, pi.params with
    | .loc _, _ :: _ => .error "does not accept Parameters"
    | _, _ =>
      match importConns ports ws pi.conns with
      | .ok cs => .ok ⟨pi.name, pi.ref, pi.params, cs⟩
      | .error e => .error e

def importInsts (ctx : PRef → Option (List String)) (ws : List (String × Nat)) : List PInst → Except String (List HInst)
  | [] => .ok []
  | pi :: rest =>
    match importInst ctx ws pi, importInsts ctx ws rest with
    | .ok i, .ok r => .ok (i :: r)
    | .error e, _ => .error e
    | _, .error e => .error e

/-- `import_module`: every signal is `module.add`ed in the order of `pmod.signals`: internal ones into `signals`, ports into `ports` -/
def importModule (ctx : PRef → Option (List String)) (p : PModule) : Except String HModule :=
  match importSigs p, importInsts ctx p.signals p.instances with
  | .ok sigs, .ok insts => .ok ⟨p.name, sigs.filter (·.dir.isNone), sigs.filter (·.dir.isSome), insts⟩
  | .error e, _ => .error e
  | _, .error e => .error e

/-! ## export -/

def exportPorts : List HSig → Except Err (List (String × String))
  | [] => .ok []
  | s :: rest =>
    match s.dir.bind (lookupS · exportDirMap), exportPorts rest with
    | some d, .ok r => .ok ((s.name, d) :: r)
    | none, _ => .error (.reject "Invalid PortDir")
    | _, .error e => .error e

def exportConns : List (String × SConn) → Except Err (List (String × PTarget))
  | [] => .ok []
  | (pn, c) :: rest =>
    match exportTarget c, exportConns rest with
    | .ok t, .ok r => .ok ((pn, t) :: r)
    | .error e, _ => .error e
    | _, .error e => .error e

def exportInsts : List HInst → Except Err (List PInst)
  | [] => .ok []
  | i :: rest =>
    match exportConns i.conns, exportInsts rest with
    | .ok cs, .ok r => .ok (⟨i.name, i.ref, i.params, cs⟩ :: r)
    | .error e, _ => .error e
    | _, .error e => .error e

/-- `export_module`: `for sig in list(module.signals.values()) + list(module.ports.values())`, then the ports, then the instances -/
def exportModule (h : HModule) : Except Err PModule :=
  match exportPorts h.ports, exportInsts h.instances with
  | .ok ports, .ok insts => .ok ⟨h.name, (h.signals ++ h.ports).map (fun s => (s.name, s.width)), ports, insts⟩
  | .error e, _ => .error e
  | _, .error e => .error e

/-! ## the shape of an exported module -/

def isPort (p : PModule) (n : String) : Bool := p.ports.any (·.1 == n)

def connsOK (ports : List String) (ws : List (String × Nat)) : List (String × PTarget) → Bool
  | [] => true
  | (pn, t) :: rest => decide (pn ∈ ports) && wfTarget ws t && connsOK ports ws rest

def instOK (ctx : PRef → Option (List String)) (ws : List (String × Nat)) (pi : PInst) : Bool :=
  match ctx pi.ref with
  | none => false
  | some ports =>
    (match pi.ref, pi.params with | .loc _, _ :: _ => false | _, _ => true) && connsOK ports ws pi.conns

/-- What `export_module` writes: signal names distinct, internal signals first and the ports after them in the order of the
    port list, directions of the enumeration, instances of defined things connected on existing ports to well-formed targets. -/
def Shape (ctx : PRef → Option (List String)) (p : PModule) : Bool :=
  decide ((p.signals.map (·.1)).Nodup) && decide ((p.ports.map (·.1)).Nodup) &&
  p.ports.all (fun q => decide (q.2 ∈ protoDirs)) &&
  decide (p.signals = p.signals.filter (fun sw => !isPort p sw.1) ++ p.signals.filter (fun sw => isPort p sw.1)) &&
  decide ((p.signals.filter (fun sw => isPort p sw.1)).map (·.1) = p.ports.map (·.1)) &&
  p.instances.all (instOK ctx p.signals)

/-- The other layout an exporter may choose for the signal list — the ports' signals first, in port order, the internal signals
    after them (the property fixes the port list, not the place of the internal signals): `exportModulePF` writes it, `ShapePF`
    describes it. Which of the two the code at hand uses is read off a probe module on every run. -/
def exportModulePF (h : HModule) : Except Err PModule :=
  match exportPorts h.ports, exportInsts h.instances with
  | .ok ports, .ok insts => .ok ⟨h.name, (h.ports ++ h.signals).map (fun s => (s.name, s.width)), ports, insts⟩
  | .error e, _ => .error e
  | _, .error e => .error e

def ShapePF (ctx : PRef → Option (List String)) (p : PModule) : Bool :=
  decide ((p.signals.map (·.1)).Nodup) && decide ((p.ports.map (·.1)).Nodup) &&
  p.ports.all (fun q => decide (q.2 ∈ protoDirs)) &&
  decide (p.signals = p.signals.filter (fun sw => isPort p sw.1) ++ p.signals.filter (fun sw => !isPort p sw.1)) &&
  decide ((p.signals.filter (fun sw => isPort p sw.1)).map (·.1) = p.ports.map (·.1)) &&
  p.instances.all (instOK ctx p.signals)

end Hdl21.RoundTrip
