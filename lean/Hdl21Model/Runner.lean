/-
# The elaboration runner (hdl21/elab/passes/base.py:ElabPass.elaborate_module_base,
#                         hdl21/elab/elab.py:Elaborator.elaborate)                        — C07, C08, C02

Modules are numbered so that a module's children (the targets of its instances) have smaller numbers
— elaboration rejects circular instantiation, so every design that is elaborated at all is such a DAG.
Passes are abstract: pass `k` applied to module `m` reads the current state of the whole design
(in practice: of `m` and of its children) and either returns `m`'s new state or raises.

State kept across calls, exactly as the code keeps it in process-global / per-object places:
* `σ m`       the module object itself (rewritten in place),
* `done k m`  `m ∈ pass_k.CLASS_LEVEL_CACHE.done`  (each pass *class* has its own set — the repeat
              passes at the end of the default list are their own classes),
* `failed m`  `m._elab_error is not None`.
There is no `pending` set in the model: it is emptied again on every exit path (`finally`), and its
only purpose — detecting cycles — is moot on a DAG.
-/
namespace Hdl21.Runner

structure Sys (S : Type) where
  children : Nat → List Nat
  /-- pass `k` on module `m`, reading the design state `σ`; `none` = the pass raises -/
  apply : Nat → (Nat → S) → Nat → Option S

structure RState (S : Type) where
  σ : Nat → S
  done : Nat → Nat → Bool
  failed : Nat → Bool

/-- `elaborate_module_base` for pass `k` on module `m`. Returns the state (which persists even when
    an exception propagates) and whether the visit completed. -/
def visit {S} (sys : Sys S) (k : Nat) : Nat → RState S → Nat → RState S × Bool
  | 0, st, _ => (st, false)
  | fuel + 1, st, m =>
    if st.failed m then (st, false)                       -- raise module._elab_error
    else if st.done k m then (st, true)
    else
      -- depth-first over the instances' targets; an exception stops the traversal
      let r := (sys.children m).foldl
        (fun (acc : RState S × Bool) c => if acc.2 then visit sys k fuel acc.1 c else acc) (st, true)
      if !r.2 then r
      else match sys.apply k r.1.σ m with
        | some s =>
          ({ r.1 with σ := fun x => if x = m then s else r.1.σ x,
                      done := fun j x => if j = k ∧ x = m then true else r.1.done j x }, true)
        | none => ({ r.1 with failed := fun x => if x = m then true else r.1.failed x }, false)

/-- `Elaborator.elaborate(tops)`: each pass in turn over all tops; the first exception aborts the call. -/
def elaborate {S} (sys : Sys S) (npasses fuel : Nat) (tops : List Nat) (st : RState S) : RState S × Bool :=
  (List.range npasses).foldl (fun (acc : RState S × Bool) k =>
    if acc.2 then tops.foldl (fun (a : RState S × Bool) t => if a.2 then visit sys k fuel a.1 t else a) acc else acc)
    (st, true)

/-- Transitive instantiation: `Reach sys m x` iff `x` is `m` or below it. -/
inductive Reach {S} (sys : Sys S) : Nat → Nat → Prop
  | refl (m) : Reach sys m m
  | step (m c x) : c ∈ sys.children m → Reach sys c x → Reach sys m x

end Hdl21.Runner
