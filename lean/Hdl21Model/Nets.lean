/-
# Net partitions of hierarchical designs — the shared solver            (C01, C04, C05, C06, C16, C19)

Both meanings of a design — `Sem.src` (what the designer wrote, Design.lean/Sem.lean) and `Sem.pkg`
(what the VLSIR netlisters read in the exported package, Pkg.lean) — are first brought into one flat
per-module form `FMod`: local *atoms*, which atom each port bit and each leaf-device terminal bit sits
on, identifications between atoms, and for every child instance which parent atom each child port bit
is tied to.  `solve` then composes the modules bottom-up into the partition of observable bits
(top-level port bits and leaf-device terminal bits, the latter with their instance path).

The solver is deliberately naive (lists, quadratic): it is a specification, executed on small designs.
-/
namespace Hdl21.Nets

/-- A local atom of a module: tagged name, member path, bit index. -/
structure Atom where
  tag : String
  path : List String
  idx : Nat
  deriving Repr, DecidableEq, BEq, Inhabited

/-- A port bit of a module: port name (member path already folded into the name), bit index. -/
structure PortBit where
  port : String
  idx : Nat
  deriving Repr, DecidableEq, BEq, Inhabited

/-- A leaf-device terminal bit: instance path (outermost first), port, bit index. -/
structure Term where
  path : List String
  port : String
  idx : Nat
  deriving Repr, DecidableEq, BEq, Inhabited

structure Child where
  inst : String
  target : String
  portmap : List (PortBit × Atom)
  deriving Repr, Inhabited

structure FMod where
  name : String
  portBits : List (PortBit × Atom)
  joins : List (Atom × Atom)
  leafTerms : List (Term × Atom)
  children : List Child
  deriving Repr, Inhabited

/-- One net of a module, as seen from outside: its port bits and the leaf terminals on it. -/
structure Net where
  ports : List PortBit
  terms : List Term
  deriving Repr, Inhabited

abbrev Summary := List Net

/-! ### naive union-find over atom lists -/

def findClass (cs : List (List Atom)) (a : Atom) : Option (List Atom) :=
  cs.find? (fun c => c.contains a)

/-- Make sure `a` is in some class. -/
def touch (cs : List (List Atom)) (a : Atom) : List (List Atom) :=
  if cs.any (fun c => c.contains a) then cs else [a] :: cs

def join (cs : List (List Atom)) (a b : Atom) : List (List Atom) :=
  let cs := touch (touch cs a) b
  match findClass cs a, findClass cs b with
  | some ca, some cb =>
    if ca.contains b then cs
    else (ca ++ cb) :: cs.filter (fun c => !(c.contains a) && !(c.contains b))
  | _, _ => cs

def joinAll (cs : List (List Atom)) : List Atom → List (List Atom)
  | [] => cs
  | [a] => touch cs a
  | a :: b :: rest => joinAll (join cs a b) (b :: rest)

/-- Compose one module given the summaries of the modules below it. -/
def solveMod (below : List (String × Summary)) (m : FMod) : Except String Summary := do
  -- 1. atoms and explicit identifications
  let mut cs : List (List Atom) := []
  for (_, a) in m.portBits do cs := touch cs a
  for (_, a) in m.leafTerms do cs := touch cs a
  for (a, b) in m.joins do cs := join cs a b
  -- 2. children: every net of a child glues the parent atoms tied to its port bits
  let mut attached : List (Atom × Term) := m.leafTerms.map (fun (t, a) => (a, t))
  let mut floating : List (List Term) := []
  for ch in m.children do
    let some sub := (below.find? (fun p => p.1 == ch.target)).map (·.2)
      | throw s!"instance {ch.inst} of undefined module {ch.target}"
    for net in sub do
      let atoms := net.ports.filterMap (fun pb => (ch.portmap.find? (fun p => p.1 == pb)).map (·.2))
      let terms := net.terms.map (fun t => { t with path := ch.inst :: t.path })
      match atoms with
      | [] => if terms.isEmpty then pure () else floating := terms :: floating
      | a :: _ =>
        cs := joinAll cs atoms
        attached := attached ++ terms.map (fun t => (a, t))
  -- 3. read off the nets
  let nets : List Net := cs.map (fun c =>
    { ports := (m.portBits.filter (fun p => c.contains p.2)).map (·.1)
      terms := (attached.filter (fun p => c.contains p.1)).map (·.2) })
  let nets := nets ++ floating.map (fun ts => { ports := [], terms := ts })
  pure (nets.filter (fun n => !(n.ports.isEmpty && n.terms.isEmpty)))

/-- Compose a list of modules given children-first. -/
def solveAll (mods : List FMod) : Except String (List (String × Summary)) :=
  mods.foldlM (fun acc m => do
    let s ← solveMod acc m
    pure (acc ++ [(m.name, s)])) []

/-! ### canonical form -/

def termStr (t : Term) : String := "/".intercalate t.path ++ ":" ++ t.port ++ "[" ++ toString t.idx ++ "]"
def portStr (p : PortBit) : String := p.port ++ "[" ++ toString p.idx ++ "]"

def insertSorted (s : String) : List String → List String
  | [] => [s]
  | x :: xs => if s < x then s :: x :: xs else if s = x then x :: xs else x :: insertSorted s xs

def sortStrs (l : List String) : List String := l.foldl (fun acc s => insertSorted s acc) []

def insertSortedL (s : List String) : List (List String) → List (List String)
  | [] => [s]
  | x :: xs => if (s.head?.getD "") < (x.head?.getD "") then s :: x :: xs else x :: insertSortedL s xs

/-- The partition of observable bits of module `top`: sorted classes of sorted strings. -/
def partition (mods : List FMod) (top : String) : Except String (List (List String)) := do
  let all ← solveAll mods
  let some s := (all.find? (fun p => p.1 == top)).map (·.2) | throw s!"no top module {top}"
  let classes := s.map (fun n => sortStrs (n.ports.map portStr ++ n.terms.map termStr))
  pure (classes.foldl (fun acc c => insertSortedL c acc) [])

end Hdl21.Nets
