/-
# Iteration over back-reference sets (hdl21/portref.py:ordered)                         — C12

Python `set`s of `PortRef`s iterate in an order that depends on memory addresses and on the string
hash seed.  In the model a set is a list in an *arbitrary* (adversarially permuted) order.  Every pass
that rewrites connections while iterating over such a set goes through `ordered`, which sorts by the
key `(instance name, port name)` — a key that identifies the reference (`PortRef.__eq__`) because
instance names are unique within a module.
-/
import Mathlib.Data.List.Sort
namespace Hdl21.Order

/-- `sorted(portrefs, key=...)`: insertion sort by key (any stable sort gives the same list when keys are distinct). -/
def ordered {α κ : Type} [LinearOrder κ] (key : α → κ) (l : List α) : List α :=
  l.insertionSort (fun a b => key a ≤ key b)

end Hdl21.Order
