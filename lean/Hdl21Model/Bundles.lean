/-
# Bundle flattening (hdl21/elab/passes/flatten_bundles.py:flatten_bundle_inst_helper,
#                    replace_bundle_inst, replace_bundle_conn; hdl21/signal.py:PortDir.flipped)   — C10
-/
import Hdl21Model.Generated.PortDir
namespace Hdl21.Bundles

/-- A leaf signal of a bundle definition. `src`/`dest` name roles. -/
structure Leaf where
  name : String
  width : Nat
  isPort : Bool            -- declared with port visibility (Input/Output/Inout/Port)
  dir : Dir                -- its declared direction (NONE for plain Signals)
  src : Option String
  dest : Option String
  deriving Repr, DecidableEq, Inhabited

/-- A bundle definition tree: leaf signals, then sub-bundle instances
    `(instance name, flipped flag, role, definition)`. -/
inductive BTree where
  | node (sigs : List Leaf) (subs : List (String × Bool × Option String × BTree))
  deriving Repr, Inhabited

/-- A flattened scalar signal. -/
structure Flat where
  path : List String       -- member path below the bundle instance
  width : Nat
  isPort : Bool
  dir : Dir
  deriving Repr, DecidableEq, Inhabited

/-- The direction/visibility decision of `flatten_bundle_inst_helper` for one leaf. -/
def leafOut (isPort flip : Bool) (role : Option String) (l : Leaf) : Flat :=
  if isPort then
    let dir :=
      if l.isPort then (if flip then l.dir.flipped else l.dir)
      else match role with
        | none => Dir.none
        | some r => if some r = l.src then Dir.output else if some r = l.dest then Dir.input else Dir.none
    ⟨[l.name], l.width, true, dir⟩
  else ⟨[l.name], l.width, false, Dir.none⟩

mutual
/-- `flatten_bundle_inst_helper`: own signals first, then each sub-bundle's, in definition order. -/
def flatten (isPort flip : Bool) (role : Option String) : BTree → List Flat
  | .node sigs subs => sigs.map (leafOut isPort flip role) ++ flattenSubs isPort flip subs
def flattenSubs (isPort flip : Bool) : List (String × Bool × Option String × BTree) → List Flat
  | [] => []
  | (n, f, r, t) :: rest =>
    (flatten isPort (if f then !flip else flip) r t).map (fun x => { x with path := n :: x.path })
      ++ flattenSubs isPort flip rest
end

/-- `Path.to_name` + the instance-name prefix used by `replace_bundle_inst`. -/
def flatName (inst : String) (path : List String) : String :=
  "_".intercalate [inst, "_".intercalate path]

/-! ### The documented rule, stated per leaf path (the specification) -/

/-- README rule for the direction of the flattened port of a leaf reached through
    `parity` flips (odd = `true`) under an instance whose role is `role`. -/
def dirRule (l : Leaf) (parity : Bool) (role : Option String) : Dir :=
  if l.isPort then
    match l.dir, parity with
    | .input, true => .output
    | .output, true => .input
    | d, _ => d
  else match role with
    | none => .none
    | some r => if some r = l.src then .output else if some r = l.dest then .input else .none

mutual
/-- Declarative lookup: the leaf at `path`, with the parity of flips accumulated on the way and
    the role of the instance whose definition declares it. -/
def leafAt (flip : Bool) (role : Option String) : BTree → List String → Option (Leaf × Bool × Option String)
  | .node sigs subs, [n] =>
    match sigs.find? (fun l => l.name = n) with
    | some l => some (l, flip, role)
    | none => none
  | .node _ subs, n :: rest => leafAtSubs flip subs n rest
  | _, [] => none
def leafAtSubs (flip : Bool) : List (String × Bool × Option String × BTree) → String → List String →
    Option (Leaf × Bool × Option String)
  | [], _, _ => none
  | (m, f, r, t) :: more, n, rest =>
    if m = n then leafAt (if f then !flip else flip) r t rest else leafAtSubs flip more n rest
end

mutual
def leafCount : BTree → Nat
  | .node sigs subs => sigs.length + leafCountSubs subs
def leafCountSubs : List (String × Bool × Option String × BTree) → Nat
  | [] => 0
  | (_, _, _, t) :: rest => leafCount t + leafCountSubs rest
end

/-- `replace_bundle_conn`: each flattened port of the instance (by path) is connected to the
    parent-side member with the same path. Returns (port name, parent signal name) pairs, or
    `none` if a member is missing on the parent side. -/
def connectByPath (portInst parentInst : String) (parentSide : List Flat) :
    List Flat → Option (List (String × String))
  | [] => some []
  | p :: rest =>
    match parentSide.find? (fun q => q.path = p.path), connectByPath portInst parentInst parentSide rest with
    | some q, some cs => some ((flatName portInst p.path, flatName parentInst q.path) :: cs)
    | _, _ => none

end Hdl21.Bundles
