/-
# C07 — Elaboration results do not depend on elaboration history   (and the runner facts C02 / C08 use)

Over the abstract runner (Runner.lean), for any module DAG with any sharing, any pass behaviour, any
fuel and any starting state left behind by earlier calls:

* `visit_reaches_all`   a completed visit of pass `k` leaves `k` done on everything reachable;
* `visit_runs_pass`     a pass class that has not completed on `m` really runs on `m` (it is not skipped
                        because some *other* class has completed there — the C02 repeat passes);
* `other_passes_untouched`, `done_never_rewritten`, `revisit_is_noop`  (idempotence, freeze);
* `only_below_touched`  a visit of `m` touches `m` and modules below it only: elaborating a design never
                        changes a module outside it.

* `history_independent`  (Lemmas/RunnerCanon.lean) for every sequence of `elaborate` calls over any lists of tops, from
                        the fresh state: every module below any top of any call ends with all passes done and in the
                        canonical state `C n x` — the same whether its sub-modules were elaborated earlier, alone, in
                        lists, under other parents, or never; `same_as_elaborated_alone`, `elaborating_again_changes_nothing`.
                        One hypothesis about the concrete passes, `Stable`: pass `k` on `x` in state `C k x` returns
                        `C (k+1) x` whatever later canonical state the modules below `x` are in and whatever other modules
                        look like (and does not fail).  That hypothesis is what the correspondence decides for the real
                        passes: all orders and groupings of elaborate / to_proto / netlist calls over small DAGs, each
                        history in a fresh interpreter, compared byte for byte with the single-call package.
-/
import Hdl21Model.Lemmas.Runner
import Hdl21Model.Lemmas.RunnerCanon
namespace Hdl21.Props.C07
open Hdl21.Runner

variable {S : Type}

theorem closed_reach (sys : Sys S) (k : Nat) (s : RState S) (hc : DoneClosed sys k s) :
    ∀ m x, Reach sys m x → s.done k m = true → s.done k x = true := by
  intro m x h
  induction h with
  | refl m => exact id
  | step m c x hcm _ ih => intro hm; exact ih (hc m hm c hcm)

/-- A completed visit of pass `k` leaves `k` done on every module below the visited one. -/
theorem visit_reaches_all (sys : Sys S) (hdag : ∀ m c, c ∈ sys.children m → c < m) (k fuel : Nat)
    (st : RState S) (m : Nat) (hc : DoneClosed sys k st) (hok : (visit sys k fuel st m).2 = true) :
    ∀ x, Reach sys m x → (visit sys k fuel st m).1.done k x = true := by
  obtain ⟨rel, ok⟩ := visit_spec sys hdag k fuel st m
  intro x hx
  exact closed_reach sys k _ (rel.closed hc) m x hx (ok hok).done

/-- The closure invariant itself survives every visit, successful or not. -/
theorem closed_preserved (sys : Sys S) (hdag : ∀ m c, c ∈ sys.children m → c < m) (k fuel : Nat)
    (st : RState S) (m : Nat) (hc : DoneClosed sys k st) : DoneClosed sys k (visit sys k fuel st m).1 :=
  (visit_spec sys hdag k fuel st m).1.closed hc

/-- Visits of pass `k` never touch the `done` set of another pass class: a repeat pass with its own
    class (own index) is not skipped because the first run of the same check has completed. -/
theorem other_passes_untouched (sys : Sys S) (hdag : ∀ m c, c ∈ sys.children m → c < m) (k fuel : Nat)
    (st : RState S) (m : Nat) (j x : Nat) (hj : j ≠ k) :
    (visit sys k fuel st m).1.done j x = st.done j x :=
  (visit_spec sys hdag k fuel st m).1.done_other j x hj

/-- A module on which the pass has completed is never rewritten by that pass again (freeze). -/
theorem done_never_rewritten (sys : Sys S) (hdag : ∀ m c, c ∈ sys.children m → c < m) (k fuel : Nat)
    (st : RState S) (m x : Nat) (hx : st.done k x = true) : (visit sys k fuel st m).1.σ x = st.σ x :=
  (visit_spec sys hdag k fuel st m).1.done_frozen x hx

/-- Visiting a module again is a no-op: nothing at all changes, and it reports success. -/
theorem revisit_is_noop (sys : Sys S) (k fuel : Nat) (st : RState S) (m : Nat)
    (hd : st.done k m = true) (hf : st.failed m = false) : visit sys k (fuel + 1) st m = (st, true) := by
  rw [visit]; simp [hd, hf]

/-- A visit of `m` touches `m` and the modules below it only. -/
theorem only_below_touched (sys : Sys S) (hdag : ∀ m c, c ∈ sys.children m → c < m) (k fuel : Nat)
    (st : RState S) (m x : Nat) (hx : m < x) :
    (visit sys k fuel st m).1.σ x = st.σ x ∧ (∀ j, (visit sys k fuel st m).1.done j x = st.done j x) ∧
    (visit sys k fuel st m).1.failed x = st.failed x :=
  visit_above sys hdag k fuel st m x hx

/-- A pass class that has not completed on `m` really runs on `m`: when the visit completes, `m`'s new
    state is what the pass returned, computed from the state left by the visits of `m`'s children. -/
theorem visit_runs_pass (sys : Sys S) (k fuel : Nat) (st : RState S) (m : Nat)
    (hd : st.done k m = false) (hf : st.failed m = false) (hok : (visit sys k (fuel + 1) st m).2 = true) :
    ∃ (r : RState S) (s : S), sys.apply k r.σ m = some s ∧ (visit sys k (fuel + 1) st m).1.σ m = s := by
  rw [visit] at hok ⊢
  simp only [hf, hd, Bool.false_eq_true, if_false] at hok ⊢
  generalize (List.foldl (fun (acc : RState S × Bool) c => if acc.2 then visit sys k fuel acc.1 c else acc) (st, true) (sys.children m)) = r at *
  obtain ⟨r1, b1⟩ := r
  cases b1 with
  | false => simp at hok
  | true =>
    simp only [Bool.not_true, Bool.false_eq_true, if_false] at hok ⊢
    cases happ : sys.apply k r1.σ m with
    | none => simp [happ] at hok
    | some s => exact ⟨r1, s, happ, by simp⟩

/-! ## history independence -/

/-- The state after any sequence of `elaborate` calls. -/
def after (sys : Sys S) (n fuel : Nat) (calls : List (List Nat)) (st : RState S) : RState S :=
  calls.foldl (fun st tops => (elaborate sys n fuel tops st).1) st

theorem after_keeps (sys : Sys S) (hdag : ∀ m c, c ∈ sys.children m → c < m) (C : Nat → Nat → S) (n : Nat)
    (hst : Stable sys C n) (fuel : Nat) :
    ∀ (calls : List (List Nat)) (st : RState S), (∀ tops ∈ calls, ∀ t ∈ tops, t < fuel) → Inv sys C n st →
      Inv sys C n (after sys n fuel calls st) ∧
      (∀ x, Lev C st x n → Lev C (after sys n fuel calls st) x n) ∧
      (∀ tops ∈ calls, ∀ t ∈ tops, ∀ y, Reach sys t y → Lev C (after sys n fuel calls st) y n) := by
  intro calls
  induction calls with
  | nil => intro st _ hi; exact ⟨hi, (fun x h => h), (fun tops h => by cases h)⟩
  | cons tops rest ih =>
    intro st hf hi
    obtain ⟨_, inv1, below1, lev1⟩ := elaborate_keeps sys hdag C n hst fuel tops (hf tops (List.mem_cons_self ..)) st hi
    obtain ⟨inv2, lev2, below2⟩ := ih (elaborate sys n fuel tops st).1 (fun t ht => hf t (List.mem_cons_of_mem _ ht)) inv1
    refine ⟨inv2, (fun x h => lev2 x (lev1 x h)), ?_⟩
    intro tops' ht' t ht y hy
    rcases List.mem_cons.mp ht' with rfl | h
    · exact lev2 y (below1 t ht y hy)
    · exact below2 tops' h t ht y hy

/-- **History independence.** After any sequence of `elaborate` calls from the fresh state, every module below any top
    of any call has had all `n` passes and is in the canonical state `C n y`. -/
theorem history_independent (sys : Sys S) (hdag : ∀ m c, c ∈ sys.children m → c < m) (C : Nat → Nat → S) (n : Nat)
    (hst : Stable sys C n) (fuel : Nat) (calls : List (List Nat)) (hf : ∀ tops ∈ calls, ∀ t ∈ tops, t < fuel) :
    ∀ tops ∈ calls, ∀ t ∈ tops, ∀ y, Reach sys t y →
      (after sys n fuel calls (fresh C)).σ y = C n y ∧ ∀ j, (after sys n fuel calls (fresh C)).done j y = true ↔ j < n := by
  intro tops ht t htt y hy
  have := (after_keeps sys hdag C n hst fuel calls (fresh C) hf (inv_fresh sys C n)).2.2 tops ht t htt y hy
  exact ⟨this.2, this.1⟩

/-- … which is the state the module gets when it is elaborated alone, first thing. -/
theorem same_as_elaborated_alone (sys : Sys S) (hdag : ∀ m c, c ∈ sys.children m → c < m) (C : Nat → Nat → S) (n : Nat)
    (hst : Stable sys C n) (fuel : Nat) (calls : List (List Nat)) (hf : ∀ tops ∈ calls, ∀ t ∈ tops, t < fuel)
    (tops : List Nat) (ht : tops ∈ calls) (t : Nat) (htt : t ∈ tops) (y : Nat) (hy : Reach sys t y) (hyf : y < fuel) :
    (after sys n fuel calls (fresh C)).σ y = (elaborate sys n fuel [y] (fresh C)).1.σ y := by
  rw [(history_independent sys hdag C n hst fuel calls hf tops ht t htt y hy).1]
  have := history_independent sys hdag C n hst fuel [[y]] (by intro tp h t' ht'; simp at h; subst h; simp at ht'; subst ht'; exact hyf)
    [y] (List.mem_singleton.mpr rfl) y (List.mem_singleton.mpr rfl) y (.refl y)
  simp only [after, List.foldl_cons, List.foldl_nil] at this
  exact this.1.symm

/-- Elaborating again changes nothing below what was completed. -/
theorem elaborating_again_changes_nothing (sys : Sys S) (hdag : ∀ m c, c ∈ sys.children m → c < m) (C : Nat → Nat → S) (n : Nat)
    (hst : Stable sys C n) (fuel : Nat) (calls more : List (List Nat))
    (hf : ∀ tops ∈ calls ++ more, ∀ t ∈ tops, t < fuel)
    (tops : List Nat) (ht : tops ∈ calls) (t : Nat) (htt : t ∈ tops) (y : Nat) (hy : Reach sys t y) :
    (after sys n fuel (calls ++ more) (fresh C)).σ y = (after sys n fuel calls (fresh C)).σ y := by
  rw [(history_independent sys hdag C n hst fuel (calls ++ more) hf tops (List.mem_append_left _ ht) t htt y hy).1,
      (history_independent sys hdag C n hst fuel calls (fun tp h => hf tp (List.mem_append_left _ h)) tops ht t htt y hy).1]

/-! Non-vacuity: a chain `0 ← 1 ← 2 ← …` whose passes count how often they ran; the hypothesis `Stable` holds. -/
def chain : Sys Nat := { children := fun m => if m = 0 then [] else [m - 1], apply := fun _ σ m => some (σ m + 1) }
example : Stable chain (fun l _ => l) 5 := by
  intro k x σ _ hc
  simp only [chain]
  rw [hc.1]
example : ∀ m c, c ∈ chain.children m → c < m := by
  intro m c h
  simp only [chain] at h
  split at h
  · cases h
  · simp at h; omega

/-! ## where `Stable` comes from: passes that read of the modules below only what later passes leave alone -/

/-- What a pass may read: its own module's state, and of every module below it a *view* (`view k`: what pass `k` looks at —
    for the connection checks the module's pre-flattening IO, for the flatteners the cached flattened ports). -/
def Local {V : Type} (sys : Sys S) (view : Nat → S → V) : Prop :=
  ∀ k σ σ' x, σ x = σ' x → (∀ y, Reach sys x y → y ≠ x → view k (σ y) = view k (σ' y)) → sys.apply k σ x = sys.apply k σ' x

/-- Later passes leave that view alone (what `_pre_flattening_io` and the per-module caches are for). -/
def Frozen {V : Type} (C : Nat → Nat → S) (view : Nat → S → V) : Prop :=
  ∀ k l y, k + 1 ≤ l → view k (C l y) = view k (C (k + 1) y)

/-- On a design elaborated in step — everything below exactly one pass ahead — pass `k` takes level `k` to level `k + 1`. -/
def InStep (sys : Sys S) (C : Nat → Nat → S) (n : Nat) : Prop :=
  ∀ k x, k < n → sys.apply k (fun y => if y = x then C k x else C (k + 1) y) x = some (C (k + 1) x)

/-- **`Stable` follows** from locality, frozen views and the in-step behaviour: a pass cannot tell a sub-module elaborated long
    ago (by an earlier call, under another parent) from one elaborated just now. -/
theorem stable_of_frozen_views {V : Type} (sys : Sys S) (C : Nat → Nat → S) (n : Nat) (view : Nat → S → V)
    (hl : Local sys view) (hf : Frozen C view) (hs : InStep sys C n) : Stable sys C n := by
  intro k x σ hk hc
  rw [← hs k x hk]
  apply hl k σ _ x
  · simp [hc.1]
  · intro y hy hne
    obtain ⟨l, hl', hσ⟩ := hc.2 y hy hne
    simp only [hne, ↓reduceIte]
    rw [hσ]
    exact hf k l y hl'

/-- History independence from the three code-level conditions. -/
theorem history_independent_of_frozen_views {V : Type} (sys : Sys S) (hdag : ∀ m c, c ∈ sys.children m → c < m)
    (C : Nat → Nat → S) (n : Nat) (view : Nat → S → V) (hl : Local sys view) (hf : Frozen C view) (hs : InStep sys C n)
    (fuel : Nat) (calls : List (List Nat)) (hfu : ∀ tops ∈ calls, ∀ t ∈ tops, t < fuel) :
    ∀ tops ∈ calls, ∀ t ∈ tops, ∀ y, Reach sys t y →
      (after sys n fuel calls (fresh C)).σ y = C n y ∧ ∀ j, (after sys n fuel calls (fresh C)).done j y = true ↔ j < n :=
  history_independent sys hdag C n (stable_of_frozen_views sys C n view hl hf hs) fuel calls hfu

/-- The three conditions are satisfiable by a pass that really reads the modules below: modules carry (level, interface width);
    every pass checks that each child's interface is the expected one and bumps the level; the view is the interface. -/
example : ∃ (sys : Sys (Nat × Nat)) (C : Nat → Nat → Nat × Nat),
    Local sys (fun _ s => s.2) ∧ Frozen C (fun _ s => s.2) ∧ InStep sys C 3 ∧ sys.children 2 = [0, 1] := by
  let w : Nat → Nat := fun x => x + 1
  let ch : Nat → List Nat := fun m => if m = 2 then [0, 1] else []
  refine ⟨⟨ch, fun k σ x => if (σ x).1 = k ∧ ∀ c ∈ ch x, (σ c).2 = w c then some (k + 1, (σ x).2) else none⟩,
    fun l x => (l, w x), ?_, ?_, ?_, rfl⟩
  · intro k σ σ' x hx hv
    have : ∀ c ∈ ch x, (σ c).2 = (σ' c).2 := by
      intro c hc
      have hlt : c ≠ x := by
        intro e; subst e
        simp only [ch] at hc
        split at hc <;> simp at hc
        rename_i h2; subst h2; rcases hc with h | h <;> omega
      exact hv c (.step x c c hc (.refl c)) hlt
    simp only [hx]
    congr 1
    apply propext
    constructor
    · rintro ⟨h1, h2⟩; exact ⟨h1, fun c hc => by rw [← this c hc]; exact h2 c hc⟩
    · rintro ⟨h1, h2⟩; exact ⟨h1, fun c hc => by rw [this c hc]; exact h2 c hc⟩
  · intro k l y _; rfl
  · intro k x _
    simp only [↓reduceIte, true_and]
    rw [if_pos]
    intro c hc
    have hne : c ≠ x := by
      intro e; subst e
      simp only [ch] at hc
      split at hc <;> simp at hc
      rename_i h2; subst h2; rcases hc with h | h <;> omega
    simp [hne, w]

end Hdl21.Props.C07
