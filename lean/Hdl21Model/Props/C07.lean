/-
# C07 — Elaboration results do not depend on elaboration history   (and the runner facts C02 / C08 use)

Over the abstract runner (Runner.lean), for any module DAG with any sharing, any pass behaviour, any
fuel and any starting state left behind by earlier calls:

* `visit_reaches_all`   a completed visit of pass `k` leaves `k` done on everything reachable;
* `visit_runs_pass`     a pass class that has not completed on `m` really runs on `m` (it is not skipped
                        because some *other* class has completed there — the C02 repeat passes);
* `other_passes_untouched`, `done_never_rewritten`, `revisit_is_noop`  (idempotence, freeze);
* `only_below_touched`  a visit of `m` touches `m` and modules below it only: elaborating a design never
                        changes a module outside it.

What is **not** proved here: that the state every module ends in is the canonical one whatever the
interleaving of calls (DESIGN.md §6 C07 `history_independent`, which needs the per-pass stability
conditions of the concrete passes).  That clause is decided by the correspondence only: all orders and
groupings of elaborate / to_proto / netlist calls over small DAGs, each history in a fresh interpreter,
compared byte for byte with the single-call package.
-/
import Hdl21Model.Lemmas.Runner
namespace Hdl21.Props.C07
open Hdl21.Runner

variable {S : Type}

theorem closed_reach (sys : Sys S) (k : Nat) (s : RState S) (hc : DoneClosed sys k s) :
    ∀ m x, Reach sys m x → s.done k m = true → s.done k x = true := by
  intro m x h
  induction h with
  | refl m => exact id
  | step m c x hcm _ ih => intro hm; exact ih (hc m hm c hcm)

/-- A completed visit of pass `k` leaves `k` done on every module below the visited one. -/
theorem visit_reaches_all (sys : Sys S) (hdag : ∀ m c, c ∈ sys.children m → c < m) (k fuel : Nat)
    (st : RState S) (m : Nat) (hc : DoneClosed sys k st) (hok : (visit sys k fuel st m).2 = true) :
    ∀ x, Reach sys m x → (visit sys k fuel st m).1.done k x = true := by
  obtain ⟨rel, ok⟩ := visit_spec sys hdag k fuel st m
  intro x hx
  exact closed_reach sys k _ (rel.closed hc) m x hx (ok hok).done

/-- The closure invariant itself survives every visit, successful or not. -/
theorem closed_preserved (sys : Sys S) (hdag : ∀ m c, c ∈ sys.children m → c < m) (k fuel : Nat)
    (st : RState S) (m : Nat) (hc : DoneClosed sys k st) : DoneClosed sys k (visit sys k fuel st m).1 :=
  (visit_spec sys hdag k fuel st m).1.closed hc

/-- Visits of pass `k` never touch the `done` set of another pass class: a repeat pass with its own
    class (own index) is not skipped because the first run of the same check has completed. -/
theorem other_passes_untouched (sys : Sys S) (hdag : ∀ m c, c ∈ sys.children m → c < m) (k fuel : Nat)
    (st : RState S) (m : Nat) (j x : Nat) (hj : j ≠ k) :
    (visit sys k fuel st m).1.done j x = st.done j x :=
  (visit_spec sys hdag k fuel st m).1.done_other j x hj

/-- A module on which the pass has completed is never rewritten by that pass again (freeze). -/
theorem done_never_rewritten (sys : Sys S) (hdag : ∀ m c, c ∈ sys.children m → c < m) (k fuel : Nat)
    (st : RState S) (m x : Nat) (hx : st.done k x = true) : (visit sys k fuel st m).1.σ x = st.σ x :=
  (visit_spec sys hdag k fuel st m).1.done_frozen x hx

/-- Visiting a module again is a no-op: nothing at all changes, and it reports success. -/
theorem revisit_is_noop (sys : Sys S) (k fuel : Nat) (st : RState S) (m : Nat)
    (hd : st.done k m = true) (hf : st.failed m = false) : visit sys k (fuel + 1) st m = (st, true) := by
  rw [visit]; simp [hd, hf]

/-- A visit of `m` touches `m` and the modules below it only. -/
theorem only_below_touched (sys : Sys S) (hdag : ∀ m c, c ∈ sys.children m → c < m) (k fuel : Nat)
    (st : RState S) (m x : Nat) (hx : m < x) :
    (visit sys k fuel st m).1.σ x = st.σ x ∧ (∀ j, (visit sys k fuel st m).1.done j x = st.done j x) ∧
    (visit sys k fuel st m).1.failed x = st.failed x :=
  visit_above sys hdag k fuel st m x hx

/-- A pass class that has not completed on `m` really runs on `m`: when the visit completes, `m`'s new
    state is what the pass returned, computed from the state left by the visits of `m`'s children. -/
theorem visit_runs_pass (sys : Sys S) (k fuel : Nat) (st : RState S) (m : Nat)
    (hd : st.done k m = false) (hf : st.failed m = false) (hok : (visit sys k (fuel + 1) st m).2 = true) :
    ∃ (r : RState S) (s : S), sys.apply k r.σ m = some s ∧ (visit sys k (fuel + 1) st m).1.σ m = s := by
  rw [visit] at hok ⊢
  simp only [hf, hd, Bool.false_eq_true, if_false] at hok ⊢
  generalize (List.foldl (fun (acc : RState S × Bool) c => if acc.2 then visit sys k fuel acc.1 c else acc) (st, true) (sys.children m)) = r at *
  obtain ⟨r1, b1⟩ := r
  cases b1 with
  | false => simp at hok
  | true =>
    simp only [Bool.not_true, Bool.false_eq_true, if_false] at hok ⊢
    cases happ : sys.apply k r1.σ m with
    | none => simp [happ] at hok
    | some s => exact ⟨r1, s, happ, by simp⟩

end Hdl21.Props.C07
